"""C10 -- actions receive faithful inputs: getargs values, changed, dependencies/targets, calc_dep results.

Correspondence: a SESSION (file operations, changes of task definitions, forget/ignore, change of
the checker, and `doit run` invocations) is executed through the real
`DoitMain(ModuleTaskLoader(ns)).run([...])` in-process (serial, `-n 2` processes, `-n 2 -P thread`;
explicit dep_file in a temp dir) and inside Coq with `exec_cmds` of Model/Inputs.v (which drives
Status.v/History.v through History.step).  Graphs: single and group producers returning values,
consumers with getargs on a key / on the whole dict (sources made setup-tasks implicitly, or listed
in `setup` explicitly), chains, calc_dep tasks returning file_dep / task_dep, python- and cmd-actions.

Two families of sessions: 'random' (the mix above) and 'revalue' (gen_session mode): a producer is successfully
RE-executed with other values than its previous execution saved -- often with NO values (its action returns
None / {} / True, field `noval`) after an execution that saved some -- by changing its definition and one of its file
dependencies; the consumers (single key / whole dict; single and group sources) run in the same run and in later
runs in which the producer is up-to-date and its values come from the DB; json, dbm and sqlite equally often.

Seams: instrumented python-actions append the kwargs they are called with to a log file (works
across worker processes); cmd-actions `echo` their expanded string to it; a recording reporter
(failure kinds, final state of every task, the Task objects via `initialize`); one wrapper around
Dependency.get_status records its verdict and task.dep_changed (the model's tr_verdict).

Encoding per run, for every task id in order (Inputs.trep_z), then -8:
   [final state: -1 untouched | 0 success | 2 up-to-date | 3 ignored | 1 action failed | 40 unmet dependency |
                 41 dependency error (missing file dep) | 42 getargs: no record | 43 getargs: no key |
                 44 save: file dep vanished;
    verdict of get_status 0/1/2 or -1;  mask(dep_changed) or -1;
    #kwargs or -1 when not executed; then per parameter: code, value]  -9
   parameter codes: 0 targets 1 dependencies 2 changed, k>=3 'a<k>';
   values: [1; mask(files)] | [2; v] single value (-1 None) | [3; 16 ints] whole dict by key code |
           [4; n; (sub id; value)*] group
   value keys: 0 run-once, 1 _config_changed, 2 u0, 4 u1, 6 file_dep (mask of files), 8 task_dep (mask of
   tasks), 2t+3 _result:<task t> (-2 absent, -1 None).

Independent oracle (no model): a Python shadow of "what the last successful execution of each task
saw / saved" (values returned by the instrumented action + the savers' keys are NOT needed: only
user keys are compared), evaluated on the kwargs the executed actions really received:
   getargs values == latest saved values of the source(s)      shape getargs-stale / getargs-group-extra-task-dep
            ("saved" = the user keys of the dict the source's action was SEEN to return -- logged next to its kwargs --
            in its most recent successful execution; None / True / {} = no values: a key from it is an error, the whole
            dict is {}), whether the source ran in this run or is up-to-date / not selected (DB)
   a task that fails with a getargs error has a source without record / without the key   shape getargs-error-without-cause
   dependencies == current file_dep (calc additions included), targets == current targets
   every task returned as task_dep by a calc_dep with visible values has its final report before the
            dependent's actions start                                   shape calc-task-dep-not-before
   changed >= {file deps that are new or whose content/mtime differs from the last success's view}
            shape changed-empty-when-uptodate-false when `changed` is empty and get_status left at its uptodate-false exit
            (the known finding; whether it did is the implementation's own statement: the wrapper asks get_status a second
            time with get_log=True and looks for the reason 'uptodate_false'; only if that second call fails: when an
            uptodate item -- False, run_once, or a result_dep -- CAN be false); changed-misses-readded-dep when exactly the missed files are dependencies again after
            successful execution(s) without them and unchanged since the task last had them (the per-file state saved by an
            EARLIER execution is still in the DB: save_success never drops it; get_status must list such a dependency because
            it is not in the saved 'deps:' list -- the repaired defect fixC of Model/Status.v, an ordinary violation shape,
            exercised in every run by the scripted family 'readded' below); else changed-misses-modified.
   a task with calc_dep gets its verdict (executed / up-to-date) only after each calc_dep task has its final report
            (executed or up-to-date) in this run                              shape calc-dep-not-run-before

Family 'readded' (gen_readded_session; scripted, the same histories for EVERY seed; model side AND oracle as for the
families above): a file dependency leaves file_dep and comes back, untouched: file_dep [f0, f1] / [f0] / [f0, f1] of a
static task, and a calc_dep provider returning [f1] / [f3] / [f1] for a consumer with file_dep [f0]; json, dbm and sqlite3,
md5 and timestamp checker, serial / -n 2 / -n 2 -P thread, python- and cmd-actions; continued by: nothing changed
(up-to-date), the file modified while it was not a dependency, the other file leaving and coming back.  In the run in
which the file is back the task executes (the dep SET changed) and `changed` must list it: it was not a dependency of the
last successful execution (C10_changed_superset, last clause; C10_changed_readded; the code before the repair answers []:
C10_changed_readded_legacy_refuted).  Plus for this family: every scripted run must reach its case (the consumer executed
/ up-to-date as scripted)                                                     shape readded-script-not-reached
   `changed` holds nothing beyond the scripted set                            shape changed-includes-unmodified

Family 'delayed' (gen_delayed_session; IMPLEMENTATION-SIDE ORACLE ONLY: delayed creation is modelled in Model/Delayed.v
for C15, not in Model/Inputs.v -- no model side, no theorem of Properties/C10.v speaks about it): the consumers are
created at RUN time by `doit.create_after` creators -- one dict returned (the created task takes over the node of the
placeholder of the same name), two sub-tasks yielded (selected by group name / sub-task name(s) / plain `doit run`),
the same with target_regex (selected by the path of a target) -- with calc_dep (provider returning file_dep / task_dep /
uptodate; executed this run, or up-to-date = saved values) and getargs (provider executed this run / values from the DB),
serial and `-n 2 -P thread` (not `-n 2` processes: a task created at run time is pickled whole for the worker, and the
instrumented closures of this harness cannot be pickled -- doit then stops with its documented runtime error), json / dbm /
sqlite3 round-robin; histories of 3-5 runs with episodes (edit a calculated
file, edit a declared file, the calc provider returns something else, the provider saves other values, forget, target
removed, touch, consumer definition changes, other checker, failing providers, -a).  Same World / run_session / Shadow.judge
as above (all oracles above apply), plus for this family only:
   `changed` <= {new or modified file deps} unless a target is missing        shape changed-includes-unmodified
   a consumer found up-to-date has no new/modified declared-or-calculated file dep, the same dep set as at its last success,
            no False uptodate item (declared or returned by the calc task), no missing target, some dependency, no -a
                                                  shapes uptodate-despite-modified-dep / uptodate-despite-reason-to-run

Family 'delayed-proc' (gen_delayed_session with flavours mostly 'proc'; sess['pickle']; harness/c10_pick.py): the delayed family
with PICKLABLE instrumented actions (instances of module-level classes instead of closures), so that its sessions also run under
`-n 2` worker PROCESSES: a task created at run time is sent to the worker as a whole pickled Task (runner.JobTask:
Task.__getstate__ / pickle.loads), so the getargs values the main process put into task.options, dep_changed and the file_dep
extended by the calc_dep task have to survive the pickling.  Same generator (shapes, episodes, selections, backends), same World /
Shadow.judge (every oracle of family 'delayed'), 4 of 6 runs with `-n 2`, the others serial / thread (same picklable actions);
getargs in 3 of 4 sessions.  The python-action has the getargs parameters LAST with a default (c10_pick.NOT_DELIVERED), as a user
function `def f(targets, tok=None)`; plus, for the whole delayed family:
   a getargs parameter of an executed task is passed to its action             shape c10:getargs-not-delivered
   the action of a consumer (never scripted to fail) does not fail / raise      shape c10:consumer-action-failed
Model: coq/Model/Pickle.v (what __getstate__ / pickle_safe_dict keep, init_options in the worker), theorems C10_pickled_* -- the
family itself is judged by the implementation-side oracle only, as family 'delayed'.

Family 'shared' (gen_session 'random' / 'revalue' with mostly two consumers + c10_kwargs.add_decl; model side AND every oracle
above): HOW THE PYTHON-ACTION IS DECLARED.  The actions of the getargs consumers (and of a chain's middle task) are tuples
`(callable, args, kwargs)` whose `kwargs` is a dict OBJECT of the dodo file -- one object for all those tasks, one per task, or a
mix; living as long as the process (a module-level constant: the same object in every run of the session) or created anew at
every load; declared content {a9: n} or {} -- and whose callable takes its inputs through named parameters, through **kwargs only
(then no meta-argument arrives), or meta-arguments by name and getargs values through **kwargs; sometimes with one positional
argument.  Two consumers use the same getargs names (a3, a4) for different sources, and in 'revalue' histories a source saves
other values from run to run: a value left in a shared dict by another task / an earlier run would be a stale or foreign one.
On top of Shadow.judge (getargs-stale, dependencies-differ, targets-differ, changed-*), c10_kwargs.judge_decl:
   a declared keyword arrives as declared                                       shape c10:kwargs-declared-value-changed
   no keyword arrives that is neither declared, nor a getargs entry of the task, nor a meta-argument the callable has a
            parameter for                                                         shape c10:kwargs-foreign-keyword
   the declared action is called (positional argument as declared, no exception)  shape c10:kwargs-call-raised

Family 'kwargs' (harness/c10_kwargs.py class_level; model Model/Kwargs.v, theorems C10_kwargs_*): the same dimension at class
level -- real Task / PythonAction objects, sequences of executions over shared dict objects with the task state (options =
getargs values, file_dep, dep_changed) changing in between, all signatures (positional / meta / option / declared parameters,
**kwargs), name collisions included; compared item by item, in dict order, with `calls_z` of the model, and judged by an oracle
computed from the declared program (shapes c10:kwargs-getargs-not-current / -meta-not-current / -declared-value-changed /
-foreign-keyword / -call-raised); see that module.
"""
import contextlib, hashlib, io, json, os, sys
import common
from common import Outcome
import c10_kwargs
import c10_pick

PRE = ('From DoitV Require Import Base Status History Inputs.\nOpen Scope Z_scope.\n'
       'Definition md5o (c : N) : N := c.\n'
       'Definition sizeo (c : N) : Z := match c with 0%N => 4 | 1%N => 4 | 2%N => 2 | 3%N => 4 | 4%N => 0 | _ => 7 end.\n'
       'Definition FUEL : nat := 60%nat.\n'
       'Definition mkdef fd tg ut setup gas vals res : tdef :=\n'
       '  {| file_dep := fd; targets := tg; uptodate := init_uptodate ut setup gas; act_values := vals; act_result := res |}.\n'
       'Definition mktask gas setup tdep cdep grp sub params : itask :=\n'
       '  {| i_getargs := gas; i_setup := init_setup setup gas; i_task_dep := tdep; i_calc_dep := cdep; i_group := grp; i_sub_of := sub; i_params := params |}.\n')
BASE = 1600000000
CONTENT = {0: b'aaaa', 1: b'bbbb', 2: b'cc', 3: b'dddd', 4: b''}
RESULT_MD5 = {hashlib.md5(('res%d' % i).encode()).hexdigest(): i for i in range(8)}
NF = 6                      # files 0..3: dependencies, 4..5: targets
STATUS_Z = {'up-to-date': 0, 'run': 1, 'error': 2}
PARAM_NAME = {0: 'targets', 1: 'dependencies', 2: 'changed'}
FLAVOURS = {'serial': [], 'proc': ['-n', '2'], 'thread': ['-n', '2', '-P', 'thread']}
DELAYED_REGEX = r'.*/f[45]$'   # target_regex of the delayed creators (files 4, 5 are the targets)
BACKENDS = ('json', 'dbm', 'sqlite')


def mask(xs):
    m = 0
    for x in xs:
        m |= 1 << x
    return m


def pname(code):
    return PARAM_NAME.get(code, 'a%d' % code)


# ------------------------------------------------------------------ generation
NOVAL = ('none', 'dict', 'true')      # how a python-action says "no values": return None / {} / True


def gen_session(rng, idx, mode='random', ncons_choices=(1, 1, 2)):
    """tasks: list of specs; ids are positions; a task depends only on lower ids, except a group
    (its sub-tasks directly follow it).
    mode 'revalue': histories aimed at successive successful executions of one producer that save DIFFERENT
    values -- in particular no values (None / {} / True) after some values -- with the consumers executed in the
    same run and in later runs in which the producer is up-to-date (its values then come from the DB)."""
    tasks = []
    rv = mode == 'revalue'

    def new(**kw):
        t = dict(kind='plain', file_dep=[], targets=[], uptodate=[], values=[], result=None, getargs=[], setup=[],
                 task_dep=[], calc_dep=[], group=False, sub_of=None, action='py', params=[], extra_dep=[],
                 noval=rng.choice(NOVAL))
        t.update(kw)
        tasks.append(t)
        return len(tasks) - 1

    def rvalues(p_empty=0.12):
        if rng.random() < p_empty:
            return []             # the actions return no values: an EMPTY dict is saved
        ks = rng.sample([0, 1], rng.choice([1, 2, 2]))
        return sorted((k, rng.choice([None, 0, 1, 2, 3, 5, 7])) for k in ks)

    def other_values(old):
        """values for the next execution of a producer: different from `old`; often none at all, or fewer keys"""
        for _ in range(20):
            r = rng.random()
            if r < 0.45:
                new = []
            elif r < 0.6 and len(old) > 1:
                new = [rng.choice(old)]
            else:
                new = rvalues(0)
            if new != old:
                return new
        return []

    def rdeps(p=0.6):
        if rv and p < 0.8:
            p = 0.85              # a producer with a file_dep can be up-to-date in a later run
        return sorted(rng.sample(range(4), rng.choice([1, 1, 2]))) if rng.random() < p else []

    def rutd():
        r = rng.random()
        return [('bool', True)] if r < 0.2 else [('run_once',)] if r < 0.3 else []

    shape = rng.choice(['single', 'single', 'group', 'group', 'chain', 'calc', 'calc', 'two', 'group-extra'])
    if rv:
        shape = rng.choice(['single', 'single', 'group', 'group', 'chain', 'two', 'group-extra'])
    producers, groups = [], []
    if shape in ('single', 'chain', 'two', 'calc'):
        producers.append(new(file_dep=rdeps(), uptodate=rutd(), values=rvalues(), result=rng.choice([None, 0, 1, 2])))
    if shape == 'two':
        producers.append(new(file_dep=rdeps(), uptodate=rutd(), values=rvalues(), result=rng.choice([None, 3])))
    if shape in ('group', 'group-extra'):
        extra = []
        if shape == 'group-extra':
            extra = [new(file_dep=rdeps(), uptodate=rutd(), values=rvalues())]
        g = new(group=True, kind='group', extra_dep=extra)
        nsub = rng.choice([1, 2, 2, 3])
        subs = [new(sub_of=g, file_dep=rdeps(), uptodate=rutd(), values=rvalues(), result=rng.choice([None, 4])) for _ in range(nsub)]
        tasks[g]['task_dep'] = extra + subs
        groups.append(g)
    if shape == 'chain':
        # a middle task: consumer of the producer and producer for the final consumer
        src = producers[0]
        mid = new(file_dep=rdeps(0.5), uptodate=rutd(), values=rvalues(), getargs=[(3, src, rng.choice([0, 1, None]))],
                  setup=[src] if rng.random() < 0.4 else [], params=[3, 2], result=rng.choice([None, 5]))
        producers.append(mid)
    calc = None
    if shape == 'calc':
        # the calc task returns file_dep (files) and possibly task_dep (a producer)
        cv = [(2, mask(sorted(rng.sample(range(4), rng.choice([1, 2])))))]
        if rng.random() < 0.6:
            cv.append((3, mask([producers[0]])))
        calc = new(kind='calc', file_dep=rdeps(0.7), uptodate=rutd(), values=cv)
    # consumers
    ncons = rng.choice(list(ncons_choices))
    for ci in range(ncons):
        gas, params = [], []
        srcs = producers + groups
        nga = min(len(srcs), rng.choice([1, 1, 2]))
        action = rng.choice(['py', 'py', 'py', 'cmd'])
        for j, src in enumerate(rng.sample(srcs, nga)):
            code = 3 + j
            if rng.random() < 0.06 and j == 0:
                code = 2          # a getargs entry named `changed`: shadows the meta-argument
            key = rng.choice([0, 0, 1, None])
            if rv:
                # a key the source (the first sub-task of a group) saves at the start, or the whole dict
                first = tasks[src]['task_dep'][-1] if tasks[src]['group'] else src
                key = rng.choice([k for k, _ in tasks[first]['values']] * 2 + [None, None, rng.choice([0, 1])])
            if action == 'cmd' and (key is None or tasks[src]['group']):
                action = 'py'
            gas.append((code, src, key))
            params.append(code)
        setup = []
        for (_, src, _) in gas:
            if tasks[src]['group'] or rng.random() < 0.3:    # group sources are given as explicit setup-tasks
                if src not in setup:
                    setup.append(src)
        srcs_ = [src for _, src, _ in gas]
        if any(s2 in srcs_ for s1 in srcs_ for _, s2, _ in tasks[s1]['getargs']):
            # two sources, one consuming the other (chain): Task._init_getargs collects the implicit sources in a SET of
            # names, the order in which they become setup-tasks is the set's iteration order (hash seed); here that
            # order would be observable (the middle task is checked before or after the producer ran), so the
            # sources are listed explicitly, in a fixed order (see the report: finding `getargs-setup-order`)
            setup += [src for src in srcs_ if src not in setup]
        params = [p for p in [0, 1, 2] if p not in params and rng.random() < 0.9] + params
        rng.shuffle(params)
        utd = rng.choice([[], [], [], [('bool', False)], [('bool', True)]])
        if rv:
            utd = rng.choice([[], [('bool', False)], [('bool', False)]])      # the consumer is executed in most runs
        c = new(kind='consumer', file_dep=rdeps(0.8), targets=[4 + ci] if rng.random() < 0.5 else [],
                uptodate=utd, getargs=gas, setup=setup, params=params, action=action,
                calc_dep=[calc] if calc is not None and rng.random() < 0.85 else [],
                task_dep=[rng.choice(producers)] if producers and rng.random() < 0.15 else [],
                values=rvalues() if rng.random() < 0.2 and action == 'py' else [])
    n = len(tasks)
    consumers = [i for i, t in enumerate(tasks) if t['kind'] == 'consumer']
    # the session
    cmds = [('SetChecker', rng.choice(['md5', 'md5', 'ts']))]
    for f in range(NF):
        if f < 4 or rng.random() < 0.6:
            cmds.append(('Write', f, rng.choice([0, 1, 2, 3])))
    for i in range(n):
        cmds.append(('SetDef', i))
    nruns = rng.choice([3, 4, 4, 5] if rv else [2, 3, 3, 4])
    live = [dict(t) for t in tasks]

    def content_of(f):
        """content code of file f after the commands generated so far (None: absent)"""
        c = None
        for cm in cmds:
            if cm[0] == 'Write' and cm[1] == f:
                c = cm[2]
            elif cm[0] == 'Delete' and cm[1] == f:
                c = None
        return c

    def revalue(i):
        """the dodo file changes so that producer i returns other values (often none), and one of its file
        dependencies gets another content: its next execution is a successful RE-execution with other values"""
        t = dict(live[i])
        t['values'] = other_values(t['values'])
        t['noval'] = rng.choice(NOVAL)
        live[i] = t
        cmds.append(('SetDef', i, t))
        if t['file_dep']:
            f = rng.choice(t['file_dep'])
            cmds.append(('Write', f, rng.choice([c for c in [0, 1, 2, 3] if c != content_of(f)])))

    sources = [i for i, t in enumerate(tasks) if t['kind'] == 'plain' and not t['group']]
    revalued = False
    for r in range(nruns):
        if r > 0 and rv:
            k = rng.random()
            if k < (0.3 if revalued else 0.75):
                revalued = True
                revalue(rng.choice(sources))
                if rng.random() < 0.3:
                    revalue(rng.choice(sources))
            elif k < 0.9:
                revalued = False
                # nothing happens to the producers (up-to-date, values from the DB); something makes a consumer run
                c = rng.choice(consumers)
                k2 = rng.random()
                if k2 < 0.3:
                    cmds.append(('Forget', c))
                elif k2 < 0.5 and live[c]['targets']:
                    cmds.append(('Delete', live[c]['targets'][0]))
                elif k2 < 0.7:
                    own = [f for f in live[c]['file_dep'] if not any(f in live[j]['file_dep'] for j in sources)]
                    if own:
                        f = rng.choice(own)
                        cmds.append(('Write', f, rng.choice([x for x in [0, 1, 2, 3] if x != content_of(f)])))
        if r > 0:
            for _ in range(rng.choice([0, 0, 0, 1] if rv else [0, 1, 1, 2, 3])):
                k = rng.random()
                if k < 0.30:
                    cmds.append(('Write', rng.randrange(4), rng.choice([0, 1, 2, 3])))
                elif k < 0.38:
                    cmds.append(('Touch', rng.randrange(4)))
                elif k < 0.50:
                    cmds.append(rng.choice([('Delete', rng.choice([4, 5])), ('Write', rng.choice([4, 5]), 0)]))
                elif k < 0.53:
                    cmds.append(('Delete', rng.randrange(4)))
                elif k < 0.75:
                    # the dodo file changes: a producer returns other values / a consumer gets another item / dep set
                    i = rng.randrange(n)
                    t = dict(live[i])
                    if t['kind'] in ('plain', 'calc') or t['sub_of'] is not None:
                        if t['kind'] == 'calc':
                            t['values'] = [(2, mask(sorted(rng.sample(range(4), rng.choice([1, 2])))))] + [kv for kv in t['values'] if kv[0] == 3]
                        else:
                            t['values'] = rvalues(0.3)
                            t['noval'] = rng.choice(NOVAL)
                    elif t['kind'] == 'consumer':
                        if rng.random() < 0.5:
                            t['uptodate'] = rng.choice([[], [('bool', False)], [('bool', True)]])
                        else:
                            t['file_dep'] = rdeps(0.9)
                    else:
                        continue
                    live[i] = t
                    cmds.append(('SetDef', i, t))
                elif k < 0.87:
                    cand = [i for i, t in enumerate(tasks) if not t['group']]
                    cmds.append(('Forget', rng.choice(cand)))
                elif k < 0.90:
                    cand = [i for i, t in enumerate(tasks) if not t['group'] and t['kind'] != 'consumer']
                    if cand:
                        cmds.append(('Ignore', rng.choice(cand)))
                elif k < 0.94:
                    cmds.append(('SetChecker', rng.choice(['md5', 'ts'])))
                else:
                    cmds.append(('Write', rng.randrange(4), rng.choice([0, 1, 2, 3])))
        # tasks with calc_dep get their static definition back at every start of doit
        for i, t in enumerate(live):
            if t['calc_dep']:
                cmds.append(('SetDef', i, dict(t)))
        sel = list(consumers) if rng.random() < (0.9 if rv else 0.7) else sorted(rng.sample(range(n), rng.choice([1, 2])))
        if rng.random() < 0.2:
            sel = [rng.choice([i for i, t in enumerate(tasks) if t['kind'] != 'consumer'])] + sel
        fails = [i for i, t in enumerate(tasks) if not t['group'] and rng.random() < (0.03 if rv else 0.06)]
        flavour = rng.choice(['serial', 'serial', 'proc', 'thread'])
        if flavour != 'serial' and len(set(sel)) > 1:
            # under a parallel runner the verdict of a task with a result_dep(setup_dep=True) item depends on whether
            # its source -- not a dependency until the verdict is `run` -- was saved/removed before or after the check:
            # only one root is selected there, so that what each task receives does not depend on the schedule
            sel = [rng.choice(consumers)]

        def racy(root):
            # the same dependence on the schedule inside ONE root: two of its setup-tasks (getargs sources), one of which
            # has a result_dep on the other (chain: producer and middle task), are dispatched together; the middle
            # task is checked before or after the producer's new result is saved / its record removed
            srcs = {s for _, s, _ in tasks[root]['getargs']} | set(tasks[root]['setup'])
            return any(s2 in srcs for s1 in srcs for _, s2, _ in tasks[s1]['getargs'])
        if flavour != 'serial' and any(racy(i) for i in sel):
            flavour = 'serial'
        cmds.append(('Run', rng.random() < (0.08 if rv else 0.15), fails, sel, flavour))
    return dict(idx=idx, mode=mode, tasks=tasks, cmds=cmds,
                backend=rng.choice(['json', 'dbm', 'sqlite'] if rv else ['json'] * 6 + ['dbm', 'sqlite']))


# ------------------------------------------------------------------ generation: a dependency that leaves and comes back
READDED_VARIANTS = [(b, kind, ck) for b in BACKENDS for kind in ('static', 'calc') for ck in ('md5', 'ts')]


def gen_readded_session(idx, k):
    """family 'readded' (scripted; no random choice: the same histories for every seed).  k % 12 selects backend x
    static/calc x checker; runner flavour and action kind rotate with k.
    sess['script'] = per run (consumer id, 'run' | 'up-to-date', expected `changed` as a sorted list or None, is-the-readded-case)"""
    backend, kind, ck = READDED_VARIANTS[k % len(READDED_VARIANTS)]
    b, kd, c = BACKENDS.index(backend), int(kind == 'calc'), int(ck == 'ts')
    flavour = ('serial', 'proc', 'thread')[(b + kd + c + k // len(READDED_VARIANTS)) % 3]
    action = 'cmd' if (k + k // len(READDED_VARIANTS)) % 3 == 1 else 'py'
    tasks, cmds, script = [], [('SetChecker', ck)], []

    def new(**kw):
        t = dict(kind='plain', file_dep=[], targets=[], uptodate=[], values=[], result=None, getargs=[], setup=[],
                 task_dep=[], calc_dep=[], group=False, sub_of=None, action='py', params=[], extra_dep=[], noval='none')
        t.update(kw)
        tasks.append(t)
        return len(tasks) - 1
    for f in range(4):
        cmds.append(('Write', f, f))
    content = {f: f for f in range(4)}
    if kind == 'static':
        cons = new(kind='consumer', file_dep=[0, 1], params=[1, 2], action=action)
        live = dict(tasks[cons])
        cmds.append(('SetDef', cons))

        def run(deps, verdict, changed, case=False):
            if deps is not None and deps != live['file_dep']:
                live['file_dep'] = list(deps)
                cmds.append(('SetDef', cons, dict(live)))
            cmds.append(('Run', False, [], [cons], flavour))
            script.append((cons, verdict, None if changed is None else sorted(changed), case))

        def edit(f):
            content[f] = (content[f] + 1) % 4
            cmds.append(('Write', f, content[f]))
        run(None, 'run', {0, 1})                 # first execution
        run([0], 'run', set())                   # f1 leaves: the dep set changed, nothing is modified
        run([0, 1], 'run', {1}, True)            # f1 is back, untouched since run 0: not a dependency of the last execution
        run(None, 'up-to-date', None)
        run([0], 'run', set())
        edit(1)                                  # modified while it was not a dependency
        run([0, 1], 'run', {1})
        run([1], 'run', set())                   # now f0 leaves ...
        run([0, 1], 'run', {0}, True)            # ... and comes back
        edit(0)
        run(None, 'run', {0})                    # an ordinary modification
    else:
        # the provider has a file dependency in half of the variants (then it is re-executed because that file is edited,
        # and is up-to-date -- its saved values are used -- in the run in which nothing changes), none in the others (it
        # re-executes in every run)
        pdeps = [2] if c else []
        prov = new(kind='calc', file_dep=pdeps, values=[(2, mask([1]))])
        cons = new(kind='consumer', file_dep=[0], calc_dep=[prov], params=[1, 2], action=action)
        plive = dict(tasks[prov])
        cmds += [('SetDef', prov), ('SetDef', cons)]

        def run(ret, verdict, changed, case=False):
            if ret is not None:
                plive['values'] = [(2, mask(ret))]
                cmds.append(('SetDef', prov, dict(plive)))
                if pdeps:
                    content[2] = (content[2] + 1) % 4
                    cmds.append(('Write', 2, content[2]))
            cmds.append(('SetDef', cons, dict(tasks[cons])))     # the static definition is back at every start of doit
            cmds.append(('Run', False, [], [cons], flavour))
            script.append((cons, verdict, None if changed is None else sorted(changed), case))

        def edit(f):
            content[f] = (content[f] + 1) % 4
            cmds.append(('Write', f, content[f]))
        run(None, 'run', {0, 1})                 # the provider returns [f1]: dependencies [f0, f1]
        run([3], 'run', {3})                     # ... [f3]: f1 leaves, f3 is new
        run([1], 'run', {1}, True)               # ... [f1] again: f1 is back, untouched; f3 leaves
        run(None, 'up-to-date', None)
        run([3], 'run', {3}, True)               # f3 is back, untouched since the second run
        edit(1)                                  # f1 is modified while it is not a dependency
        run([1], 'run', {1})
        run([1, 3], 'run', {3}, True)            # f3 joins again (f1 stays)
    return dict(idx=idx, mode='readded', tasks=tasks, cmds=cmds, backend=backend, script=script,
                variant='%s:%s:%s:%s:%s' % (kind, backend, ck, flavour, action))


def judge_readded(sess, w, runs, out):
    """family 'readded': every scripted run reached its case, and `changed` holds nothing beyond the scripted set
    (a scripted file that is MISSING from `changed` is reported by Shadow.judge: changed-misses-readded-dep / -modified)"""
    for ri, (cons, verdict, want, is_case) in enumerate(sess['script']):
        want = None if want is None else set(want)
        case = dict(session=sess['idx'], mode='readded', variant=sess['variant'], run=ri, task=cons, tasks=sess['tasks'],
                    cmds=sess['cmds'], backend=sess['backend'], script=sess['script'])
        if ri >= len(runs):
            out.violations.append(dict(what='scripted run %d of the readded family was not executed' % ri, shape='readded-script-not-reached', case=case))
            continue
        obs = runs[ri]
        nm = w.names[cons]
        kinds = [e for e, tn, _ in obs['events'] if tn == nm]
        lg = [l for l in obs['logged'] if l['task'] == nm and 'kw' in l]
        if verdict == 'up-to-date':
            if 'uptodate' not in kinds or lg:
                out.violations.append(dict(what='run %d of the scripted history: %s should be up-to-date (nothing changed since its last successful execution), events: %s' % (ri, nm, kinds),
                                           shape='readded-script-not-reached', case=case))
            else:
                out.count('readded:up-to-date-when-nothing-changed')
            continue
        if 'success' not in kinds or len(lg) != 1 or 'changed' not in lg[0]['kw'] or 'dependencies' not in lg[0]['kw']:
            out.violations.append(dict(what='run %d of the scripted history: %s should have been executed and have received `dependencies` and `changed`; events: %s, exit %s' % (ri, nm, kinds, obs['rc']),
                                       shape='readded-script-not-reached', case=case))
            continue
        ch = {w.fileno(p) for p in lg[0]['kw']['changed']}
        if not ch <= want:
            out.violations.append(dict(what='run %d of the scripted history: `changed` %s of %s holds %s, neither new nor modified since its last successful execution (scripted: %s)'
                                            % (ri, sorted(ch), nm, sorted(ch - want), sorted(want)), shape='changed-includes-unmodified', case=case))
        elif ch == want:
            out.count('readded:changed==scripted-set' + (':the-readded-dependency' if is_case else ':nonempty' if want else ':empty'))
            if is_case:
                out.nontrivial.add((sess['idx'], ri))
                out.count('readded:case:%s' % sess['variant'].rsplit(':', 2)[0])


# ------------------------------------------------------------------ generation: consumers created at run time
DSHAPES = ('single', 'sub', 'single', 'sub', 'regex-single', 'single', 'sub', 'regex-sub')


def gen_delayed_session(rng, idx, k, flavours=('serial', 'serial', 'thread'), p_ga=0.55):
    """family 'delayed': the consumers are created at RUN time by a `doit.create_after` creator (t['delayed'] =
    dict(executed=<id of the trigger task or None>, regex=<creator has a target_regex>)):
       single       the creator returns ONE dict: the created task takes over the node of the placeholder of the same name
       sub          the creator yields two sub-tasks (T<g>:s<a>, T<g>:s<b>); selected by group name, by sub-task name(s),
                    or by a plain `doit run`
       regex-*      the same with target_regex on the creator; also selected by the path of a target
    static tasks: T0 = the trigger (`executed`), a getargs provider (values u0/u1; with file deps, so that it can be
    up-to-date and its values come from the DB), a calc provider returning file_dep / task_dep / uptodate (with file deps:
    up-to-date = its saved values are used; without: it re-executes in every run), a task the calc provider may return
    as task_dep.  History: run; then per run one or two episodes (nothing / edit a calculated file / edit a declared file /
    the calc provider returns something else / the getargs provider saves other values / forget / target removed /
    touch / the consumer's definition changes / other checker)."""
    tasks = []
    shape = DSHAPES[k % len(DSHAPES)]
    regex, sub = shape.startswith('regex'), shape.endswith('sub')

    def new(**kw):
        t = dict(kind='plain', file_dep=[], targets=[], uptodate=[], values=[], result=None, getargs=[], setup=[],
                 task_dep=[], calc_dep=[], group=False, sub_of=None, action='py', params=[], extra_dep=[],
                 noval=rng.choice(NOVAL), delayed=None)
        t.update(kw)
        tasks.append(t)
        return len(tasks) - 1

    def rdeps(p):
        return sorted(rng.sample(range(4), rng.choice([1, 1, 2]))) if rng.random() < p else []

    def rvalues():
        ks = rng.sample([0, 1], rng.choice([1, 2, 2]))
        return sorted((kk, rng.choice([None, 0, 1, 2, 3, 5, 7])) for kk in ks)

    def rutd():
        r = rng.random()
        return [('bool', True)] if r < 0.2 else [('run_once',)] if r < 0.3 else []

    pre = new()                                   # T0: no dependencies, executed in every run
    executed = pre if rng.random() < 0.85 else None
    use_ga = rng.random() < p_ga
    use_calc = (not use_ga) or rng.random() < 0.8
    prov = extra = calc = None
    if use_ga:
        prov = new(file_dep=rdeps(0.85), uptodate=rutd(), values=rvalues(), result=rng.choice([None, 0, 1, 2]))

    def calc_values(old=None):
        cv = []
        for _ in range(20):
            cv = [(2, mask(sorted(rng.sample(range(4), rng.choice([1, 1, 2])))))]
            if extra is not None and rng.random() < 0.5:
                cv.append((3, mask([extra])))
            r = rng.random()
            if r < 0.12:
                cv.append((4, 0))                 # uptodate: [False]
            elif r < 0.3:
                cv.append((4, 1))                 # uptodate: [True]
            if cv != old:
                break
        return cv
    if use_calc:
        if rng.random() < 0.5:
            extra = new(file_dep=rdeps(0.5))
        calc = new(kind='calc', file_dep=rdeps(0.65), values=calc_values())
    dl = dict(executed=executed, regex=regex)

    def consumer(ci, with_calc, with_ga, **kw):
        gas, params, setup = [], [0, 1, 2], []
        action = rng.choice(['py', 'py', 'py', 'cmd'])
        if with_ga:
            key = rng.choice([kk for kk, _ in tasks[prov]['values']] * 3 + [None, None, rng.choice([0, 1])])
            if key is None:
                action = 'py'
            gas = [(3, prov, key)]
            params.append(3)
            if rng.random() < 0.4:
                setup = [prov]
        rng.shuffle(params)
        return new(kind='consumer', file_dep=rdeps(0.85), targets=[4 + ci] if (regex or rng.random() < 0.4) else [],
                   uptodate=rng.choice([[], [], [], [], [('bool', False)], [('bool', True)]]), getargs=gas, setup=setup,
                   params=params, action=action, calc_dep=[calc] if with_calc else [], **kw)
    if sub:
        g = new(group=True, kind='group', delayed=dl)
        a = consumer(0, use_calc, use_ga and rng.random() < 0.5, sub_of=g)
        b = consumer(1, use_calc and rng.random() < 0.5, use_ga, sub_of=g)
        tasks[g]['task_dep'] = [a, b]
        consumers = [a, b]
    else:
        g = None
        consumers = [consumer(0, use_calc, use_ga, delayed=dl)]
    n = len(tasks)
    cmds = [('SetChecker', rng.choice(['md5', 'md5', 'md5', 'ts']))]
    for f in range(NF):
        if f < 4 or rng.random() < 0.5:
            cmds.append(('Write', f, rng.choice([0, 1, 2, 3])))
    for i in range(n):
        cmds.append(('SetDef', i))
    live = [dict(t) for t in tasks]

    def content_of(f):
        c = None
        for cm in cmds:
            if cm[0] == 'Write' and cm[1] == f:
                c = cm[2]
            elif cm[0] == 'Delete' and cm[1] == f:
                c = None
        return c

    def edit(f):
        cmds.append(('Write', f, rng.choice([c for c in [0, 1, 2, 3] if c != content_of(f)])))

    def setdef(i, **kw):
        t = dict(live[i])
        t.update(kw)
        live[i] = t
        cmds.append(('SetDef', i, t))
        return t

    def episode():
        r = rng.random()
        if r < 0.10:
            return 'nothing'
        if r < 0.32 and calc is not None:
            m = dict(live[calc]['values']).get(2, 0)
            fs = [f for f in range(4) if m >> f & 1]
            if fs:
                # preferably a file the calc provider itself does not depend on: it stays up-to-date (saved values)
                edit(rng.choice([f for f in fs if f not in live[calc]['file_dep']] or fs))
                return 'edit-calculated-file'
        if r < 0.44:
            ci = rng.choice(consumers)
            if live[ci]['file_dep']:
                edit(rng.choice(live[ci]['file_dep']))
                return 'edit-declared-file'
        if r < 0.60 and calc is not None:
            t = setdef(calc, values=calc_values(live[calc]['values']))
            if t['file_dep'] and rng.random() < 0.8:
                edit(rng.choice(t['file_dep']))   # else: the provider stays up-to-date, its SAVED values still count
            return 'calc-returns-other'
        if r < 0.70 and prov is not None:
            old = live[prov]['values']
            for _ in range(20):
                nv = [] if rng.random() < 0.25 else rvalues()
                if nv != old:
                    break
            t = setdef(prov, values=nv, noval=rng.choice(NOVAL))
            if t['file_dep']:
                edit(rng.choice(t['file_dep']))
            return 'provider-saves-other-values'
        if r < 0.80:
            cmds.append(('Forget', rng.choice(consumers * 2 + [x for x in (calc, prov) if x is not None])))
            return 'forget'
        if r < 0.87:
            tg = [f for ci in consumers for f in live[ci]['targets']]
            if tg:
                f = rng.choice(tg)
                cmds.append(('Delete', f) if content_of(f) is not None else ('Write', f, 0))
                return 'target-removed-or-created'
        if r < 0.91:
            cmds.append(('Touch', rng.randrange(4)))
            return 'touch'
        if r < 0.97:
            ci = rng.choice(consumers)
            if rng.random() < 0.5:
                setdef(ci, uptodate=rng.choice([[], [('bool', False)], [('bool', True)]]))
            else:
                setdef(ci, file_dep=rdeps(0.9))
            return 'consumer-definition-changes'
        cmds.append(('SetChecker', rng.choice(['md5', 'ts'])))
        return 'checker'

    def selection():
        if sub:
            opts = [('args', [g]), ('args', [g]), ('args', [a]), ('args', [b]), ('args', [a, b]), ('plain', [])]
        else:
            c = consumers[0]
            opts = [('args', [c]), ('args', [c]), ('plain', [])]
            if calc is not None:
                opts += [('args', [calc, c]), ('args', [c, calc])]
        if regex:
            tg = [f for ci in consumers for f in tasks[ci]['targets']]
            opts += [('args', [('f', rng.choice(tg))])] * 3
        return rng.choice(opts)
    episodes = []
    for r in range(rng.choice([3, 4, 4, 5])):
        eps = []
        if r > 0:
            eps = [episode() for _ in range(rng.choice([1, 1, 1, 2]))]
        how, sel = selection()
        fails = [i for i in (calc, prov) if i is not None and rng.random() < 0.04]
        flavour = rng.choice(list(flavours))
        cmds.append(('Run', rng.random() < 0.06, fails, sel, flavour, how))
        episodes.append(eps)
    return dict(idx=idx, mode='delayed', shape=shape, tasks=tasks, cmds=cmds, backend=BACKENDS[k % 3], episodes=episodes,
                consumers=consumers)


def delayed_story(sess):
    """the session of the delayed family written out (names, creators, command lines) -- for the replay file"""
    tasks = sess['tasks']
    names = ['T%d' % i if t['sub_of'] is None else 'T%d:s%d' % (t['sub_of'], i) for i, t in enumerate(tasks)]

    def tdesc(t):
        d = []
        if t['file_dep']:
            d.append('file_dep=%s' % ['f%d' % f for f in t['file_dep']])
        if t['targets']:
            d.append('targets=%s' % ['f%d' % f for f in t['targets']])
        if t['uptodate']:
            d.append('uptodate=%s' % [u[1] if u[0] == 'bool' else 'run_once' for u in t['uptodate']])
        if t['calc_dep']:
            d.append('calc_dep=%s' % [names[j] for j in t['calc_dep']])
        if t['getargs']:
            d.append('getargs=%s' % {pname(a): (names[s_], None if k is None else 'u%d' % k) for a, s_, k in t['getargs']})
        if t['setup']:
            d.append('setup=%s' % [names[j] for j in t['setup']])
        if t['kind'] == 'calc':
            v = dict(t['values'])
            r = {}
            if 2 in v:
                r['file_dep'] = ['f%d' % f for f in range(16) if v[2] >> f & 1]
            if 3 in v:
                r['task_dep'] = [names[j] for j in range(16) if v[3] >> j & 1]
            if 4 in v:
                r['uptodate'] = [bool(v[4])]
            d.append('action returns %s' % r)
        elif t['values']:
            d.append('action returns %s' % {'u%d' % k: x for k, x in t['values']})
        if t['kind'] == 'consumer':
            d.append('%s-action logs %s' % (t['action'], [pname(p) for p in t['params']]))
        return ', '.join(d)
    lines = []
    for i, t in enumerate(tasks):
        dl = t.get('delayed')
        head = names[i]
        if dl:
            deco = []
            if dl.get('executed') is not None:
                deco.append("executed='%s'" % names[dl['executed']])
            if dl.get('regex'):
                deco.append("target_regex=%r" % DELAYED_REGEX)
            head = '@create_after(%s) task_%s %s' % (', '.join(deco), names[i], 'yields its sub-tasks' if t['group'] else 'returns ONE dict (takes over the placeholder)')
        elif t['sub_of'] is not None and tasks[t['sub_of']].get('delayed'):
            head += ' (sub-task yielded by the delayed creator)'
        lines.append('%s: %s' % (head, tdesc(t)))
    lines.append('backend=%s' % sess.get('backend'))
    for c in sess['cmds']:
        c = list(c)
        if c[0] == 'Write':
            lines.append('write f%d = %r' % (c[1], CONTENT[c[2]].decode()))
        elif c[0] in ('Touch', 'Delete'):
            lines.append('%s f%d' % (c[0].lower(), c[1]))
        elif c[0] == 'SetChecker':
            lines.append('check_file_uptodate = %s' % c[1])
        elif c[0] == 'SetDef' and len(c) > 2:
            lines.append('dodo changes: %s: %s' % (names[c[1]], tdesc(c[2])))
        elif c[0] in ('Forget', 'Ignore'):
            lines.append('doit %s %s' % (c[0].lower(), names[c[1]]))
        elif c[0] == 'Run':
            sel = [] if (len(c) > 5 and c[5] == 'plain') else [names[i] if isinstance(i, int) else '<dir>/f%d' % i[1] for i in c[3]]
            lines.append('doit run %s%s' % (' '.join(FLAVOURS[c[4]] + (['-a'] if c[1] else []) + sel),
                                            ('   [actions of %s fail]' % [names[i] for i in c[2]]) if c[2] else ''))
    return lines


# ------------------------------------------------------------------ Coq rendering
def nl(xs):
    return '[' + '; '.join(str(x) for x in xs) + ']%N'


def utd_coq(u):
    return {'bool': lambda: 'UBool %s' % ('true' if u[1] else 'false'), 'run_once': lambda: 'URunOnce'}[u[0]]()


def gas_coq(gas):
    return '[' + '; '.join('{| ga_arg := %d; ga_src := %d; ga_key := %s |}' % (a, s, 'None' if k is None else 'Some %d%%N' % (2 * k + 2))
                           for a, s, k in gas) + ']%N'


def def_coq(t):
    vals = '[' + '; '.join('(%d, %s)' % (2 * k + 2, 'None' if x is None else 'Some %d' % x) for k, x in t['values']) + ']%N'
    return 'mkdef %s %s [%s] %s %s %s %s' % (nl(t['file_dep']), nl(t['targets']), '; '.join(utd_coq(u) for u in t['uptodate']),
                                            nl(t['setup']), gas_coq(t['getargs']), vals,
                                            'None' if t['result'] is None else '(Some %d%%N)' % t['result'])


def table_coq(tasks, sfx):
    arms = []
    for i, t in enumerate(tasks):
        arms.append('| %d%%N => mktask %s %s %s %s %s %s %s' % (i, gas_coq(t['getargs']), nl(t['setup']), nl(t['task_dep']),
                                                             nl(t['calc_dep']), 'true' if t['group'] else 'false',
                                                             'None' if t['sub_of'] is None else '(Some %d%%N)' % t['sub_of'], nl(t['params'])))
    return 'Definition tb%s (n : name) : itask := match n with %s | _ => no_task end.' % (sfx, ' '.join(arms))


def cmd_coq(c, tasks):
    k = c[0]
    if k == 'Write':
        return 'COp (Write %d %d)' % (c[1], c[2])
    if k in ('Touch', 'Delete'):
        return 'COp (%s %d)' % (k, c[1])
    if k == 'SetDef':
        return 'COp (SetDef %d (%s))' % (c[1], def_coq(c[2] if len(c) > 2 else tasks[c[1]]))
    if k == 'SetChecker':
        return 'COp (SetChecker %s)' % ('MD5' if c[1] == 'md5' else 'TS')
    if k == 'Forget':
        return 'COp (Remove %d)' % c[1]
    if k == 'Ignore':
        return 'COp (Ignore %d)' % c[1]
    if k == 'Run':
        return 'CRun %s %s %s' % ('true' if c[1] else 'false', nl(c[2]), nl(c[3]))
    raise ValueError(c)


def model_case(sess, sfx):
    defs = table_coq(sess['tasks'], sfx)
    expr = 'snd (exec_cmds md5o sizeo current icurrent tb%s %d FUEL ([%s]%%N))' % (
        sfx, len(sess['tasks']), '; '.join(cmd_coq(c, sess['tasks']) for c in sess['cmds']))
    return defs, expr


# ------------------------------------------------------------------ the real thing
class Rec:
    """class-level recording (the reporter class is instantiated by doit)"""
    events = []
    tasks = None
    utd_false = {}
    verdicts = []


class RecReporter:
    desc = 'recording'

    def __init__(self, outstream, options):
        pass

    def initialize(self, tasks, selected):
        Rec.tasks = {nm: dict(task_dep=list(t.task_dep), setup=list(t.setup_tasks), calc_dep=sorted(t.calc_dep),
                              group=bool(t.has_subtask), n_utd=len(t.uptodate)) for nm, t in tasks.items()}

    def get_status(self, task): pass
    def execute_task(self, task): Rec.events.append(('execute', task.name, None))
    def add_success(self, task): Rec.events.append(('success', task.name, None))
    def skip_uptodate(self, task): Rec.events.append(('uptodate', task.name, None))
    def skip_ignore(self, task): Rec.events.append(('ignore', task.name, None))

    def add_failure(self, task, fail):
        Rec.events.append(('failure', task.name, (fail.get_name(), str(fail.message))))

    def cleanup_error(self, exception): pass
    def runtime_error(self, msg): Rec.events.append(('runtime_error', None, str(msg)))
    def teardown_task(self, task): pass
    def complete_run(self): pass


def fail_code(kind, msg):
    if kind == 'TaskFailed':
        return 1
    if kind == 'UnmetDependency':
        return 40
    if kind == 'DependencyError':
        if 'getting value for argument' in msg:
            return 42 if 'has no computed value' in msg else 43 if 'Invalid arg name' in msg else 47
        if 'saving success' in msg:
            return 44
        if 'checking dependencies' in msg:
            return 41
    return 46


class World:
    def __init__(self, ctx, sess):
        self.sess = sess
        self.dir = ctx.subdir('w%d' % sess['idx'])
        self.log = os.path.join(self.dir, 'actions.log')
        self.dbpath = os.path.join(self.dir, 'deps.' + sess['backend'])
        self.clock = 1
        self.ck = 'md5'
        self.fsview = {}
        self.tasks = sess['tasks']
        self.live = {}
        self.objs = {}        # family 'shared': declared dict objects that live as long as the process (c10_kwargs.decl_action)
        self.load_objs = {}   #                  ... and those created anew every time the dodo file is loaded
        self.names = []
        for i, t in enumerate(self.tasks):
            self.names.append('T%d' % i if t['sub_of'] is None else 'T%d:s%d' % (t['sub_of'], i))
        self.ids = {nm: i for i, nm in enumerate(self.names)}

    def path(self, f):
        return os.path.join(self.dir, 'f%d' % f)

    def fileno(self, p):
        return int(os.path.basename(p)[1:])

    def write(self, f, c, m):
        p = self.path(f)
        with open(p, 'wb') as fh:
            fh.write(CONTENT[c])
        ns = (BASE + m) * 10 ** 9
        os.utime(p, ns=(ns, ns))
        self.fsview[f] = (m, len(CONTENT[c]), c)

    # ---- task dictionaries as a dodo file would give them
    def values_dict(self, t):
        out = {}
        for k, x in t['values']:
            if k == 2:
                out['file_dep'] = [self.path(f) for f in range(16) if x >> f & 1]
            elif k == 3:
                out['task_dep'] = [self.names[j] for j in range(16) if x >> j & 1]
            elif k == 4:
                out['uptodate'] = [bool(x)]       # delayed family only: a calc task returning an uptodate item
            else:
                out['u%d' % k] = x
        return out

    def task_dict(self, i, fails):
        from doit import tools
        t = self.live[i]
        log, name = self.log, self.names[i]
        ret = self.values_dict(t)

        def append(line):
            with open(log, 'a') as fh:
                fh.write(json.dumps(line) + '\n')
        params = [pname(p) for p in t['params']]
        acts = []
        failing = i in fails
        # a failing task fails in its FIRST value-producing action: task.values stays {} (a later failing
        # action would leave the values of the earlier ones on the Task object, see the report)
        if t['action'] == 'py' and t.get('decl'):
            # family 'shared': the action is declared as (callable, args, kwargs) over a dict object of the dodo file
            acts.append(c10_kwargs.decl_action(self, t, name, ret, failing, {'none': None, 'dict': {}, 'true': True}[t.get('noval', 'none')], append))
        elif t['action'] == 'py' and self.sess.get('pickle'):
            # family 'delayed-proc': picklable callable (a run-time created task is pickled whole for a worker process)
            acts.append(c10_pick.PyRec(log, name, params, [pname(a) for a, _, _ in t['getargs']], ret, failing,
                                       {'none': None, 'dict': {}, 'true': True}[t.get('noval', 'none')]))
        elif t['action'] == 'py':
            src = ('def rec(%s):\n    _r = False if _failing else (dict(_ret) if _ret else _noval)\n'
                   '    _log(dict(task=_name, kw=dict(%s), ret=_r))\n    return _r\n') % (
                ', '.join(params), ', '.join('%s=%s' % (p, p) for p in params))
            ns = {'_log': append, '_name': name, '_ret': ret, '_failing': failing,
                  '_noval': {'none': None, 'dict': {}, 'true': True}[t.get('noval', 'none')]}
            exec(src, ns)
            acts.append(ns['rec'])
        else:
            acts.append('echo "CMD|%s|%s" >> %s' % (name, '|'.join('%d=%%(%s)s' % (p, pname(p)) for p in t['params']), log))
            if ret or failing:
                acts.append(c10_pick.Ret(ret, failing) if self.sess.get('pickle') else (lambda ret=ret: False if failing else dict(ret)))
        res = t['result']
        acts.append(c10_pick.Res(res) if self.sess.get('pickle') else (lambda: True if res is None else 'res%d' % res))
        d = {'actions': acts, 'file_dep': [self.path(f) for f in t['file_dep']], 'targets': [self.path(f) for f in t['targets']],
             'uptodate': [(u[1] if u[0] == 'bool' else tools.run_once) for u in t['uptodate']]}
        if t['getargs']:
            d['getargs'] = {pname(a): (self.names[s], None if k is None else 'u%d' % k) for a, s, k in t['getargs']}
        if t['setup']:
            d['setup'] = [self.names[s] for s in t['setup']]
        if t['task_dep']:
            d['task_dep'] = [self.names[s] for s in t['task_dep']]
        if t['calc_dep']:
            d['calc_dep'] = [self.names[s] for s in t['calc_dep']]
        return d

    def namespace(self, fails):
        ns = {'DOIT_CONFIG': {'dep_file': self.dbpath, 'backend': {'json': 'json', 'dbm': 'dbm', 'sqlite': 'sqlite3'}[self.sess['backend']],
                              'check_file_uptodate': 'md5' if self.ck == 'md5' else 'timestamp',
                              'reporter': RecReporter, 'verbosity': 0, 'continue': True}}
        for i, t in enumerate(self.tasks):
            if t['sub_of'] is not None:
                continue
            if t['group']:
                def creator(i=i, t=t):
                    if t['extra_dep']:
                        yield {'name': None, 'task_dep': [self.names[j] for j in t['extra_dep']]}
                    for j in t['task_dep']:
                        if self.tasks[j]['sub_of'] == i:
                            d = self.task_dict(j, fails)
                            d['name'] = 's%d' % j
                            yield d
            else:
                def creator(i=i):
                    return self.task_dict(i, fails)
            creator.__name__ = 'task_T%d' % i
            dl = t.get('delayed')
            if dl:
                # delayed family: the task(s) of this creator exist only at run time (doit.create_after); a creator
                # returning ONE dict gives the task that takes over the node of the placeholder of the same name
                from doit.loader import create_after
                kw = {}
                if dl.get('executed') is not None:
                    kw['executed'] = self.names[dl['executed']]
                if dl.get('regex'):
                    kw['target_regex'] = DELAYED_REGEX
                creator = create_after(**kw)(creator)
            ns['task_T%d' % i] = creator
        return ns

    def doit(self, args, fails=()):
        from doit.doit_cmd import DoitMain
        from doit.cmd_base import ModuleTaskLoader
        import doit.dependency as D
        Rec.events, Rec.tasks, Rec.verdicts, Rec.utd_false = [], None, [], {}
        self.load_objs = {}
        orig = D.Dependency.get_status

        def wrapped(dep, task, tasks_dict, get_log=False):
            res = orig(dep, task, tasks_dict, get_log)
            Rec.verdicts.append((task.name, res.status, list(task.dep_changed or [])))
            # for the oracle only (which known finding explains an empty `changed`): did get_status leave at its
            # uptodate-false exit?  The implementation's own answer: the reasons of a second call with get_log=True
            # (the items of this harness -- booleans, run_once, result_dep -- are pure; dep_changed is put back)
            if not get_log:
                keep = task.dep_changed
                try:
                    Rec.utd_false[task.name] = bool(orig(dep, task, tasks_dict, True).reasons.get('uptodate_false'))
                except Exception:  # noqa
                    Rec.utd_false[task.name] = None
                task.dep_changed = keep
            return res
        D.Dependency.get_status = wrapped
        buf = io.StringIO()
        saved = (sys.stdout, sys.stderr)
        try:
            with contextlib.redirect_stdout(buf), contextlib.redirect_stderr(buf):
                try:
                    rc = DoitMain(ModuleTaskLoader(self.namespace(set(fails)))).run(args)
                except SystemExit:
                    rc = 90
        finally:
            D.Dependency.get_status = orig
            sys.stdout, sys.stderr = saved
        return rc, buf.getvalue()

    # ---- decoding of what the actions logged
    def enc_value(self, key, x):
        if x is None:
            return -1
        if key == 'file_dep':
            return mask(self.fileno(p) for p in x)
        if key == 'task_dep':
            return mask(self.ids[n] for n in x)
        if key.startswith('_result:'):
            return RESULT_MD5.get(x, 77) if isinstance(x, str) else 78
        if key == 'run-once':
            return 1 if x is True else 76
        return x if isinstance(x, int) and not isinstance(x, bool) else 79

    def key_code(self, key):
        if key == 'run-once':
            return 0
        if key == '_config_changed':
            return 1
        if key == 'file_dep':
            return 6
        if key == 'task_dep':
            return 8
        if key.startswith('_result:'):
            return 2 * self.ids[key[8:]] + 3
        if key.startswith('u'):
            return 2 * int(key[1:]) + 2
        return 15

    def enc_dict(self, dct):
        row = [-2] * 16
        for k, x in dct.items():
            row[self.key_code(k)] = self.enc_value(k, x)
        return [3] + row

    def enc_sval(self, key, x):
        if x == c10_pick.NOT_DELIVERED:
            return [5]
        return self.enc_dict(x) if key is None else [2, self.enc_value('u%d' % key, x)]

    def enc_kw(self, i, kw):
        """kw: {param name: value} as received by a python-action of task i"""
        t = self.live[i]
        ga = {a: (s, k) for a, s, k in t['getargs']}
        out, n = [], 0
        for p in t['params']:
            nm = pname(p)
            if nm not in kw:
                continue
            n += 1
            x = kw[nm]
            if p in ga:
                s, k = ga[p]
                if self.tasks[s]['group']:
                    # the entries the code is expected to read: the group's task_dep named `<group>:...`, in order
                    # (dict insertion order); an entry beyond them is paired with 99 below
                    deps = [j for j in self.tasks[s]['task_dep'] if self.names[j].startswith(self.names[s] + ':')]
                    deps = deps + [99] * (len(x) - len(deps))
                    out += [p, 4, len(x)]
                    for (kk, xx), j in zip(x.items(), deps):
                        if j == 99:
                            out += [99] + self.enc_sval(k, xx)
                            continue
                        out += [j if kk == self.names[j][len(self.names[s]) + 1:] else 99] + self.enc_sval(k, xx)
                else:
                    out += [p] + self.enc_sval(k, x)
            else:
                out += [p, 1, mask(self.fileno(q) for q in x)]
        return [n] + out

    def cmd_kw(self, i, fields):
        """the substituted values of a cmd-action, as the kwargs of a python-action would look"""
        t = self.live[i]
        ga = {a for a, _, _ in t['getargs']}
        kw = {}
        for fld in fields:
            code, _, txt = fld.partition('=')
            p = int(code)
            kw[pname(p)] = (None if txt == 'None' else int(txt)) if p in ga else txt.split()
        return kw

    def enc_cmd(self, i, fields):
        t = self.live[i]
        ga = {a: (s, k) for a, s, k in t['getargs']}
        out = []
        for fld in fields:
            code, _, txt = fld.partition('=')
            p = int(code)
            if p in ga:
                out += [p, 2, -1 if txt == 'None' else int(txt)]
            else:
                out += [p, 1, mask(self.fileno(q) for q in txt.split())]
        return [len(fields)] + out


def run_session(ctx, sess, out):
    """returns (expected ints, list of per-run observations for the oracle)"""
    w = World(ctx, sess)
    w.live = {i: dict(t) for i, t in enumerate(sess['tasks'])}
    n = len(sess['tasks'])
    ints, runs = [], []
    for c in sess['cmds']:
        k = c[0]
        if k == 'Write':
            w.write(c[1], c[2], w.clock); w.clock += 1
        elif k == 'Touch':
            if c[1] in w.fsview:
                w.write(c[1], w.fsview[c[1]][2], w.clock)
            w.clock += 1
        elif k == 'Delete':
            if c[1] in w.fsview:
                os.remove(w.path(c[1])); del w.fsview[c[1]]
        elif k == 'SetDef':
            if len(c) > 2:
                w.live[c[1]] = dict(c[2])
        elif k == 'SetChecker':
            w.ck = c[1]
        elif k == 'Forget':
            w.doit(['forget', w.names[c[1]]])
        elif k == 'Ignore':
            w.doit(['ignore', w.names[c[1]]])
        elif k == 'Run':
            if os.path.exists(w.log):
                os.remove(w.log)
            _, always, fails, sel, flavour = c[:5]
            # delayed family: c[5] == 'plain' is `doit run` without task names; a selection item ['f', k] is the path of
            # file k (a target matched by the creator's target_regex)
            sel_args = [] if (len(c) > 5 and c[5] == 'plain') else [w.names[i] if isinstance(i, int) else w.path(i[1]) for i in sel]
            rc, txt = w.doit(['run'] + FLAVOURS[flavour] + (['-a'] if always else []) + sel_args, fails)
            # placeholders `_regex_target_<file>:<creator>` made for a target selected on the command line are not tasks
            # of the session
            Rec.events = [ev for ev in Rec.events if ev[1] is None or ev[1] in w.ids]
            Rec.verdicts = [vd for vd in Rec.verdicts if vd[0] in w.ids]
            logged = []
            if os.path.exists(w.log):
                for line in open(w.log):
                    line = line.strip()
                    if line.startswith('CMD|'):
                        parts = line.split('|')
                        logged.append(dict(task=parts[1], cmd=parts[2:], kw=w.cmd_kw(w.ids[parts[1]], parts[2:])))
                    elif line:
                        logged.append(json.loads(line))
            obs = dict(run_no=len(runs), rc=rc, events=list(Rec.events), verdicts=list(Rec.verdicts), utd_false=dict(Rec.utd_false), logged=logged, tasks=Rec.tasks,
                       fsview=dict(w.fsview), live={i: dict(t) for i, t in w.live.items()}, ck=w.ck, cmd=c, txt=txt[-400:])
            runs.append(obs)
            for i in range(n):
                nm = w.names[i]
                ev = [(e, x) for e, tn, x in Rec.events if tn == nm]
                kinds = [e for e, _ in ev]
                if 'ignore' in kinds:
                    st = 3
                elif 'uptodate' in kinds:
                    st = 2
                elif 'failure' in kinds:
                    st = fail_code(*[x for e, x in ev if e == 'failure'][0])
                elif 'success' in kinds:
                    st = 0
                elif 'execute' in kinds:
                    st = 96
                else:
                    st = -1
                vd = [(s, ch) for tn, s, ch in Rec.verdicts if tn == nm]
                row = [st] + ([STATUS_Z.get(vd[0][0], 95), mask(w.fileno(p) for p in vd[0][1])] if vd else [-1, -1])
                if len(vd) > 1:
                    row[1] = 94          # get_status called twice on one task in one run
                lg = [l for l in logged if l['task'] == nm]
                if not lg:
                    # a task without actions (a group) that was executed: no action to record anything
                    row += [0] if (sess['tasks'][i]['group'] and 'execute' in kinds) else [-1]
                elif len(lg) > 1:
                    row += [93]
                elif 'cmd' in lg[0]:
                    row += w.enc_cmd(i, lg[0]['cmd'])
                else:
                    row += w.enc_kw(i, lg[0]['kw'])
                ints += row + [-9]
            ints += [-8]
            if rc not in (0, 1, 2):
                ints += [900 + rc]
    return ints, runs, w


# ------------------------------------------------------------------ independent oracle
class Shadow:
    """per task: what its last successful execution saved (user values) and saw (file deps)"""
    def __init__(self):
        self.last = {}
        self.hist = {}      # per task: the user values of each of its successful executions, oldest first
        self.story = None   # delayed family: the session written out, for the replay file
        self.stale = {}     # per task: file -> its state at the most recent successful execution that had it as a dependency,
        self.stale_ck = {}  #           since the task's record was last removed (failure / forget / other checker)

    def judge(self, sess, w, runs, out):
        tasks = sess['tasks']
        names = w.names
        for ri, obs in enumerate(runs):
            live = obs['live']
            succeeded = {tn for e, tn, _ in obs['events'] if e == 'success'}
            failed = {tn for e, tn, _ in obs['events'] if e == 'failure'}
            returned = {l['task']: l.get('ret') for l in obs['logged'] if 'ret' in l}

            def saved_now(j):
                """user values of task j's successful execution in this run: what its instrumented action was SEEN to
                return (a dict; None / True / {} = no values), else -- cmd-action + value lambda -- what the spec says"""
                if names[j] in returned:
                    r = returned[names[j]]
                    return {kk: x for kk, x in r.items() if kk in ('u0', 'u1')} if isinstance(r, dict) else {}
                return {('u%d' % k): x for k, x in live[j]['values'] if k < 2}

            # values visible to a consumer in this run: the source's new values if it succeeded in this run, else the DB's
            def latest(j):
                if names[j] in succeeded:
                    return saved_now(j), True
                if j in self.last:
                    return self.last[j]['values'], True
                return None, False

            def history_kind(j):
                """how the values a consumer must see from j relate to what j saved in its earlier successful executions
                since its record was last removed (forget / failure) -- input distribution only"""
                vals, has = latest(j)
                if not has:
                    return 'no-record'
                h = self.hist.get(j, [])
                now = names[j] in succeeded
                older = h if now else h[:-1]
                when = 'executed-this-run' if now else 'from-db'
                if not older:
                    return when + ':first-values'
                if vals == older[-1]:
                    return when + ':same-as-previous-execution'
                if not vals:
                    return when + ':NO-VALUES-after-values'
                return when + ':other-values-than-previous-execution'
            delayed = sess.get('mode') == 'delayed'
            evs = obs['events']

            def mkcase(i, t):
                case = dict(session=sess['idx'], task=i, spec={k: v for k, v in t.items()}, tasks=sess['tasks'], cmds=sess['cmds'], backend=sess['backend'])
                if sess.get('objs') is not None:
                    case.update(mode='shared', objs=sess['objs'], run=obs['run_no'], task_name=names[i])
                if delayed:
                    if self.story is None:
                        self.story = delayed_story(sess)
                    case.update(mode='delayed', task_name=names[i], run=obs['run_no'], story=self.story)
                    if sess.get('pickle'):
                        case.update(pickle=True, runner=obs['cmd'][4])
                return case

            def calc_latest(cdep, key):
                """what the calc task returned for key 2 (file_dep) / 3 (task_dep) / 4 (uptodate) in its most recent successful
                execution: this run's if it succeeded in this run, else the saved one"""
                if names[cdep] in succeeded:
                    return dict(live[cdep]['values']).get(key)
                if cdep in self.last:
                    return self.last[cdep].get({2: 'calc_file', 3: 'calc_task', 4: 'calc_utd'}[key])
                return None

            def expected_fd(t):
                fd = set(t['file_dep'])
                for cdep in t['calc_dep']:
                    src = calc_latest(cdep, 2)
                    if src:
                        fd |= {f for f in range(16) if src >> f & 1}
                return fd

            def modified_since(fd, prev):
                """the files of fd that are new for the task or differ from what its last successful execution saw"""
                must = set()
                for f in fd:
                    if f not in obs['fsview']:
                        continue
                    if prev is None or f not in prev['view'] or prev['ck'] != obs['ck']:
                        must.add(f)
                    else:
                        m0, s0, c0 = prev['view'][f]
                        m1, s1, c1 = obs['fsview'][f]
                        if c0 != c1 or (obs['ck'] == 'ts' and m0 != m1):
                            must.add(f)
                return must

            def calc_utd_false(t):
                return any(calc_latest(cd, 4) == 0 for cd in t['calc_dep'])
            # ---- a task with calc_dep is checked / executed only after each of its calc_dep tasks has its final report
            #      (executed or up-to-date) in this run: otherwise what the calc task returns cannot reach it
            for n_, (e, tn, _) in enumerate(evs):
                if e not in ('execute', 'uptodate') or tn is None:
                    continue
                i = w.ids[tn]
                for cdep in live[i]['calc_dep']:
                    fin = [m for m, (e2, tn2, _) in enumerate(evs[:n_]) if tn2 == names[cdep] and e2 in ('success', 'uptodate')]
                    if not fin:
                        out.violations.append(dict(what='task %s%s was %s although its calc_dep task %s had not been executed (nor found up-to-date) before in this run: the file_dep / task_dep / uptodate it returns cannot reach %s'
                                                        % (tn, ' (created at run time by a create_after creator)' if delayed else '',
                                                           'executed' if e == 'execute' else 'found up-to-date', names[cdep], tn),
                                                   shape='calc-dep-not-run-before', case=mkcase(i, live[i])))
                    elif delayed:
                        out.count('delayed:calc-provider-before-consumer:' + ('executed-this-run' if names[cdep] in succeeded else 'up-to-date(saved values)'))
            # ---- delayed family: a consumer found up-to-date has no reason to run that this oracle can see
            if delayed:
                for e, tn, _ in evs:
                    if e != 'uptodate' or tn is None or live[w.ids[tn]]['kind'] != 'consumer':
                        continue
                    i = w.ids[tn]
                    t = live[i]
                    prev = self.last.get(i)
                    fd = expected_fd(t)
                    why = []
                    # (no record at all is not a reason by itself: a task without file dependencies whose uptodate items are all
                    #  true is up-to-date even if it never ran; with file dependencies they are all new = `must` below)
                    if obs['cmd'][1]:
                        why.append('--always-execute was given')
                    if any(u == ('bool', False) for u in t['uptodate']) or calc_utd_false(t):
                        why.append('an uptodate item (declared or returned by the calc_dep task) is False')
                    if [f for f in t['targets'] if f not in obs['fsview']]:
                        why.append('a target does not exist')
                    n_utd = (len(t['uptodate']) + len([cd for cd in t['calc_dep'] if calc_latest(cd, 4) is not None])
                             + len([s_ for _, s_, _ in t['getargs'] if s_ not in t['setup']]))      # the last: result_dep items
                    if not fd and not n_utd:
                        why.append('it has neither a file dependency nor an uptodate item')
                    must = modified_since(fd, prev)
                    if must:
                        why.append('file dependencies %s (declared + calculated: %s) are new or modified since its last successful execution' % (sorted(must), sorted(fd)))
                    if prev is not None and set(prev['view']) != fd:
                        why.append('its file dependencies were %s at its last successful execution and are %s now' % (sorted(prev['view']), sorted(fd)))
                    if why:
                        out.violations.append(dict(what='task %s (created at run time by a create_after creator) was found up-to-date although %s' % (tn, '; '.join(why)),
                                                   shape='uptodate-despite-modified-dep' if must else 'uptodate-despite-reason-to-run', case=mkcase(i, t)))
                    else:
                        out.count('delayed:consumer-up-to-date:nothing-changed')
            for l in obs['logged']:
                i = w.ids[l['task']]
                t = live[i]
                case = mkcase(i, t)
                if 'kw' not in l:
                    continue
                kw = l['kw']
                ga = {pname(a): (s, k) for a, s, k in t['getargs']}
                # ---- getargs
                for nm, (s, k) in ga.items():
                    if nm not in kw:
                        continue
                    got = kw[nm]
                    if got == c10_pick.NOT_DELIVERED:
                        # (family delayed-proc: the getargs parameters of the picklable action have this default)
                        vals, has = latest(s) if not tasks[s]['group'] else (None, True)
                        out.violations.append(dict(what='the action of %s was called WITHOUT its getargs parameter %s (the parameter default was used) although getargs declares %s <- (%s, %s) and the task was executed%s; runner: %s%s'
                                                        % (l['task'], nm, nm, names[s], None if k is None else 'u%d' % k,
                                                           (': the most recent successful execution of %s saved %r' % (names[s], vals)) if has and vals is not None else '',
                                                           ' '.join(FLAVOURS[obs['cmd'][4]]) or 'serial',
                                                           ' (task created at run time by a create_after creator: sent to the worker process as a pickled Task)' if delayed and obs['cmd'][4] == 'proc' else ''),
                                                   shape='c10:getargs-not-delivered', case=case))
                        continue
                    if tasks[s]['group']:
                        subs = [j for j in tasks[s]['task_dep'] if tasks[j]['sub_of'] == s]
                        want_keys = sorted('s%d' % j for j in subs)
                        if sorted(got.keys()) != want_keys:
                            out.violations.append(dict(what='getargs on a group: the dict has keys %s, the sub-tasks are %s (a task_dep of the group that is not a sub-task is treated as one)' % (sorted(got.keys()), want_keys),
                                                       shape='getargs-group-extra-task-dep', case=case))
                        pairs = [(j, got.get('s%d' % j)) for j in subs if ('s%d' % j) in got]
                    else:
                        pairs = [(s, got)]
                    for j, g in pairs:
                        vals, has = latest(j)
                        out.count('source-history:%s:%s' % ('dict' if k is None else 'key', history_kind(j)))
                        if not has:
                            out.violations.append(dict(what='task executed with getargs value %r from %s, which has no saved values (never executed successfully / forgotten): '
                                                            'get_values() answers {} for the whole dict where get_value() raises for a key' % (g, names[j]),
                                                       shape='getargs-dict-from-unsaved-source' if k is None else 'getargs-no-source', case=case))
                            continue
                        if k is None:
                            g_user = {kk: x for kk, x in g.items() if kk in ('u0', 'u1')}
                            ok = g_user == vals
                        else:
                            ok = ('u%d' % k) in vals and vals['u%d' % k] == g
                        if not ok:
                            out.violations.append(dict(what='getargs value %r is not the value saved by the most recent successful execution of %s (%r)' % (g, names[j], vals),
                                                       shape='getargs-stale', case=case,
                                                       detail=dict(run=obs['run_no'], consumer=l['task'], source=names[j], key=None if k is None else 'u%d' % k,
                                                                   group_source=bool(tasks[s]['group']), source_history=history_kind(j),
                                                                   runner=obs['cmd'][4], backend=sess['backend'])))
                # ---- dependencies / targets
                # declared + the calc task's file_dep as last saved / produced in this run
                fd = expected_fd(t)
                # ---- task_dep returned by a calc task: finished before this task's actions started
                my_exec = [n for n, (e, tn, _) in enumerate(evs) if e == 'execute' and tn == l['task']]
                for cdep in t['calc_dep']:
                    cmask = None
                    if names[cdep] in succeeded:
                        cmask = dict(live[cdep]['values']).get(3)
                    elif cdep in self.last and any(e == 'uptodate' and tn == names[cdep] for e, tn, _ in evs):
                        cmask = self.last[cdep].get('calc_task')
                    for j in ([j for j in range(16) if cmask >> j & 1] if cmask else []):
                        fin = [n for n, (e, tn, _) in enumerate(evs) if tn == names[j] and e in ('success', 'uptodate', 'failure', 'ignore')]
                        if my_exec and not (fin and fin[0] < my_exec[0]):
                            out.violations.append(dict(what='task %s returned by the calc_dep %s as task_dep had not finished when %s was executed' % (names[j], names[cdep], l['task']),
                                                       shape='calc-task-dep-not-before', case=case))
                        else:
                            out.count('calc_dep:returned-task-dep-finished-first')
                if 'dependencies' in kw and 'dependencies' not in ga:
                    if {w.fileno(p) for p in kw['dependencies']} != fd or len(kw['dependencies']) != len(fd):
                        out.violations.append(dict(what='`dependencies` %s received by %s differ from its current file_dep (declared + returned by its calc_dep task) %s' % (sorted(os.path.basename(p) for p in kw['dependencies']), l['task'], ['f%d' % f for f in sorted(fd)]), shape='dependencies-differ', case=case))
                if 'targets' in kw and 'targets' not in ga:
                    if [w.fileno(p) for p in kw['targets']] != list(t['targets']):
                        out.violations.append(dict(what='`targets` %s differ from the current targets %s' % (kw['targets'], t['targets']), shape='targets-differ', case=case))
                # ---- changed
                if 'changed' in kw and 'changed' not in ga:
                    ch = {w.fileno(p) for p in kw['changed']}
                    prev = self.last.get(i)
                    must = modified_since(fd, prev)
                    if delayed:
                        # the other direction: on the path of get_status that compares the files, `changed` holds nothing else
                        # (a missing target makes it ALL file dependencies)
                        if not (ch <= must) and not [f for f in t['targets'] if f not in obs['fsview']]:
                            out.violations.append(dict(what='`changed` %s contains file dependencies %s that are neither new nor modified since the last successful execution of %s'
                                                            % (sorted(ch), sorted(ch - must), l['task']), shape='changed-includes-unmodified', case=case))
                        elif ch == must:
                            out.count('delayed:changed==exactly-the-new-or-modified-files' + (':nonempty' if ch else ':empty'))
                    if not must <= ch:
                        # a file that is a dependency again after successful execution(s) without it, and has not changed since
                        # the task last had it: the per-file state saved THEN is still in the DB (save_success never drops the
                        # entries of files that left file_dep), so get_status does not list it
                        stale = self.stale.get(i, {})
                        readded = {f for f in must - ch if prev is not None and prev['ck'] == obs['ck'] and f not in prev['view'] and f in stale
                                   and stale[f][2] == obs['fsview'][f][2] and (obs['ck'] != 'ts' or stale[f][0] == obs['fsview'][f][0])}
                        utd_can_be_false = (any(u == ('bool', False) or u[0] == 'run_once' for u in t['uptodate']) or any(s not in t['setup'] for _, s, _ in t['getargs'])
                                            or calc_utd_false(t))
                        # True / False: get_status did / did not leave at its uptodate-false exit (the reasons it gives with
                        # get_log=True); None: unknown
                        early = obs.get('utd_false', {}).get(l['task'])
                        if not ch and early:
                            out.violations.append(dict(what='`changed` is empty although file dependencies %s are new/modified since the last successful execution: get_status returned at its uptodate-false exit before computing dep_changed' % sorted(must),
                                                       shape='changed-empty-when-uptodate-false', case=case))
                        elif readded and readded == must - ch:
                            out.violations.append(dict(what='`changed` %s misses %s: file dependencies that the last successful execution of %s did NOT have (they were dropped from its file_dep, and are '
                                                            'back now); their state saved by an EARLIER execution is still in the DB, so they count as unmodified' % (sorted(ch), sorted(readded), l['task']),
                                                       shape='changed-misses-readded-dep', case=case))
                        elif not ch and utd_can_be_false and early is None:
                            out.violations.append(dict(what='`changed` is empty although file dependencies %s are new/modified since the last successful execution: get_status returned at its uptodate-false exit before computing dep_changed' % sorted(must),
                                                       shape='changed-empty-when-uptodate-false', case=case))
                        else:
                            out.violations.append(dict(what='`changed` %s misses modified file dependencies %s' % (sorted(ch), sorted(must - ch)), shape='changed-misses-modified', case=case))
            # ---- delayed family: the action of a consumer is never scripted to fail (only providers are): a consumer whose
            #      action fails / raises did not receive what its declared action needs (e.g. a cmd-action whose %(a3)s
            #      has no value, a python-action without a required argument)
            if delayed:
                for e, tn, x in obs['events']:
                    if e == 'failure' and tn in w.ids and live[w.ids[tn]]['kind'] == 'consumer' and fail_code(*x) in (1, 46, 47) and w.ids[tn] not in obs['cmd'][2]:
                        out.violations.append(dict(what='the %s-action of consumer %s (parameters %s) could not be executed with the inputs it was given: %s: %s; runner: %s'
                                                        % (live[w.ids[tn]]['action'], tn, [pname(p) for p in live[w.ids[tn]]['params']], x[0], x[1][-300:], ' '.join(FLAVOURS[obs['cmd'][4]]) or 'serial'),
                                                   shape='c10:consumer-action-failed', case=mkcase(w.ids[tn], live[w.ids[tn]])))
            # ---- a getargs error must have a cause: some source without record (42) / without the key (43) in the
            #      values of its most recent successful execution
            for e, tn, x in obs['events']:
                if e != 'failure' or fail_code(*x) not in (42, 43):
                    continue
                i = w.ids[tn]
                t = live[i]
                code = fail_code(*x)
                causes = []
                for a, s, k in t['getargs']:
                    js = [j for j in tasks[s]['task_dep'] if tasks[j]['sub_of'] == s] if tasks[s]['group'] else [s]
                    for j in js:
                        vals, has = latest(j)
                        if (code == 42 and not has) or (code == 43 and has and k is not None and ('u%d' % k) not in vals):
                            causes.append(j)
                            out.count('getargs-error:%d:%s' % (code, history_kind(j)))
                if not causes:
                    out.violations.append(dict(what='task %s was not executed (%s) although the most recent successful execution of every getargs source saved what it asks for' % (tn, x[1][-120:]),
                                               shape='getargs-error-without-cause',
                                               case=mkcase(i, t)))
            # ---- shadow update, in event order
            for e, tn, _ in obs['events']:
                if tn is None:
                    continue
                i = w.ids[tn]
                t = live[i]
                if e == 'success':
                    fd = set(t['file_dep'])
                    lg = [l for l in obs['logged'] if l['task'] == tn and 'kw' in l and 'dependencies' in l['kw'] and 'dependencies' not in {pname(a) for a, _, _ in t['getargs']}]
                    if lg:
                        fd = {w.fileno(p) for p in lg[0]['kw']['dependencies']}
                    elif t['calc_dep']:
                        fd = None
                    self.hist.setdefault(i, []).append(saved_now(i))
                    self.last[i] = dict(values=saved_now(i),
                                        calc_file=dict(t['values']).get(2) if t['kind'] == 'calc' else None,
                                        calc_task=dict(t['values']).get(3) if t['kind'] == 'calc' else None,
                                        calc_utd=dict(t['values']).get(4) if t['kind'] == 'calc' else None,
                                        view={f: obs['fsview'][f] for f in (fd if fd is not None else t['file_dep']) if f in obs['fsview']},
                                        ck=obs['ck'])
                    if fd is None:
                        self.last[i]['view'] = {f: obs['fsview'][f] for f in obs['fsview']}   # unknown set: do not demand
                    if self.stale_ck.get(i) != obs['ck']:
                        self.stale[i] = {}                 # state saved by another checker is removed
                    self.stale_ck[i] = obs['ck']
                    self.stale.setdefault(i, {}).update(self.last[i]['view'])
                elif e == 'failure':
                    self.last.pop(i, None)
                    self.hist.pop(i, None)
                    self.stale.pop(i, None)

    def forget(self, i):
        self.last.pop(i, None)
        self.hist.pop(i, None)
        self.stale.pop(i, None)


def judge_session(sess, w, runs, out):
    sh = Shadow()
    ri = 0
    for c in sess['cmds']:
        if c[0] == 'Forget':
            sh.forget(c[1])
        elif c[0] == 'Run':
            sh.judge(sess, w, [runs[ri]], out)
            ri += 1


# ------------------------------------------------------------------ entry points
def static_cases(sess, w, runs):
    """Task.__init__ on getargs: setup_tasks and the number of uptodate items, from the real Task objects"""
    cases = []
    for obs in runs[:1]:
        if not obs['tasks']:
            continue
        for i, t in enumerate(sess['tasks']):
            real = obs['tasks'].get(w.names[i])
            if real is None or t['group']:
                continue
            lt = obs['live'][i]
            cases.append(dict(
                model='[bitmask (init_setup %s %s); znat (length (init_setup %s %s)); znat (length (init_uptodate [%s] %s %s))]' % (
                    nl(lt['setup']), gas_coq(lt['getargs']), nl(lt['setup']), gas_coq(lt['getargs']),
                    '; '.join(utd_coq(u) for u in lt['uptodate']), nl(lt['setup']), gas_coq(lt['getargs'])),
                expected=[mask(w.ids[x] for x in real['setup']), len(real['setup']), real['n_utd']],
                desc=dict(session=sess['idx'], task=i, kind='init_getargs')))
            # the table the model is given (task_dep / calc_dep / has_subtask) is what TaskControl built
        for i, t in enumerate(sess['tasks']):
            real = obs['tasks'].get(w.names[i])
            if real is None:
                continue
            got = ([w.ids[x] for x in real['task_dep']], [w.ids[x] for x in real['calc_dep']], real['group'])
            want = (list(t['task_dep']), list(t['calc_dep']), bool(t['group']))
            if got != want:
                cases.append(dict(model='[0]', expected=[1], desc=dict(session=sess['idx'], task=i, kind='table', got=repr(got), want=repr(want))))
    return cases


def run(ctx):
    out = Outcome()
    out.rule = ('a run of a session counts once per (session, run) when some task with getargs was executed with values, '
                'or some executed task received a non-empty `changed`, or a calc_dep result extended `dependencies`; '
                'input_distribution source-history:* / getargs-error:* say how the values a consumer had to see relate to '
                'the earlier successful executions of the source (NO-VALUES-after-values = re-executed with no values)')
    out.rule += ('; family delayed (consumers created at run time by create_after creators; implementation-side oracle only): '
                 'a (session, run) counts when a delayed-created consumer was executed and received getargs values, a non-empty '
                 '`changed`, or `dependencies` extended by its calc_dep task; its `dependencies` must be declared + calculated file_dep, '
                 '`changed` exactly the new/modified ones (all of them when a target is missing; [] on the uptodate-false exit = the '
                 'known finding), `targets` its targets, getargs values the most recent successfully saved ones of the provider; the calc '
                 'provider has its final report before the consumer is checked; a consumer found up-to-date has no new/modified '
                 'declared or calculated file dependency (with none on record all are new), no False uptodate item, no missing target')
    out.rule += ('; family readded (scripted, every seed): a (session, run) counts when the task executed in the run in which a file '
                 'dependency is back after successful execution(s) without it, untouched, and received `changed` == exactly that file')
    out.rule += ('; family shared (python-actions declared as (callable, args, kwargs) over dict objects shared between tasks and living '
                 'across the runs of the process; named / **kwargs / mixed signatures; model side and all oracles above, plus c10:kwargs-*): a '
                 '(session, run) counts when a task with such an action was executed with getargs values through **kwargs or a shared dict; '
                 'family kwargs (class level, harness/c10_kwargs.py; Model/Kwargs.v): an execution counts when it received the current value of '
                 'an option although an earlier execution over the same dict object held another value under that name')
    out.rule += ('; family delayed-proc (the delayed family with PICKLABLE instrumented actions, harness/c10_pick.py, mostly under `-n 2` worker '
                 'processes: a task created at run time is sent to the worker as a whole pickled Task, so getargs values / changed / calculated '
                 'dependencies put on the Task object by the main process must survive Task.__getstate__; same oracles as family delayed plus '
                 'c10:getargs-not-delivered, c10:consumer-action-failed): a (session, run) counts as for family delayed; input_distribution '
                 'delayed-proc:in-worker-process:* counts what the consumers executed in a worker process received')
    nsess, nrev, ndel, nread, nshared, nproc = ctx.n(120, 600), ctx.n(110, 500), ctx.n(144, 720), ctx.n(12, 36), ctx.n(70, 500), ctx.n(48, 480)
    cases, metas = [], []
    import time
    fam_s = {}
    for idx in range(nsess + nrev + ndel + nread + nshared + nproc):
        t_fam = time.time()
        is_proc = idx >= nsess + nrev + ndel + nread + nshared
        is_delayed = nsess + nrev <= idx < nsess + nrev + ndel or is_proc
        is_readded = nsess + nrev + ndel <= idx < nsess + nrev + ndel + nread
        is_shared = nsess + nrev + ndel + nread <= idx < nsess + nrev + ndel + nread + nshared
        if is_proc:
            # (generated after the older families: their sessions are the same as before for a given seed)
            sess = gen_delayed_session(ctx.rng, idx, idx - (nsess + nrev + ndel + nread + nshared),
                                       flavours=('proc', 'proc', 'proc', 'proc', 'serial', 'thread'), p_ga=0.75)
            sess['pickle'], sess['family'] = True, 'delayed-proc'
            out.count('delayed-proc:shape:' + sess['shape'])
        elif is_shared:
            # (generated after the older families: their sessions are the same as before for a given seed)
            hist = ctx.rng.choice(['random', 'revalue', 'revalue'])
            sess = gen_session(ctx.rng, idx, hist, ncons_choices=(1, 2, 2))
            sess['mode'], sess['hist'] = 'shared', hist
            c10_kwargs.add_decl(ctx.rng, sess)
            out.count('shared:layout:%s:%s' % (sess.get('layout', 'no-python-consumer'), hist))
        elif is_readded:
            sess = gen_readded_session(idx, idx - nsess - nrev - ndel)
            out.count('readded:variant:' + sess['variant'])
        elif is_delayed:
            sess = gen_delayed_session(ctx.rng, idx, idx - nsess - nrev)
            out.count('delayed:shape:' + sess['shape'])
        else:
            sess = gen_session(ctx.rng, idx, 'random' if idx < nsess else 'revalue')
        out.count('sessions:' + sess.get('family', sess['mode']))
        try:
            ints, runs, w = run_session(ctx, sess, out)
        except Exception as e:  # noqa -- machinery or implementation failure: observable, not a crash of the check
            import traceback
            ints, runs, w = [97], [], None
            ctx.notes.append('session %d: %s' % (idx, traceback.format_exc()[-600:]))
        if not is_delayed:
            # (delayed creation is modelled in Model/Delayed.v for C15, not in Model/Inputs.v: no model side for that family)
            defs, expr = model_case(sess, str(idx))
            cases.append(dict(model=expr, defs=defs, expected=ints, desc=dict(session=idx, kind='session')))
        elif ints == [97]:
            out.violations.append(dict(what='a session of the delayed family could not be executed: ' + (ctx.notes[-1][-300:] if ctx.notes else ''),
                                       shape='delayed-session-crash', case=dict(session=idx, mode='delayed', tasks=sess['tasks'], cmds=sess['cmds'], backend=sess['backend'],
                                                                                pickle=bool(sess.get('pickle')))))
        metas.append(sess)
        if w is not None:
            if not is_delayed:
                cases += static_cases(sess, w, runs)
            try:
                judge_session(sess, w, runs, out)
                if is_readded:
                    judge_readded(sess, w, runs, out)
                if is_shared:
                    c10_kwargs.judge_decl(sess, w, runs, out)
            except Exception:  # noqa
                import traceback
                ctx.notes.append('oracle, session %d: %s' % (idx, traceback.format_exc()[-600:]))
                out.violations.append(dict(what='oracle failed: ' + traceback.format_exc()[-300:], shape='oracle-crash', case=dict(session=idx)))
        for ri, obs in enumerate(runs):
            out.evaluations += 1
            c = obs['cmd']
            out.count('runner:' + c[4])
            out.count('always' if c[1] else 'normal')
            out.count('backend:' + sess['backend'])
            if is_delayed:
                delayed_counts(out, sess, w, obs, idx, ri)
            for l in obs['logged']:
                i = w.ids[l['task']]
                t = obs['live'][i]
                out.count('executed:' + t['kind'] + ':' + t['action'])
                if 'kw' in l:
                    if t.get('decl') and t['getargs'] and any(pname(a) in l['kw'] for a, _, _ in t['getargs']):
                        out.count('shared:getargs-received-through:' + ('named-parameter' if t['decl']['sig'] == 'named' else '**kwargs'))
                    if t['getargs'] and any(pname(a) in l['kw'] for a, _, _ in t['getargs']):
                        out.nontrivial.add((idx, ri))
                        for a, s, k in t['getargs']:
                            out.count('getargs:%s:%s' % ('group' if sess['tasks'][s]['group'] else 'single', 'dict' if k is None else 'key'))
                            src_ev = [e for e, tn, _ in obs['events'] if tn == w.names[s]]
                            out.count('source:' + ('executed' if 'success' in src_ev else 'up-to-date' if 'uptodate' in src_ev else 'group' if sess['tasks'][s]['group'] else 'other'))
                    if l['kw'].get('changed') and 'changed' not in {pname(a) for a, _, _ in t['getargs']}:
                        out.nontrivial.add((idx, ri))
                        out.count('changed:nonempty')
                    if t['calc_dep'] and 'dependencies' in l['kw'] and len(l['kw']['dependencies']) > len(t['file_dep']):
                        out.nontrivial.add((idx, ri))
                        out.count('calc_dep:extended-dependencies')
            for e, tn, x in obs['events']:
                if e == 'failure':
                    out.count('failure:%d' % fail_code(*x))
        if len(out.samples) < 4 and runs:
            out.samples.append(dict(session=idx, tasks=sess['tasks'], cmds=sess['cmds'][:30], observed=ints[:80]))
        if is_delayed and runs and not out.extra.get('delayed_sample') and any(
                l['task'] == w.names[i] and len(l.get('kw', {}).get('dependencies', [])) > len(obs['live'][i]['file_dep'])
                for obs in runs[1:] for l in obs['logged'] for i in sess['consumers']):
            out.extra['delayed_sample'] = dict(
                session=idx, shape=sess['shape'], story=delayed_story(sess),
                observed=[dict(run=obs['run_no'], exit=obs['rc'], events=[(e, tn) for e, tn, _ in obs['events'] if e != 'execute'],
                               received=[dict(task=l['task'], **{kk: ([os.path.basename(p) for p in v] if kk in ('dependencies', 'changed', 'targets') else v)
                                                                 for kk, v in l.get('kw', {}).items()})
                                         for l in obs['logged'] if w.ids[l['task']] in sess['consumers']]) for obs in runs])
        if w is not None:
            import shutil
            shutil.rmtree(w.dir, ignore_errors=True)
        fam_s[sess.get('family', sess['mode'])] = fam_s.get(sess.get('family', sess['mode']), 0) + time.time() - t_fam
    t_fam = time.time()
    c10_kwargs.class_level(ctx, out, common)
    fam_s['kwargs(class level, with its model evaluation)'] = time.time() - t_fam
    t_fam = time.time()
    bad = common.compare_with_model(ctx, PRE, cases, tag='c10')
    fam_s['model evaluation of the sessions'] = time.time() - t_fam
    out.extra['seconds_per_family'] = {k: round(v, 1) for k, v in fam_s.items()}
    for i, got in bad:
        out.mismatches.append(dict(case=cases[i]['desc'], impl=cases[i]['expected'][:400], model=got[:400],
                                   session=metas[cases[i]['desc']['session']] if cases[i]['desc'].get('kind') == 'session' else None))
    out.evaluations += len([c for c in cases if c['desc'].get('kind') != 'session'])
    out.extra['notes'] = ctx.notes[:10] + [
        'family delayed (consumers created at run time by create_after creators: single dict taking over the placeholder, yielded sub-tasks, '
        'target_regex; calc_dep returning file_dep/task_dep/uptodate; getargs; serial and -n 2 -P thread through DoitMain; json/dbm/sqlite3 '
        'round-robin; no process runner there: run-time created tasks must be picklable, the instrumented closures are not -- family delayed-proc '
        'runs the same generator with picklable actions (harness/c10_pick.py) mostly under -n 2 processes) is judged by the IMPLEMENTATION-SIDE oracle only (Shadow.judge): delayed creation is modelled in coq/Model/Delayed.v '
        'for C15, not in Model/Inputs.v; no theorem of Properties/C10.v speaks about delayed-created tasks']
    out.extra['delayed_family'] = dict(sessions=ndel + nproc, runs=out.distribution.get('delayed:runs', 0),
                                       delayed_proc_sessions=nproc, delayed_proc_runs=out.distribution.get('delayed-proc:runs', 0))
    out.extra['trusted_base'] = ['Python inspect.signature / bind_partial as used by _prepare_kwargs (oracle: the model Kwargs.v is given the parameter names, **kwargs flag and number of positional arguments) and %-formatting of CmdAction (oracle; exercised, not modelled)',
                                 'the canonical depth-first schedule of Inputs.visit (other schedules: compared on the serial, process and thread runners)']
    out.assumptions = ['task params / pos_arg not modelled (options start empty)',
                       'Model/Kwargs.v: the meta-argument `task`, default values on reserved names (InvalidTask), *args and keyword-only parameters are not modelled',
                       'result_dep on a group source not modelled: group sources are explicit setup-tasks in the generated graphs',
                       'values are ints/None; lists returned by a calc task are coded as bit masks over 16 files/tasks']
    return out


def delayed_counts(out, sess, w, obs, idx, ri):
    """input distribution of the delayed family, and its distinct non-trivial (session, run) keys"""
    c = obs['cmd']
    out.count('delayed:runs')
    out.count('delayed:runner:' + c[4])
    out.count('delayed:backend:' + sess['backend'])
    out.count('delayed:exit:%s' % obs['rc'])
    sel = c[3]
    if len(c) > 5 and c[5] == 'plain':
        how = 'plain-doit-run'
    elif any(not isinstance(i, int) for i in sel):
        how = 'by-target(target_regex)'
    elif any(sess['tasks'][i]['group'] for i in sel):
        how = 'by-group-name'
    elif any(sess['tasks'][i]['sub_of'] is not None for i in sel):
        how = 'by-sub-task-name'
    else:
        how = 'by-name' + ('+calc-provider' if len(sel) > 1 else '')
    out.count('delayed:selection:' + how)
    for ep in sess['episodes'][ri] if ri < len(sess.get('episodes', [])) else []:
        out.count('delayed:episode:' + ep)
    succeeded = {tn for e, tn, _ in obs['events'] if e == 'success'}
    uptodate = {tn for e, tn, _ in obs['events'] if e == 'uptodate'}
    pk = bool(sess.get('pickle'))
    if pk:
        out.count('delayed-proc:runs')
        out.count('delayed-proc:runner:' + c[4])
        out.count('delayed-proc:exit:%s' % obs['rc'])
        if any(e == 'runtime_error' for e, _, _ in obs['events']):
            out.count('delayed-proc:runtime-error')
    for i in sess['consumers']:
        nm, t = w.names[i], obs['live'][i]
        kind = 'single(takes-over-placeholder)' if t['sub_of'] is None else 'sub-task'
        lg = [l for l in obs['logged'] if l['task'] == nm and 'kw' in l]
        if not lg:
            out.count('delayed:consumer:%s:%s' % (kind, 'up-to-date' if nm in uptodate else 'not-executed'))
            continue
        kw = lg[0]['kw']
        out.count('delayed:consumer:%s:executed' % kind)
        inw = pk and c[4] == 'proc'
        if inw:
            out.count('delayed-proc:in-worker-process:consumer:%s:%s-action' % (kind, t['action']))
            if kw.get('changed'):
                out.count('delayed-proc:in-worker-process:changed-nonempty')
            if t['calc_dep'] and len(kw.get('dependencies', [])) > len(t['file_dep']):
                out.count('delayed-proc:in-worker-process:dependencies-extended-by-calc')
        if t['calc_dep']:
            cn = w.names[t['calc_dep'][0]]
            out.count('delayed:calc-provider:' + ('executed-this-run' if cn in succeeded else 'up-to-date(saved values)' if cn in uptodate else 'other'))
            if len(kw.get('dependencies', [])) > len(t['file_dep']):
                out.count('delayed:dependencies-extended-by-calc')
                out.nontrivial.add((idx, ri))
        if kw.get('changed'):
            out.count('delayed:changed:nonempty')
            out.nontrivial.add((idx, ri))
        for a, s_, k in t['getargs']:
            if pname(a) in kw:
                sn = w.names[s_]
                out.count('delayed:getargs:%s:provider-%s' % ('dict' if k is None else 'key', 'executed-this-run' if sn in succeeded else 'up-to-date(values from DB)' if sn in uptodate else 'not-run(values from DB)'))
                if inw:
                    out.count('delayed-proc:in-worker-process:getargs:%s:provider-%s' % ('dict' if k is None else 'key', 'executed-this-run' if sn in succeeded else 'up-to-date(values from DB)' if sn in uptodate else 'not-run(values from DB)'))
                out.nontrivial.add((idx, ri))


def thaw(x):
    """JSON turned the tuples of a session into lists"""
    if isinstance(x, list):
        return [thaw(y) for y in x]
    if isinstance(x, dict):
        return {k: thaw(v) for k, v in x.items()}
    return x


def thaw_task(t):
    t = dict(t)
    t['uptodate'] = [tuple(u) for u in t['uptodate']]
    t['values'] = [tuple(kv) for kv in t['values']]
    t['getargs'] = [tuple(g) for g in t['getargs']]
    return t


def replay(ctx, payload):
    """re-executes the session of a violation replay file on the real code and judges it again"""
    case = payload.get('case') or {}
    if case.get('family') == 'kwargs':
        out = Outcome()
        c10_kwargs.replay_program(ctx, payload, out)
        shapes = sorted({v['shape'] for v in out.violations})
        for v in out.violations[:8]:
            print('VIOLATION property=C10 shape=%s: %s' % (v['shape'], v['what']))
        print('replayed: %d execution(s), violation shapes now: %s' % (len(case['program']['calls']), shapes))
        return 1 if payload.get('shape') in shapes else 0
    if 'tasks' not in case:
        print(json.dumps(payload, indent=1, default=str)[:4000])
        return 1
    cmds = []
    for c in case['cmds']:
        c = list(c)
        if c[0] == 'SetDef' and len(c) > 2:
            c[2] = thaw_task(c[2])
        cmds.append(tuple(c))
    sess = dict(idx=0, tasks=[thaw_task(t) for t in case['tasks']], cmds=cmds, backend=case.get('backend', 'json'), mode=case.get('mode', 'random'))
    if 'objs' in case:
        sess['objs'] = case['objs']
    if case.get('pickle'):
        sess['pickle'] = True
    out = Outcome()
    if sess['mode'] == 'delayed':
        print('session of the delayed family (consumers created at run time by create_after creators):')
        for line in delayed_story(sess):
            print('   ' + line)
    ints, runs, w = run_session(ctx, sess, out)
    judge_session(sess, w, runs, out)
    if case.get('script'):
        sess.update(script=[tuple(x) for x in case['script']], variant=case.get('variant', 'replay'))
        judge_readded(sess, w, runs, out)
    if sess['mode'] == 'shared':
        c10_kwargs.judge_decl(sess, w, runs, out)
        for obs in runs:
            for l in obs['logged']:
                if 'kw' in l and obs['live'][w.ids[l['task']]].get('decl'):
                    print('run %d: %s received %s' % (obs['run_no'], l['task'], {kk: ([os.path.basename(p) for p in v] if kk in ('dependencies', 'changed', 'targets') else v) for kk, v in l['kw'].items()}))
    shapes = sorted({v['shape'] for v in out.violations})
    if sess['mode'] == 'delayed':
        for obs in runs:
            print('run %d: exit %s; %s' % (obs['run_no'], obs['rc'], ' '.join('%s:%s' % (e, tn) for e, tn, _ in obs['events'] if e != 'execute')))
            for l in obs['logged']:
                if 'kw' in l and w.ids[l['task']] == case.get('task'):
                    print('      %s received %s' % (l['task'], {kk: ([os.path.basename(p) for p in v] if kk in ('dependencies', 'changed', 'targets') else v) for kk, v in l['kw'].items()}))
    seen = set()
    for v in out.violations:
        if (v['shape'], v['what']) in seen or len(seen) >= 8:
            continue
        seen.add((v['shape'], v['what']))
        run_no = v['case'].get('run') if isinstance(v.get('case'), dict) else None
        known = v['shape'] != payload.get('shape') and any(k['match'] == v['shape'] for k in common.known_findings('C10'))
        print('%s property=C10 shape=%s%s: %s' % ('KNOWN-FINDING' if known else 'VIOLATION', v['shape'], '' if run_no is None else ' run=%s' % run_no, v['what']))
    print('replayed: %d run(s), violation shapes now: %s' % (len(runs), shapes))
    return 1 if payload.get('shape') in shapes else 0
