"""C20, part `clean-dirs`: `clean --dry-run` over targets that are DIRECTORIES (and files inside them).

The clean-list worlds of c20.py have regular files as targets only; doit.task.clean_targets (task.py 621-638) has a second
branch: a target that is a directory is removed by os.rmdir when os.listdir says it is empty ("<t> - removing dir '<p>'"), and
left alone otherwise ("<t> - cannot remove (it is not empty) '<p>'").  Whether that branch is taken depends on the state of the
file system, which is the result of a HISTORY: a run creates the targets, later a file inside is deleted by hand / by another
tool, or a foreign file is put into a directory, or a whole directory is gone.

Worlds (gen_dir_world): a random tree of depth <= 3 under the world directory, components d0..d9 (one digit: the order of the path
strings `sorted(task.targets, reverse=True)` uses is the order of the lists of digits the model uses).  Every node is a directory or
a regular file; a node is a target of exactly one task (doit refuses a shared target) or of none (foreign content); some targets
are never created (missing).  Parent and child can be targets of the same task or of different tasks.  Up to 8 tasks (T0 T1 T2,
group G with G:a G:b, _P, C, D) with task_dep / setup edges and an optional default_tasks; the clean attribute of a task is
`True`, absent, a list over D (python callable with `dryrun`) / P (without) -- these two flavours are compared with the model --
or a list containing T = doit.task.clean_targets itself (['T'], ['T','T'], ['D','T'], ['T','P'], ...: oracle only, flavour 'tlists').
History: `doit run` (the actions create the directories and files: makers), then `after`: rm of files, rmtree of directories,
mkfile / mkdir of foreign content -- so that directories that are targets are empty / hold only targets / hold foreign files /
are gone -- then a batch of `clean -n|--dry-run` commands with every combination of -c / -a / --forget and positional selections
(names, wild-cards, group, unknown name), each between two snapshots (file tree: names, kinds, sizes, mtimes, sha1; logical DB;
files of the DB), then ONE real clean and dry-runs after it (thorough: a second run + after + batch on the state the real clean left).

Oracle (from the property text, no model; CleanRunner.command of c20.py): a dry-run leaves the tree (every directory and file),
the DB records and the DB files exactly as they were, executes no task action, invokes no clean action without a `dryrun`
parameter and hands True to those that have it (Task.clean, clean_targets included).
shapes: c20:cleandirs-dryrun-altered-fs, c20:cleandirs-dryrun-altered-db, c20:cleandirs-dryrun-executed-action,
        c20:cleandirs-dryrun-flag-not-passed, c20:cleandirs-dryrun-executed-task-action  (+ the file-level frame shapes of c20.py)

Correspondence (worlds without T inside a list): Clean.clean_execute of Model/Clean.v (file system = list of (path, KFile | KDir),
w_db = the task ids with a record) must give the same cleaned tasks, the same sequence of events (Task.clean entered, announcements,
executions with the flag, "removing file" / "removing dir" / "cannot remove (it is not empty)" messages with their paths), the same
tree and the same set of records afterwards -- for the dry-runs AND the real clean.  Theorems: C20_clean_dryrun_frame (files AND
directories untouched), C20_clean_dryrun_target_frame, C20_clean_dryrun_targets_frame, C20_clean_empty_dir_target,
C20_clean_dryrun_dirs_nonvacuous (Properties/C20.v).
Encoding = Clean.enc_res: [0] cleaned -1 events -1 (kind; path; -2)* -1 db ids | [96] | [97]
    events [1; t] | [2; t; i] | [3; t; i; flag 0/1, 2 none] | [4|5|6; t; path...; -2]   (4 file, 5 dir, 6 not empty)
"""
import os, re, shutil
import c20
from c20 import (CleanWorld, CleanRunner, NAME_ID, TRACE, RAN, RX_ANNOUNCE, nlist, b2c, coq_sel, next_idx, BACKEND_OPT, CK_OPT, RecReporter)

RX_MSG = re.compile(r"^(\S+) - (removing file|removing dir|cannot remove \(it is not empty\)) '(.*)'$")
MSG_Z = {'removing file': 4, 'removing dir': 5, 'cannot remove (it is not empty)': 6}
DIR_NAMES = ['T0', 'T1', 'T2', 'G:a', 'G:b', '_P', 'C', 'D']


def pkey(p):
    return tuple(p)


class DirWorld(CleanWorld):
    """tasks whose targets are paths of a tree of directories and files; a path = list of digits, [1, 2] = <dir>/d1/d2"""
    def tpath(self, p):
        return os.path.join(self.dir, *['d%d' % c for c in p])

    def tpath_of(self, s):
        """inverse of tpath; None for anything else"""
        rel = os.path.relpath(s, self.dir)
        comps = rel.split(os.sep)
        if not all(re.fullmatch(r'd\d', c) for c in comps):
            return None
        return [int(c[1]) for c in comps]

    def make(self, p, kind):
        q = self.tpath(p)
        if kind == 'dir':
            os.makedirs(q, exist_ok=True)
        else:
            os.makedirs(os.path.dirname(q), exist_ok=True)
            with open(q, 'w') as fh:
                fh.write('x')

    def apply_after(self, ops):
        """what happens to the tree between the run and the dry-run (by hand / another tool); an op that does not apply is skipped"""
        for op, p in ops:
            q = self.tpath(p)
            if op == 'rm' and os.path.isfile(q):
                os.remove(q)
            elif op == 'rmtree' and os.path.isdir(q):
                shutil.rmtree(q)
            elif op in ('mkfile', 'mkdir') and os.path.isdir(os.path.dirname(q)) and not os.path.lexists(q):
                self.make(p, 'dir' if op == 'mkdir' else 'file')

    def task_dict(self, name, sub=None):
        w, t = self, self.spec['tasks'][name]

        def act():
            RAN.append(name)
            for p, kind in t['make']:
                w.make(p, kind)
        d = {'actions': [act], 'file_dep': [w.path(f) for f in t['file_dep']], 'targets': [w.tpath(p) for p in t['targets']],
             'task_dep': list(t['task_dep']), 'setup': list(t['setup'])}
        if sub is not None:
            d['name'] = sub
        cl = t['clean']
        if cl is True:
            d['clean'] = True
        elif cl is not None:
            d['clean'] = [w.make_clean(name, i, a) for i, a in enumerate(cl)]
        return d

    def existing(self):
        """the tree: sorted [[path, 'dir' | 'file']] of everything named d<digit> below the world directory"""
        res = []
        for root, dirs, files in os.walk(self.dir):
            if os.path.abspath(root) == os.path.abspath(self.dir):
                dirs[:] = [d for d in dirs if re.fullmatch(r'd\d', d)]
                files = [f for f in files if re.fullmatch(r'd\d', f)]
            for d in dirs:
                res.append([self.tpath_of(os.path.join(root, d)), 'dir'])
            for f in files:
                res.append([self.tpath_of(os.path.join(root, f)), 'file'])
        return sorted(res)


def coq_path(p):
    return nlist(p)


def coq_tree(ex):
    return '[' + '; '.join('(%s, Clean.%s)' % (coq_path(p), 'KDir' if k == 'dir' else 'KFile') for p, k in ex) + ']'


def coq_ktable(rows):
    out = []
    for r in rows:
        cl = 'None' if r['clean'] is True else '(Some [%s])' % '; '.join(b2c(a[0] == 'D') for a in r['clean'])
        out.append('KT %d%%N %s %s %s %s [%s]' % (NAME_ID[r['name']], nlist(NAME_ID[x] for x in r['task_dep']), nlist(NAME_ID[x] for x in r['setup']),
                                               'None' if r['sub'] is None else '(Some %d%%N)' % NAME_ID[r['sub']], cl,
                                               '; '.join(coq_path(p) for p in r['targets'])))
    return '[' + '; '.join(out) + ']'


def dir_observation(w, rc, txt, trace):
    """the command as one sequence of events, layout of Clean.enc_res up to the first -1 of enc_world"""
    if rc not in (0, None):
        if 'is not a task' in txt:
            return [96]
        if 'KeyError' in txt:
            return [97]
        return [98, rc if isinstance(rc, int) else 99]
    lines, off = [], 0
    for ln in txt.split('\n'):
        lines.append((off, ln))
        off += len(ln) + 1
    items = [(r[-1], 0, i, r) for i, r in enumerate(trace) if r[0] in ('clean', 'exec')]
    items += [(o, 1, i, ('line', ln)) for i, (o, ln) in enumerate(lines) if ln.strip()]
    items.sort(key=lambda x: (x[0], x[1], x[2]))
    flag_of = {}
    for i, r in enumerate(trace):
        if r[0] == 'exec' and r[3] == 'py':
            fl = 9
            for r2 in trace[i + 1:]:
                if r2[0] in ('exec', 'clean'):
                    break
                if r2[0] == 'got':
                    fl = 2 if r2[3] is None else (1 if r2[3] is True else 0 if r2[3] is False else 8)
                    break
            flag_of[i] = fl
    cleaned, ev, nann = [], [], {}
    for pos, _, i, r in items:
        if r[0] == 'clean':
            cleaned.append(NAME_ID.get(r[1], 77))
            ev += [1, NAME_ID.get(r[1], 77)]
        elif r[0] == 'exec':
            ev += [3, NAME_ID.get(r[1], 77), 77 if r[2] is None else r[2], 2 if r[3] == 'cmd' else flag_of[i]]
        else:
            ln = r[1]
            m = RX_ANNOUNCE.match(ln)
            if m:
                k = nann.get(m.group(1), 0)
                nann[m.group(1)] = k + 1
                ev += [2, NAME_ID.get(m.group(1), 77), k]
                continue
            m = RX_MSG.match(ln)
            if m:
                p = w.tpath_of(m.group(3))
                ev += [MSG_Z[m.group(2)], NAME_ID.get(m.group(1), 77)] + ([76] if p is None else p) + [-2]
            # anything else (what a failing clean action writes to stderr) is not an event of the model
    return [0] + cleaned + [-1] + ev + [-1]


class DirRunner(CleanRunner):
    def __init__(self, ctx, out, backend, spec):
        self.ctx, self.out, self.backend, self.spec = ctx, out, backend, spec
        self.w = DirWorld(ctx, backend, spec)
        self.cases, self.ncmd = [], 0
        self.modelled = not any(isinstance(t['clean'], list) and any(a[0] == 'T' for a in t['clean']) for t in spec['tasks'].values())
        self.nontrivial = []

    def case_desc(self, extra):
        return dict(kind='clean-dirs', backend=self.backend, spec=self.spec, **extra)

    def violation(self, what, shape, extra):
        if shape.startswith('cleanlist-'):
            shape = 'c20:cleandirs-' + shape[len('cleanlist-'):]
        case = self.case_desc(extra)
        # the replay: the history up to the command (run, after, earlier real commands of the world) and this one command
        case['spec'] = dict(self.spec, rounds=self.done_rounds + [dict(self.cur_round, cmds=self.real_so_far + [extra['cmd'].split(' ')])])
        case['tree_before'] = self.tree_before
        self.out.violations.append(dict(what=what + ' -- tree before the command: %s' % self.tree_before, shape=shape, case=case))

    def rows_of(self):
        from doit.control import TaskControl
        task_list = self.w.loaded()
        tc = TaskControl(task_list)
        rows = []
        for t in task_list:
            tt = tc.tasks[t.name]
            sp = self.spec['tasks'].get(t.name)
            cl = None if sp is None else sp['clean']
            rows.append(dict(name=t.name, task_dep=list(tt.task_dep), setup=list(tt.setup_tasks), sub=tt.subtask_of,
                             clean=([] if cl is None else cl), targets=[] if sp is None else [list(p) for p in sp['targets']]))
        return rows

    def setup(self):
        w, sp = self.w, self.spec
        for f in range(5):
            w.write(f, f % 5)
        self.rows = self.rows_of()
        self.names = [r['name'] for r in self.rows]
        self.kinds = {(r['name'], i): a[0] for r in self.rows if r['clean'] is not True for i, a in enumerate(r['clean'])}
        self.done_rounds, self.cur_round, self.real_so_far = [], None, []

    def start_round(self, rnd):
        w, sp = self.w, self.spec
        self.cur_round, self.real_so_far = rnd, []
        rc, txt, log = w.doit(['run'] + list(sp['order']))
        if rc != 0:
            raise RuntimeError('run failed: rc=%s %s' % (rc, txt[-300:]))
        for n in rnd.get('forget', []):
            w.doit(['forget', n])
        w.apply_after(rnd['after'])

    def classify(self, tree):
        """distribution of the states of the targets of the tasks that call clean_targets"""
        kind = {pkey(p): k for p, k in tree}
        parents = {}
        for p, k in tree:
            parents.setdefault(pkey(p[:-1]), []).append(pkey(p))
        alltg = set(pkey(p) for t in self.spec['tasks'].values() for p in t['targets'])
        res = []
        for n, t in self.spec['tasks'].items():
            cl = t['clean']
            if not (cl is True or (isinstance(cl, list) and any(a[0] == 'T' for a in cl))):
                continue
            for p in t['targets']:
                k = kind.get(pkey(p))
                if k is None:
                    res.append((n, 'missing'))
                elif k == 'file':
                    res.append((n, 'file'))
                else:
                    ch = parents.get(pkey(p), [])
                    res.append((n, 'dir-empty' if not ch else 'dir-holding-only-targets' if all(c in alltg for c in ch) else 'dir-holding-foreign'))
        return res

    def command(self, args):
        self.tree_before = self.w.existing()
        o = c20.parse_clean_args(args)
        if o['dry']:
            states = self.classify(self.tree_before)
            for _, s in states:
                self.out.count('cleandirs:target-state-at-dry-run:' + s)
        self.has_empty_dir = bool(o['dry']) and any(s == 'dir-empty' for _, s in states)
        self.out.count('cmd:clean-dirs:' + ('dry-run' if o['dry'] else 'real'))
        r = CleanRunner.command(self, args)
        if not o['dry']:
            self.real_so_far.append(list(args))
        return r

    def correspond(self, o, label, rc, txt, trace, recs0, recs1, ex0, ex1):
        if not self.modelled:
            self.out.count('cleandirs:oracle-only-command (clean_targets inside a list)')
            return None
        w = self.w
        obs = dir_observation(w, rc, txt, trace)
        if obs[0] == 0:
            for p, k in ex1:
                obs += [1 if k == 'dir' else 0] + list(p) + [-2]
            obs += [-1] + sorted(NAME_ID[n] for n in recs1)
        idx = next_idx()
        pats = []
        pos = coq_sel(o['pos'], self.names, pats)
        selv = o['pos'] or self.spec.get('default')
        sel = 'None' if selv is None else '(Some %s)' % coq_sel(selv, self.names, pats)
        tab = '[' + '; '.join(nlist(x) for x in pats) + ']'
        defs = ('Definition kfs_# : Clean.fsys := %s.\nDefinition ktb_# : Clean.table := %s.\n' % (coq_tree(ex0), coq_ktable(self.rows))).replace('#', str(idx))
        model = ('Clean.enc_res (Clean.clean_execute N (fm %s) ktb_# (CO %s %s %s %s %s %s) (KW kfs_# %s))' % (
            tab, b2c(o['dry']), b2c(o['cleandep']), b2c(o['cleanall']), b2c(o['forget']), pos, sel,
            nlist(sorted(NAME_ID[n] for n in recs0)))).replace('#', str(idx))
        self.cases.append(dict(defs=defs, model=model, expected=obs, desc=self.case_desc(dict(cmd=label, tree_before=ex0))))
        return obs

    def run(self):
        self.setup()
        for rnd in self.spec['rounds']:
            self.start_round(rnd)
            for args in rnd['cmds']:
                self.command(list(args))
                self.nontrivial.append((' '.join(args), bool(getattr(self, 'has_empty_dir', False))))
            self.done_rounds.append(dict(rnd, cmds=[c for c in rnd['cmds'] if not c20.parse_clean_args(c)['dry']]))
        return self.cases


# ------------------------------------------------------------------ generator
T_LISTS = [['T'], ['T', 'T'], ['D', 'T'], ['T', 'P'], ['T', 'D'], ['P', 'T', 'T'], ['D', 'T', 'P']]


def gen_act(rng, k):
    if k == 'T':
        return ['T']
    if k == 'D':
        return ['D', rng.randrange(4), []]
    return ['P', rng.randrange(3), [], rng.random() < 0.2]


def gen_tree(rng):
    """{path tuple: kind}; at least two directories at the top"""
    tree = {}
    tops = rng.sample(range(10), rng.choice([3, 4, 5]))
    for i, a in enumerate(tops):
        if i >= 2 and rng.random() < 0.3:
            tree[(a,)] = 'file'
            continue
        tree[(a,)] = 'dir'
        for b in rng.sample(range(10), rng.choice([0, 1, 1, 2, 3])):
            if rng.random() < 0.5:
                tree[(a, b)] = 'file'
                continue
            tree[(a, b)] = 'dir'
            for c in rng.sample(range(10), rng.choice([0, 0, 1, 2])):
                tree[(a, b, c)] = 'file' if rng.random() < 0.7 else 'dir'
    return tree


def gen_after(rng, tree, targets):
    """operations that make directories empty / leave only foreign content / remove them"""
    ops = []
    dirs = [p for p, k in tree.items() if k == 'dir']
    rng.shuffle(dirs)
    forced = False
    for d in sorted(dirs, key=lambda p: -len(p)):
        ch = [p for p in tree if len(p) == len(d) + 1 and p[:len(d)] == d]
        r = rng.random()
        if ch and (r < 0.3 or (not forced and d in targets)):
            # emptied: every child goes
            for c in ch:
                ops.append(['rm' if tree[c] == 'file' else 'rmtree', list(c)])
            forced = forced or d in targets
        elif ch and r < 0.45:
            c = rng.choice(ch)
            ops.append(['rm' if tree[c] == 'file' else 'rmtree', list(c)])
        elif r < 0.7:
            free = [x for x in range(10) if d + (x,) not in tree]
            ops.append([rng.choice(['mkfile', 'mkdir']), list(d + (rng.choice(free),))])
        elif r < 0.76:
            ops.append(['rmtree', list(d)])
    for p, k in tree.items():
        if k == 'file' and rng.random() < 0.12:
            ops.append(['rm', list(p)])
    return ops


def gen_cmds(rng, used, has_group, rich):
    sels = [[], [rng.choice(used)], rng.sample(used, min(2, len(used))), ['T*'], ['*'], ['zz']]
    if has_group:
        sels += [['G'], ['G:*']]
    cmds = []
    for bits in range(8):
        fl = (['-c'] if bits & 1 else []) + (['-a'] if bits & 2 else []) + (['--forget'] if bits & 4 else [])
        if rich:
            chosen = [[]] + rng.sample(sels[1:], 1 if bits else 3)
        else:
            chosen = [rng.choice(sels)] if bits not in (0, 2) else [[]]
        for sel in chosen:
            cmds.append(['clean', rng.choice(['-n', '--dry-run'])] + fl + sel)
    rng.shuffle(cmds)
    cmds.insert(0, ['clean', '-n', '-a'])
    real = ['clean'] + [x for x in ['-c', '-a', '--forget'] if rng.random() < 0.4] + rng.choice([[], [rng.choice(used)], rng.sample(used, min(3, len(used)))])
    cmds += [real, ['clean', '-n', '-a', '--forget'], ['clean', '--dry-run']]
    return cmds


def gen_dir_world(rng, tlists, rich, rounds):
    pool = list(DIR_NAMES)
    rng.shuffle(pool)
    used = pool[:rng.choice([2, 3, 4, 5, 6])]
    has_group = any(n.startswith('G:') for n in used)
    tops = [n for n in ['T0', 'T1', 'T2', '_P', 'C', 'D'] if n in used] + (['G'] if has_group else [])
    rng.shuffle(tops)
    tree = gen_tree(rng)
    rank = {n: i for i, n in enumerate(rng.sample(used, len(used)))}
    tasks = {}
    for n in used:
        lower = [m for m in used if rank[m] < rank[n]]
        lower_g = lower + (['G'] if has_group and not n.startswith('G:') and all(rank[m] < rank[n] for m in used if m.startswith('G:')) else [])
        td = rng.sample(lower_g, min(len(lower_g), rng.choice([0, 0, 1, 1, 2])))
        su = rng.sample(lower, min(len(lower), rng.choice([0, 0, 0, 1])))
        tasks[n] = dict(file_dep=sorted(rng.sample(range(5), rng.choice([0, 1, 1]))), targets=[], make=[], task_dep=td, setup=su, clean=None)
    # the tasks that call clean_targets: most of them
    cleaners = []
    for n in used:
        r = rng.random()
        if r < 0.6:
            tasks[n]['clean'] = True
        elif r < 0.75 and tlists:
            tasks[n]['clean'] = [gen_act(rng, k) for k in rng.choice(T_LISTS)]
        elif r < 0.88:
            tasks[n]['clean'] = [gen_act(rng, k) for k in rng.choice(['D', 'P', 'DP', 'PD', 'DD', 'PDP'])]
        if tasks[n]['clean'] is True or (isinstance(tasks[n]['clean'], list) and any(a[0] == 'T' for a in tasks[n]['clean'])):
            cleaners.append(n)
    if not cleaners:
        tasks[used[0]]['clean'] = True
        cleaners.append(used[0])
    if tlists and not any(isinstance(t['clean'], list) and any(a[0] == 'T' for a in t['clean']) for t in tasks.values()):
        tasks[cleaners[0]]['clean'] = [gen_act(rng, k) for k in rng.choice(T_LISTS)]
    # who owns / makes each node: a directory and what it holds often belong to one task (the documented shape), sometimes not
    owner = {}
    for p in sorted(tree, key=lambda p: (len(p), p)):
        par = owner.get(p[:-1])
        r = rng.random()
        if r < 0.2:
            o = None                                   # foreign content: a target of nobody
        elif par is not None and r < 0.65:
            o = par
        elif r < 0.9:
            o = rng.choice(cleaners)
        else:
            o = rng.choice(used)
        owner[p] = o
    if not any(owner[p] in cleaners and tree[p] == 'dir' for p in tree):
        p = sorted(p for p in tree if tree[p] == 'dir')[0]
        owner[p] = cleaners[0]
    for p in sorted(tree, key=lambda p: (len(p), p)):
        o = owner[p]
        if o is not None:
            tasks[o]['targets'].append(list(p))
            if rng.random() < 0.93:                    # (else: a target its task never creates)
                tasks[o]['make'].append([list(p), tree[p]])
        else:
            tasks[rng.choice(used)]['make'].append([list(p), tree[p]])
    # a target that never exists
    if rng.random() < 0.5:
        free = [x for x in range(10) if (x,) not in tree]
        if free:
            tasks[rng.choice(cleaners)]['targets'].append([rng.choice(free)])
    for t in tasks.values():
        rng.shuffle(t['targets'])
    tgset = set(pkey(p) for n in cleaners for p in tasks[n]['targets'])
    default = None
    if rng.random() < 0.3:
        default = rng.sample(tops, min(len(tops), rng.choice([1, 2])))
    rs = []
    for i in range(rounds):
        rs.append(dict(after=gen_after(rng, tree, tgset), forget=[n for n in used if rng.random() < 0.15],
                       cmds=gen_cmds(rng, used, has_group, rich)))
    return dict(order=tops, tasks=tasks, default=default, rounds=rs)


def scripted_worlds():
    """the shapes of the documentation, every seed: a directory and the file in it both targets (clean: True), the file deleted
    after the run; two nested directories, both targets, both empty; a directory holding a foreign file; clean_targets in a list"""
    def T(targets, make, clean=True, td=()):
        return dict(file_dep=[], targets=targets, make=make, task_dep=list(td), setup=[], clean=clean)
    base = dict(
        T0=T([[1, 2], [1]], [[[1], 'dir'], [[1, 2], 'file']]),
        T1=T([[3, 4], [3]], [[[3, 4], 'dir']]),
        T2=T([[5]], [[[5], 'dir'], [[5, 6], 'file']]),
        C=T([[7], [8]], [[[7], 'dir'], [[8], 'file']], clean=[['D', 0, []], ['P', 0, [], False]], td=['T0']))
    cmds = [['clean', '-n'], ['clean', '--dry-run', '-a'], ['clean', '-n', 'T0'], ['clean', '-n', '-c', 'C'], ['clean', '-n', '--forget', 'T1'],
            ['clean'], ['clean', '-n', '-a']]
    w1 = dict(order=['T0', 'T1', 'T2', 'C'], tasks=base, default=None, rounds=[dict(after=[['rm', [1, 2]]], forget=[], cmds=cmds)])
    tl = {k: dict(v) for k, v in base.items()}
    tl['T0'] = dict(tl['T0'], clean=[['T']])
    tl['T1'] = dict(tl['T1'], clean=[['D', 1, []], ['T'], ['P', 1, [], False]])
    w2 = dict(order=['T0', 'T1', 'T2', 'C'], tasks=tl, default=None, rounds=[dict(after=[['rm', [1, 2]]], forget=[], cmds=cmds)])
    return [w1, w2]


def worlds(ctx):
    rng = ctx.rng
    ws = scripted_worlds()
    n = ctx.n(10, 60)
    for i in range(n):
        tl = (i % 4 == 3)               # (not a multiple of 3: the backends rotate with period 3)
        ws.append(gen_dir_world(rng, tl, rich=not ctx.quick, rounds=ctx.n(1, 2)))
    return ws


def run_part(ctx, out, cases, backends):
    """-> number of cases appended (they are compared with the model together with the others)"""
    import time, json, traceback
    t0 = time.time()
    specs = worlds(ctx)
    n_before, ncmd, nempty = len(cases), 0, 0
    for wi, spec in enumerate(specs):
        b = backends[wi % 3]
        r = DirRunner(ctx, out, b, spec)
        try:
            cs = r.run()
        except Exception as e:  # noqa -- a harness / implementation failure becomes a disagreement, not a crash
            cs = r.cases + [dict(model='[0]', expected=[97, len(type(e).__name__)], desc=dict(error=traceback.format_exc()[-900:], kind='clean-dirs', spec=spec, backend=b))]
        out.count('cleandirs-world:%s:%s' % ('modelled' if r.modelled else 'clean_targets-in-list', b))
        for t_ in spec['tasks'].values():
            cl = t_['clean']
            out.count('cleandirs:clean-attribute:' + ('True' if cl is True else 'none' if cl is None else ''.join(a[0] for a in cl)))
        for ci, (cmd, has_empty) in enumerate(r.nontrivial):
            out.nontrivial.add(('clean-dirs', wi, b, cmd, ci))
            nempty += 1 if has_empty else 0
        cases.extend(cs)
        ncmd += r.ncmd
        out.evaluations += r.ncmd
    out.extra['cleandirs_worlds'] = len(specs)
    out.extra['cleandirs_commands'] = ncmd
    out.extra['cleandirs_commands_compared_with_model'] = len(cases) - n_before
    out.extra['cleandirs_dry_runs_with_an_empty_directory_target'] = nempty
    out.extra['cleandirs_seconds'] = round(time.time() - t0, 1)
    return len(cases) - n_before


def replay(ctx, out, case):
    r = DirRunner(ctx, out, case.get('backend', 'json'), case['spec'])
    r.run()
