"""C09 -- termination with cyclic / acyclic graphs.
 * shared run-family correspondence (harness/runfam.py, oracle_c09), profile: 40% cyclic graphs
 * exhaustive part: every digraph on 3 tasks (64 task_dep edge sets, self loops excluded) and every digraph on
   3 tasks whose edges are each either task_dep or setup (thorough), x every selection of one task + all,
   x {serial, thread}, compared with the model and judged by the oracle
 * CLI part: a few cyclic dodo modules through DoitMain: exit 3 and nothing executed (the load-time check
   of TaskControl and the run-time check of the dispatcher)
 * declaration-form part (harness/c09_decl.py): generated dodo modules whose dependency attributes are written with
   module-level list / tuple / dict objects shared by several tasks and attributes, judged from the declared graph
   alone and compared with Model/DeclTable.v (decl_table + run_serial)
"""
import itertools, os, subprocess, sys, tempfile, textwrap
import common, runfam, runlib, c09_decl


def blank(task_dep=(), setup=()):
    return dict(task_dep=list(task_dep), setup=list(setup), calc_dep=[], file_edge=[], teardown=False, dbignore=False,
                check='run', argerr=False, outcome='ok', calc_task=[], calc_file=[], calc_calc=[], getargs=[])


def digraph_cases(thorough):
    pairs = [(a, b) for a in range(3) for b in range(3) if a != b]
    kinds = (0, 1, 2) if thorough else (0, 1)
    out = []
    for assign in itertools.product(kinds, repeat=len(pairs)):
        td = {i: [] for i in range(3)}; su = {i: [] for i in range(3)}
        for (a, b), kd in zip(pairs, assign):
            if kd == 1:
                td[a].append(b)
            elif kd == 2:
                su[a].append(b)
        tasks = [blank(td[i], su[i]) for i in range(3)]
        for sel in ([0], [1], [2], [0, 1, 2]) if not thorough else ([0], [2, 1], [0, 1, 2]):
            for fl in ('serial', 'thread'):
                out.append(dict(n=3, tasks=[dict(t) for t in tasks], selected=list(sel), cont=False, always=False,
                                flavour=fl, k=2, sched=[0] * 8))
    return out


DODOS = {
    'selffile': ("def task_a():\n    return {'actions': ['echo RAN-a'], 'file_dep': ['x'], 'targets': ['x']}\n"),
    'selfdep': ("def task_a():\n    return {'actions': ['echo RAN-a'], 'task_dep': ['a']}\n"),
    'selfsetup': ("def task_a():\n    return {'actions': ['echo RAN-a'], 'setup': ['a']}\n"),
    'calc-selffile': ("def task_c():\n    return {'actions': [lambda: {'file_dep': ['x']}]}\n"
                      "def task_a():\n    return {'actions': ['echo RAN-a'], 'calc_dep': ['c'], 'targets': ['x']}\n"),
    'file3': ("def task_a():\n    return {'actions': ['echo RAN-a'], 'file_dep': ['y'], 'targets': ['x']}\n"
              "def task_b():\n    return {'actions': ['echo RAN-b'], 'task_dep': ['a']}\n"
              "def task_c():\n    return {'actions': ['echo RAN-c'], 'setup': ['b'], 'targets': ['y']}\n"),
    'direct': ("def task_a():\n    return {'actions': ['echo RAN-a'], 'task_dep': ['b']}\n"
               "def task_b():\n    return {'actions': ['echo RAN-b'], 'task_dep': ['a']}\n"),
    'setup': ("def task_a():\n    return {'actions': ['echo RAN-a'], 'setup': ['b']}\n"
              "def task_b():\n    return {'actions': ['echo RAN-b'], 'task_dep': ['a']}\n"),
    'calc': ("def task_c():\n    return {'actions': [lambda: {'task_dep': ['a']}]}\n"
             "def task_a():\n    return {'actions': ['echo RAN-a'], 'calc_dep': ['c']}\n"),
    'file': ("def task_a():\n    return {'actions': ['echo RAN-a'], 'file_dep': ['y'], 'targets': ['x']}\n"
             "def task_b():\n    return {'actions': ['echo RAN-b'], 'file_dep': ['x'], 'targets': ['y']}\n"),
    # cycles through tasks created at run time by a create_after creator (the created task takes over the
    # placeholder's node, or is a sub-task): closed by a calc_dep, a task_dep, a setup edge of the created task
    'delayed-calc': ("from doit import create_after\ndef task_pre():\n    return {'actions': ['echo pre']}\n"
                     "@create_after(executed='pre')\ndef task_a():\n    return {'actions': ['echo RAN-a'], 'calc_dep': ['c']}\n"
                     "def task_c():\n    return {'actions': ['echo RAN-c'], 'task_dep': ['a']}\n"),
    'delayed-taskdep': ("from doit import create_after\ndef task_pre():\n    return {'actions': ['echo pre']}\n"
                        "@create_after(executed='pre')\ndef task_a():\n    return {'actions': ['echo RAN-a'], 'task_dep': ['b']}\n"
                        "def task_b():\n    return {'actions': ['echo RAN-b'], 'task_dep': ['a']}\n"),
    'delayed-setup': ("from doit import create_after\ndef task_pre():\n    return {'actions': ['echo pre']}\n"
                      "@create_after(executed='pre')\ndef task_a():\n    return {'actions': ['echo RAN-a'], 'setup': ['b']}\n"
                      "def task_b():\n    return {'actions': ['echo RAN-b'], 'task_dep': ['a']}\n"),
    'delayed-sub-calc': ("from doit import create_after\ndef task_pre():\n    return {'actions': ['echo pre']}\n"
                         "@create_after(executed='pre')\ndef task_g():\n    yield {'name': 'x', 'actions': ['echo RAN-gx'], 'calc_dep': ['c']}\n"
                         "def task_c():\n    return {'actions': ['echo RAN-c'], 'task_dep': ['g:x']}\n"),
}


def cli_part(ctx, out):
    for name, src in DODOS.items():
        for par in ([], ['-n', '2', '-P', 'thread']):
            d = tempfile.mkdtemp(prefix='c09_', dir=ctx.tmp)
            open(os.path.join(d, 'dodo.py'), 'w').write(src)
            open(os.path.join(d, 'x'), 'w').write('x'); open(os.path.join(d, 'y'), 'w').write('y')
            try:
                p = subprocess.run([sys.executable, '-m', 'doit', 'run'] + par, cwd=d, env=common.impl_env(), capture_output=True, text=True, timeout=60)
                rc, txt = p.returncode, p.stdout + p.stderr
            except subprocess.TimeoutExpired:
                rc, txt = 98, 'timeout'
            out.count('cli:%s:rc%s' % (name, rc))
            out.evaluations += 1
            # 'calc': a -> c (calc_dep) and c's result makes a depend on itself
            if rc != 3 or 'RAN-' in txt:
                out.violations.append(dict(what='cyclic dodo (%s, %s) ended with exit %s, executed=%s' % (name, par, rc, 'RAN-' in txt),
                                           shape='c09:cli-cycle-%s' % name, case=dict(dodo=src, args=par, output=txt[-600:])))


BASEEXC = ("class Fatal(BaseException):\n    pass\n"
           "def boom():\n    raise KIND\n"
           "def task_a():\n    return {'actions': [boom]}\n"
           "def task_b():\n    return {'actions': ['echo RAN-b']}\n")


def termination_part(ctx, out):
    """every run terminates under every runner, also when an action raises something that is not an Exception"""
    for kind in ("Fatal('fatal')", 'GeneratorExit()', 'SystemExit(7)', 'KeyboardInterrupt()'):
        for par in ([], ['-n', '2', '-P', 'thread'], ['-n', '2']):
            d = tempfile.mkdtemp(prefix='c09t_', dir=ctx.tmp)
            src = BASEEXC.replace('KIND', kind)
            open(os.path.join(d, 'dodo.py'), 'w').write(src)
            try:
                p = subprocess.run([sys.executable, '-m', 'doit', 'run', '--continue'] + par, cwd=d, env=common.impl_env(), capture_output=True, text=True, timeout=60)
                rc = p.returncode
            except subprocess.TimeoutExpired:
                rc = 98
            out.count('cli-term:%s:rc%s' % (kind.split('(')[0], rc))
            out.evaluations += 1
            if rc == 98:
                out.violations.append(dict(what='run never terminated: an action raised %s under runner args %s' % (kind, par),
                                           shape='c09:cli-hang-baseexception', case=dict(dodo=src, args=par)))


def run(ctx):
    extra = digraph_cases(ctx.tier == 'thorough')
    out = runfam.run_property(ctx, 'C09', n_quick=300, n_thorough=4000, extra_cases=extra)
    out.extra['exhaustive_3_task_digraph_cases'] = len(extra)
    cli_part(ctx, out)
    termination_part(ctx, out)
    c09_decl.part(ctx, out)
    out.rule += ('; plus every 3-task digraph (task_dep only in quick; task_dep/setup per edge in thorough) x selections x {serial, thread}; '
                 'plus cyclic dodo modules through `python -m doit` (exit 3, nothing executed)')
    return out


def replay(ctx, payload):
    print(payload)
    return 0
