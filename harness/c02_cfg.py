"""C02, part `cfg`: WHERE THE RUN CONFIGURATION COMES FROM.

The property speaks about "configurations" and about a run that is "legitimately cut short by a failure without
--continue".  `continue` (and the choice of the runner: `num_process`, `par_type`; and the selection: `default_tasks`)
can be requested in several places, and a run must obey them wherever they are written:

    cli      the command line of `doit run`         -c / --continue / --no-continue, -n N, -P thread|process, task names
    dodo     DOIT_CONFIG of the dodo module          {'continue': True, 'num_process': 2, 'par_type': 'thread', 'default_tasks': [..]}
    file     the configuration of the tool           a doit.cfg with a [GLOBAL] section, one with a [run] section, or the
                                                     `extra_config={'GLOBAL': ..}` of the API constructor DoitMain(...)

The other parts of this check give `continue` on the command line / through extra_config only.  Here every case says,
for each of the three options, what each of the three places says about it (nothing / a value), crossed with DAGs with
shared dependencies (diamonds, groups with sub-tasks, shared setup-tasks, file_dep on another task's target), failing
tasks, the three runners and the three ways to select (names on the command line, `default_tasks` in DOIT_CONFIG, nothing).

Every case is ONE real run through the command line entry point, in-process, in a fresh directory:
    DoitMain(ModuleTaskLoader(<namespace built from the case: DOIT_CONFIG + task-creators>), config_filenames=['doit.cfg'],
             extra_config={'GLOBAL': {reporter: <recording instance>, verbosity: 0, ..}}).run(['run', '--db-file', <fresh>, ..])
Observed: the exit code / exception, every reporter callback, one line per action execution appended to a file by the
action itself (worker processes are seen too), and the keyword arguments the `run` command's `_execute` received
(a sub-class of doit.cmd_run.Run installed through DoitMain.DOIT_CMDS whose _execute records and calls the original).

ORACLE (from the declared case only; no doit code, no model):
  effective continue = what the command line says if it says something, else what DOIT_CONFIG says, else what the tool
                       configuration says, else off.  DOIT_CONFIG and the tool configuration DISAGREEING (and the command
                       line silent) is not judged for completeness: which of the two wins is no part of the property.
  selection  = the names on the command line, else `default_tasks` of DOIT_CONFIG, else every task;
  closure    = selection closed under task_dep, group -> sub-tasks, file_dep -> producer; full = closure + setup-tasks.
  Always: nobody runs twice / is reported twice; nothing outside `full` is processed; the run does not raise.
  No task of `full` fails: every task of `full` gets exactly one final report and its actions run exactly once.
  Some task fails and continue is effective: every task of the closure gets exactly one final report, and every task of
  the closure that does not (transitively: task_dep, sub-tasks, file_dep producer, setup-task) depend on a failing task
  has its actions run exactly once.  Without effective continue the run is legitimately cut short.

MODEL (Model/RunConfig.v on the DefaultUpdate of Model/CmdParse.v): `enc_run_cfg (execute_params K (parsed (overlay hard file)
cli) dodo)` = [continue_; num_process; par_type] as received by _execute.  Keys 0 continue, 1 num_process, 2 par_type,
3 continue_ ; values VBool / VInt (par_type: 0 process, 1 thread).  Encoding of a value: None -> -1, bool -> 0/1, int -> itself,
anything else -> -2; a run refused before _execute -> [97]; _execute never reached for another reason -> [96].
"""
import functools, io, json, os, shutil, sys, time
import common
import c02_api
from c02_api import blank, Rec, FINALS

PRE = 'From DoitV Require Import Base CmdParse RunConfig.\nOpen Scope N_scope.\n'
WORDS = c02_api.WORDS
K = dict(cont=0, num_process=1, par_type=2, cont_=3)
PAR = {'process': 0, 'thread': 1}
FILE_KINDS = ('ini-global', 'ini-run', 'extra')
HARD = {'continue': False, 'num_process': 0, 'par_type': 'process'}          # doit/cmd_run.py 50-104: the declared defaults


# ------------------------------------------------------------------------------------------------ cases
def gen_tasks(rng, deep):
    nunits = rng.choice([3, 3, 4, 4, 5, 6] + ([7, 8] if deep else []))
    units = rng.sample(WORDS, nunits)
    rank = {u: r for r, u in enumerate(rng.sample(units, nunits))}     # dependencies go to units of HIGHER rank only
    tasks = []
    for u in units:
        if rng.random() < 0.25:
            tasks.append(blank(u, is_group=True))
            for s in rng.sample(['a', 'b', 'c'], rng.choice([1, 2, 2, 3])):
                tasks.append(blank('%s:%s' % (u, s), group=u))
        else:
            tasks.append(blank(u))
    unit_of = lambda t: t['group'] or t['name']
    leaves = [t for t in tasks if not t['is_group']]
    for t in leaves:
        if rng.random() < 0.3:
            t['targets'] = [t['name'].replace(':', '_') + '.out']
    top = max(rank.values())
    hubs = [t for t in tasks if rank[unit_of(t)] == top]
    hub = rng.choice(hubs)['name'] if hubs else None
    for t in leaves:
        later = [x for x in tasks if rank[unit_of(x)] > rank[unit_of(t)]]
        if not later:
            continue
        if rng.random() < 0.45:
            t['task_dep'] = sorted({x['name'] for x in rng.sample(later, min(len(later), rng.choice([1, 1, 2])))})
        if rng.random() < 0.2:
            t['setup'] = [rng.choice(later)['name']]
        prod = [x for x in later if x['targets']]
        if prod and rng.random() < 0.3:
            t['file_dep'] = list(rng.choice(prod)['targets'])
        if hub and hub in [x['name'] for x in later]:
            r = rng.random()
            if r < 0.3 and hub not in t['task_dep']:
                t['task_dep'] = t['task_dep'] + [hub]                 # shared dependency (diamonds)
            elif r < 0.4 and hub not in t['setup']:
                t['setup'] = t['setup'] + [hub]                       # shared setup-task
    return tasks


def gen_sources(rng, kind):
    """what each place says about one option -> dict(cli=.., dodo=.., file=None | [kind, value])"""
    if kind == 'cont':
        vals = [True, True, False]
        cli = rng.choice([None, None, None, None, True, False])
    elif kind == 'num_process':
        vals = [0, 2, 2, 3]
        cli = rng.choice([None, None, None, 0, 2, 3])
    else:
        vals = ['thread', 'thread', 'process']
        cli = rng.choice([None, None, None, 'thread', 'process'])
    r = rng.random()
    dodo = rng.choice(vals) if r < 0.45 else None
    fl = [rng.choice(FILE_KINDS), rng.choice(vals)] if rng.random() < 0.35 else None
    return dict(cli=cli, dodo=dodo, file=fl)


def gen_case(rng, deep=False):
    tasks = gen_tasks(rng, deep)
    names = [t['name'] for t in tasks]
    leaves = [t for t in tasks if not t['is_group']]
    how = rng.choice(['cli', 'cli', 'cli', 'default_tasks', 'default_tasks', 'all'])
    sel = rng.sample(names, min(len(names), rng.choice([1, 2, 2, 3, 3, 4]))) if how != 'all' else []
    if rng.random() < 0.8:
        for t in rng.sample(leaves, min(len(leaves), rng.choice([1, 1, 2]))):
            t['outcome'] = 'fail'
    return dict(part='cfg', tasks=tasks, how=how, sel=sel, cont=gen_sources(rng, 'cont'),
                num_process=gen_sources(rng, 'num_process'), par_type=gen_sources(rng, 'par_type'))


def src(cli=None, dodo=None, file=None):
    return dict(cli=cli, dodo=dodo, file=file)


def scripted():
    """every seed, both tiers: each way to request continue x each way to pick the runner x each way to select, over a
    table with a failing task in front of independent tasks, a diamond, a group, a shared setup-task and a target"""
    def table():
        return [blank('fetch', outcome='fail'),
                blank('build', task_dep=['fetch']),
                blank('stage', targets=['stage.out']),
                blank('pack', task_dep=['stage'], setup=['env']),
                blank('deploy', task_dep=['stage'], file_dep=['stage.out']),
                blank('docs', is_group=True), blank('docs:a', group='docs', setup=['env']), blank('docs:b', group='docs', task_dep=['fetch']),
                blank('env'),
                blank('lint')]
    conts = [src(cli=True), src(dodo=True), src(file=['ini-global', True]), src(file=['ini-run', True]), src(file=['extra', True]),
             src(cli=True, dodo=False), src(cli=False, dodo=True), src(dodo=True, file=['ini-global', True]),
             src(dodo=True, file=['extra', False]), src(dodo=False), src()]
    runners = [(src(), src()), (src(cli=2), src(cli='thread')), (src(dodo=2), src(dodo='thread')),
               (src(file=['ini-global', 2]), src(dodo='thread')), (src(cli=2), src()), (src(dodo=2), src(file=['ini-run', 'process']))]
    sels = [('all', []), ('cli', ['build', 'pack', 'deploy', 'docs', 'lint']), ('default_tasks', ['docs', 'build', 'deploy', 'pack', 'lint'])]
    cases = []
    for i, c in enumerate(conts):
        for j, (n, p) in enumerate(runners):
            how, sel = sels[(i + j) % 3]
            cases.append(dict(part='cfg', tasks=table(), how=how, sel=list(sel), cont=dict(c), num_process=dict(n), par_type=dict(p)))
    return cases


# ------------------------------------------------------------------------------------------------ the real run
def namespace(case, logf):
    ns = c02_api.namespace(case, logf)
    cfg = {}
    for opt, key in (('continue', 'cont'), ('num_process', 'num_process'), ('par_type', 'par_type')):
        if case[key]['dodo'] is not None:
            cfg[opt] = case[key]['dodo']
    if case['how'] == 'default_tasks':
        cfg['default_tasks'] = list(case['sel'])
    out = {'DOIT_CONFIG': cfg}
    out.update(ns)
    return out


def cli_args(case, db):
    args = ['run', '--db-file', db]
    c = case['cont']['cli']
    if c is not None:
        args.append('--continue' if c else '--no-continue')
    if case['num_process']['cli'] is not None:
        args += ['-n', str(case['num_process']['cli'])]
    if case['par_type']['cli'] is not None:
        args += ['-P', case['par_type']['cli']]
    if case['how'] == 'cli':
        args += list(case['sel'])
    return args


def file_level(case):
    """-> (text of doit.cfg | None, extra GLOBAL dict)"""
    sect = {'ini-global': [], 'ini-run': []}
    extra = {}
    for opt, key in (('continue', 'cont'), ('num_process', 'num_process'), ('par_type', 'par_type')):
        f = case[key]['file']
        if f is None:
            continue
        if f[0] == 'extra':
            extra[opt] = f[1]
        else:
            sect[f[0]].append('%s = %s' % (opt, f[1]))
    txt = ''
    if sect['ini-global']:
        txt += '[GLOBAL]\n' + '\n'.join(sect['ini-global']) + '\n'
    if sect['ini-run']:
        txt += '[run]\n' + '\n'.join(sect['ini-run']) + '\n'
    return (txt or None), extra


def run_case(case, workdir):
    from doit.doit_cmd import DoitMain
    from doit.cmd_base import ModuleTaskLoader
    from doit.cmd_run import Run
    shutil.rmtree(workdir, ignore_errors=True)
    os.makedirs(workdir)
    logf = os.path.join(workdir, 'actions.log')
    rec = Rec()
    seen = []
    original = Run._execute

    class RecRun(Run):
        name = 'run'                                    # the command name is the lower-cased class name unless given

    @functools.wraps(original)
    def _execute(self, *a, **kw):
        seen.append({k: kw.get(k) for k in ('continue_', 'num_process', 'par_type')})
        return original(self, *a, **kw)
    RecRun._execute = _execute

    class Main(DoitMain):
        DOIT_CMDS = tuple(RecRun if c is Run else c for c in DoitMain.DOIT_CMDS)

    txt, extra = file_level(case)
    glob_cfg = {'verbosity': 0, 'reporter': rec}
    glob_cfg.update(extra)
    obs = dict(result=None, exc=None, msg=None)
    real, cwd = (sys.stdout, sys.stderr), os.getcwd()
    sys.stdout, sys.stderr = io.StringIO(), io.StringIO()
    os.chdir(workdir)
    try:
        try:
            if txt is not None:
                with open('doit.cfg', 'w') as fh:
                    fh.write(txt)
            main = Main(ModuleTaskLoader(namespace(case, logf)), config_filenames=['doit.cfg'], extra_config={'GLOBAL': glob_cfg})
            obs['result'] = main.run(cli_args(case, os.path.join(workdir, 'db')))
        except BaseException as e:                       # noqa: also SystemExit: an observable outcome, not a harness crash
            obs['exc'] = type(e).__name__
            obs['msg'] = str(e)[:300]
    finally:
        os.chdir(cwd)
        printed = sys.stderr.getvalue()[-300:] if isinstance(sys.stderr, io.StringIO) else ''
        sys.stdout, sys.stderr = real
    obs['stderr'] = printed
    obs['events'] = rec.ev
    obs['execute_got'] = seen
    log = []
    if os.path.exists(logf):
        for line in open(logf).read().split('\n'):
            if line:
                log.append(json.loads(line))
    obs['log'] = log
    shutil.rmtree(workdir, ignore_errors=True)
    return obs


# ------------------------------------------------------------------------------------------------ the oracle
def effective(s, default):
    """what one option is, from what the three places say -> (value, judged)"""
    if s['cli'] is not None:
        return s['cli'], True
    if s['dodo'] is not None:
        return s['dodo'], (s['file'] is None or s['file'][1] == s['dodo'])
    if s['file'] is not None:
        return s['file'][1], True
    return default, True


def expectation(case):
    T = {t['name']: t for t in case['tasks']}
    order = [t['name'] for t in case['tasks']]
    producer = {f: t['name'] for t in case['tasks'] for f in t['targets']}
    subs = {g: [t['name'] for t in case['tasks'] if t['group'] == g] for g in order if T[g]['is_group']}
    selection = list(case['sel']) if case['how'] != 'all' else list(order)

    def deps(n, with_setup):
        t = T[n]
        return t['task_dep'] + [producer[f] for f in t['file_dep'] if f in producer] + subs.get(n, []) + (t['setup'] if with_setup else [])

    def close(start, with_setup):
        seen, todo = set(), list(start)
        while todo:
            n = todo.pop()
            if n not in seen:
                seen.add(n)
                todo += deps(n, with_setup)
        return seen
    cont, judged = effective(case['cont'], False)
    full = close(selection, True)
    failing = sorted(n for n in full if T[n]['outcome'] == 'fail')
    tainted = {n for n in full if any(T[x]['outcome'] == 'fail' for x in close([n], True))}
    return dict(selection=selection, closure=close(selection, False), full=full, cont=bool(cont), cont_judged=judged,
                failing=failing, independent=full - tainted)


def sources_txt(case):
    def one(key, opt):
        s = case[key]
        bits = []
        if s['cli'] is not None:
            bits.append('command line %r' % (s['cli'],))
        if s['dodo'] is not None:
            bits.append('DOIT_CONFIG %r' % (s['dodo'],))
        if s['file'] is not None:
            bits.append('%s %r' % ({'ini-global': 'doit.cfg [GLOBAL]', 'ini-run': 'doit.cfg [run]', 'extra': 'extra_config GLOBAL'}[s['file'][0]], s['file'][1]))
        return '%s: %s' % (opt, ', '.join(bits) or 'nowhere')
    return '; '.join(one(k, o) for k, o in (('cont', 'continue'), ('num_process', 'num_process'), ('par_type', 'par_type')))


def judge(case, obs):
    exp = expectation(case)
    T = {t['name']: t for t in case['tasks']}
    ev, log = obs['events'], obs['log']
    ran = [l[0] for l in log]
    touched = [e[1] for e in ev if e[0] in ('status', 'exec') + FINALS] + ran
    cmd = 'doit %s [%s]' % (' '.join(a for a in cli_args(case, 'DB')), sources_txt(case))
    if case['how'] == 'default_tasks':
        cmd += ' default_tasks=%s' % case['sel']
    bad = []
    if obs['exc'] is not None:
        bad.append(('cfg-run-raised', '%s: %s escaped from DoitMain.run (%s); processed so far: %s' % (cmd, obs['exc'], obs['msg'], sorted(set(touched)))))
    elif obs['result'] == 3 and not obs['execute_got']:
        bad.append(('cfg-run-refused', '%s: the run was refused (exit 3) before anything ran: %s' % (cmd, obs['stderr'][-200:])))
        return bad, exp
    full, closure = exp['full'], exp['closure']
    finals = {}
    for e in ev:
        if e[0] in FINALS:
            finals.setdefault(e[1], []).append(e[0])
    sel_txt = 'selection %s (dependency closure %s)' % (exp['selection'], sorted(full))
    for n in sorted(set(ran)):
        if ran.count(n) > 1:
            bad.append(('cfg-exec-twice', "%s: the actions of task '%s' ran %d times" % (cmd, n, ran.count(n))))
    for n, fs in sorted(finals.items()):
        if len(fs) > 1:
            bad.append(('cfg-two-final-reports', "%s: task '%s' got %d final reports %s" % (cmd, n, len(fs), fs)))
    outside = sorted(set(touched) - full)
    if outside:
        bad.append(('cfg-outside-closure', '%s: %s; processed although outside the closure: %s' % (cmd, sel_txt, outside)))
    if not exp['failing']:
        for n in sorted(full):
            want_exec = 0 if T[n]['is_group'] else 1
            if ran.count(n) != want_exec or len(finals.get(n, [])) != 1:
                bad.append(('cfg-closure-task-not-processed',
                            "%s: %s; every action succeeds, fresh DB, exit %s: task '%s' is in the closure but its actions ran %d time(s) "
                            "and it got %d final report(s)" % (cmd, sel_txt, obs['result'], n, ran.count(n), len(finals.get(n, [])))))
                break
    elif exp['cont'] and exp['cont_judged'] and obs['exc'] is None:
        for n in sorted(closure):
            if len(finals.get(n, [])) != 1:
                bad.append(('cfg-continue-task-not-processed',
                            "%s: continue is requested, %s; failing %s: task '%s' of the closure got %d final report(s) -- the run was cut short "
                            "although continue is on (processed: %s)" % (cmd, sel_txt, exp['failing'], n, len(finals.get(n, [])), sorted(finals))))
                break
        else:
            for n in sorted(closure & exp['independent']):
                if not T[n]['is_group'] and ran.count(n) != 1:
                    bad.append(('cfg-continue-independent-task-not-executed',
                                "%s: continue is requested, %s; failing %s: task '%s' depends on no failing task but its actions ran %d time(s)"
                                % (cmd, sel_txt, exp['failing'], n, ran.count(n))))
                    break
    return bad, exp


# ------------------------------------------------------------------------------------------------ the model side
def coq_val(v):
    if v is None:
        return 'VNone'
    if isinstance(v, bool):
        return '(VBool %s)' % ('true' if v else 'false')
    if isinstance(v, int):
        return '(VInt %d)' % v
    return '(VInt %d)' % PAR[v]


def coq_case(case):
    opts = (('cont', 'continue'), ('num_process', 'num_process'), ('par_type', 'par_type'))
    hard = '[%s]' % '; '.join('(%d, %s)' % (K[k], coq_val(HARD[o])) for k, o in opts)
    fl = '[%s]' % '; '.join('(%d, %s)' % (K[k], coq_val(case[k]['file'][1])) for k, o in opts if case[k]['file'] is not None)
    cli = '[%s]' % '; '.join('(%d, %s)' % (K[k], coq_val(case[k]['cli'])) for k, o in opts if case[k]['cli'] is not None)
    dodo = '[%s]' % '; '.join('(%d, %s)' % (K[k], coq_val(case[k]['dodo'])) for k, o in opts if case[k]['dodo'] is not None)
    return 'enc_run_cfg (execute_params %d %d (parsed (overlay %s %s) %s) %s)' % (K['cont'], K['cont_'], hard, fl, cli, dodo)


def enc(v):
    if v is None:
        return -1
    if isinstance(v, bool):
        return 1 if v else 0
    if isinstance(v, int):
        return v
    return PAR.get(v, -2) if isinstance(v, str) else -2


def encode_obs(obs):
    if not obs['execute_got']:
        return [97] if obs['result'] == 3 else [96]
    g = obs['execute_got'][0]
    return [enc(g['continue_']), enc(g['num_process']), enc(g['par_type'])]


# ------------------------------------------------------------------------------------------------ the part
def describe(case, obs, exp=None):
    txt, extra = file_level(case)
    d = dict(part='cfg', tasks=case['tasks'], how=case['how'], sel=case['sel'], cont=case['cont'], num_process=case['num_process'], par_type=case['par_type'],
             call=dict(argv=cli_args(case, '<fresh db>'), DOIT_CONFIG=namespace(dict(case, tasks=[]), '')['DOIT_CONFIG'], doit_cfg=txt, extra_config_GLOBAL=extra),
             observed=dict(result=obs['result'], exception=obs['exc'], message=obs['msg'], stderr=obs.get('stderr'), execute_received=obs['execute_got'],
                           reporter_events=[e for e in obs['events'] if e[0] != 'init'], action_log=obs['log']))
    if exp is not None:
        d['expected'] = dict(selection=exp['selection'], closure=sorted(exp['closure']), closure_with_setup_tasks=sorted(exp['full']),
                             continue_effective=exp['cont'], continue_judged=exp['cont_judged'], failing=exp['failing'],
                             independent_of_failures=sorted(exp['independent']))
    return d


def where(s):
    return '+'.join([p if p != 'file' else s['file'][0] for p in ('cli', 'dodo', 'file') if s[p] is not None]) or 'nowhere'


def cfg_part(ctx, out):
    base = ctx.subdir('cfg')
    t0 = time.time()
    fixed = scripted()
    todo = fixed + [gen_case(ctx.rng, deep=not ctx.quick) for _ in range(ctx.n(110, 3000))]
    cases, n_viol = [], 0
    for idx, case in enumerate(todo):
        try:
            obs = run_case(case, os.path.join(base, 'c%d' % idx))
        except Exception as e:                                         # harness-level trouble shows up as an outcome
            obs = dict(result=None, exc='HARNESS:' + type(e).__name__, msg=str(e)[:300], events=[], log=[], stderr='', execute_got=[])
        bad, exp = judge(case, obs)
        out.count('cfg:continue-from:' + where(case['cont']))
        out.count('cfg:num_process-from:' + where(case['num_process']))
        out.count('cfg:par_type-from:' + where(case['par_type']))
        out.count('cfg:selection-from:' + case['how'])
        got = obs['execute_got'][0] if obs['execute_got'] else {}
        runner = 'serial' if not got.get('num_process') else str(got.get('par_type'))
        out.count('cfg:runner:' + runner)
        out.count('cfg:%s' % ('exc-' + str(obs['exc']) if obs['exc'] else 'rc%s' % obs['result']))
        kind = 'no-failure' if not exp['failing'] else ('failure:' + ('continue-unjudged' if not exp['cont_judged'] else ('continue' if exp['cont'] else 'cut-short-legit')))
        out.count('cfg:oracle:' + kind)
        out.evaluations += 1
        if exp['failing'] and exp['cont'] and exp['cont_judged'] and len(exp['closure']) > len(exp['failing']):
            out.nontrivial.add(('cfg', where(case['cont']), runner, case['how'], tuple(sorted(exp['full'])), tuple(exp['failing'])))
        for shape, what in bad:
            n_viol += 1
            out.violations.append(dict(what=what, shape='c02:' + shape, case=describe(case, obs, exp)))
        cases.append(dict(model=coq_case(case), expected=encode_obs(obs), case=case, obs=obs, exp=exp))
    bad = common.compare_with_model(ctx, PRE, cases, tag='cfg')
    out.traces_validated += len(cases)
    for i, m in bad:
        c = cases[i]
        out.mismatches.append(dict(case=describe(c['case'], c['obs'], c['exp']), impl=c['expected'], model=m,
                                   note='[continue_; num_process; par_type (0 process, 1 thread)] as received by Run._execute; None -1, [97] refused, [96] not reached'))
    if cases:
        c = cases[len(fixed) + 1] if len(cases) > len(fixed) + 1 else cases[0]
        out.samples.append(describe(c['case'], c['obs'], c['exp']))
    out.extra['cfg_cases'] = len(cases)
    out.extra['cfg_seconds'] = round(time.time() - t0, 1)
    out.extra['cfg_scripted_cases'] = len(fixed)
    out.extra.setdefault('trusted_base', []).append('independent oracle harness/c02_cfg.py judge/expectation (effective continue, selection and closure from the declared case)')
    out.rule += ('; plus part `cfg`: %d runs through DoitMain(..).run([\'run\', ..]) in which continue / num_process / par_type are each requested on the command line '
                 '(--continue, --no-continue, -n, -P), in DOIT_CONFIG of the dodo module, in doit.cfg [GLOBAL], in doit.cfg [run], in extra_config, in several of them or '
                 'nowhere, and the selection comes from the command line, from default_tasks of DOIT_CONFIG or is empty -- %d scripted (11 ways to request continue x 6 ways '
                 'to pick the runner over a table with a failing task, a diamond, a group, a shared setup-task, a target) and random ones; judged against the effective '
                 'continue / selection / closure computed from the declared case, and what Run._execute received compared with Model/RunConfig.v; non-trivial there = '
                 'distinct (where continue comes from, runner, way to select, closure, failing tasks) with a failing task, continue effective and other tasks in the closure'
                 % (len(cases), len(fixed)))
    return n_viol


def replay_case(ctx, case):
    obs = run_case(case, os.path.join(ctx.subdir('cfg-replay'), 'c'))
    bad, exp = judge(case, obs)
    print(json.dumps(describe(case, obs, exp), indent=1, default=str))
    for shape, what in bad:
        print('VIOLATED c02:%s: %s' % (shape, what))
    return 1 if bad else 0
