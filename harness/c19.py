"""C19 -- runner level: harness/runfam.py (shared run-family correspondence + oracle_c19 on a recording
reporter); reporter level: harness/c19_reporters.py (the built-in reporters through the real command
line against Model/Report.v, + independent oracle), on the same Outcome."""
import runfam, c19_reporters


def run(ctx):
    out = runfam.run_property(ctx, 'C19')
    return c19_reporters.part_reporters(ctx, out)


def replay(ctx, payload):
    if isinstance(payload.get('case'), dict) and payload['case'].get('part') == 'reporters':
        return c19_reporters.replay(ctx, payload)
    print(payload)
    return 0
