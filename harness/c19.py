"""C19 -- runner level: harness/runfam.py (shared run-family correspondence + oracle_c19 on a recording
reporter); reporter level: harness/c19_reporters.py (the built-in reporters through the real command
line against Model/Report.v, + independent oracle); content level: harness/c19_content.py (WHAT the tasks
write / fail with x the encoding of the stream the report goes to: command line + independent oracle, and the
JsonReporter class against Model/JsonText.v), on the same Outcome."""
import json, os, subprocess, sys, tempfile, textwrap
import common, runfam, c19_reporters, c19_content

INTERRUPT_DODO = textwrap.dedent("""
    import sys
    def ok():
        print('out-of-' + 'ok')
        return True
    def bye():
        KIND
    def task_a():
        return {'actions': [ok], 'teardown': [TD_A], 'verbosity': 2}
    def task_b():
        return {'actions': [ACT_B], 'task_dep': ['a'], 'verbosity': 2}
""")
DRIVER = textwrap.dedent("""
    import sys, json
    from doit.doit_cmd import DoitMain
    from doit.cmd_base import ModuleTaskLoader
    import dodo
    o, e = sys.stdout, sys.stderr
    try:
        rc = DoitMain(ModuleTaskLoader(dodo)).run(['run', '--reporter', 'json', '-o', 'doc.json'] + sys.argv[1:])
        how = ['returned', rc]
    except BaseException as x:
        how = ['raised', type(x).__name__]
    same = [sys.stdout is o, sys.stderr is e]
    sys.stdout, sys.stderr = o, e
    json.dump(dict(how=how, restored=same), open('verdict.json', 'w'))
""")


def interrupt_part(ctx, out):
    """the JSON reporter when a run is interrupted (SystemExit / KeyboardInterrupt raised by an action or by a
    teardown action): still exactly one valid document listing every task that was looked at once (the
    interrupted one with result null), sys.stdout/sys.stderr restored, the exception reaches the caller"""
    n = 0
    for kind in ('sys.exit(5)', 'raise KeyboardInterrupt()'):
        for where in ('action', 'teardown'):
            for par in ([], ['-n', '2', '-P', 'thread']):
                d = tempfile.mkdtemp(prefix='c19i_', dir=ctx.tmp); n += 1
                src = (INTERRUPT_DODO.replace('KIND', kind).replace('TD_A', 'bye' if where == 'teardown' else 'ok')
                       .replace('ACT_B', 'bye' if where == 'action' else 'ok'))
                open(os.path.join(d, 'dodo.py'), 'w').write(src)
                open(os.path.join(d, 'drive.py'), 'w').write(DRIVER)
                env = common.impl_env(); env['PYTHONPATH'] = common.REPO + os.pathsep + d
                try:
                    p = subprocess.run([sys.executable, 'drive.py'] + par, cwd=d, env=env, capture_output=True, text=True, timeout=60)
                    hung = False
                except subprocess.TimeoutExpired:
                    hung = True
                out.evaluations += 1
                case = dict(part='interrupt', dodo=src, args=par, kind=kind, where=where)
                def bad(shape, what):
                    out.violations.append(dict(what=what + ' (%s in a %s, runner args %s, --reporter json)' % (kind, where, par),
                                               shape='c19:json-interrupted-' + shape, case=case))
                if hung:
                    bad('hang', 'run did not terminate'); continue
                try:
                    verdict = json.load(open(os.path.join(d, 'verdict.json')))
                except Exception:
                    bad('driver', 'driver died: %s' % p.stderr[-300:]); continue
                out.count('interrupt:%s:%s:%s' % (where, kind.split('(')[0].split()[-1], verdict['how'][0]))
                if verdict['restored'] != [True, True]:
                    bad('streams', 'sys.stdout/sys.stderr are not the original objects after the run')
                if verdict['how'][0] != 'raised':
                    bad('swallowed', 'the interrupting exception did not reach the caller of DoitMain.run (it %s %s)' % tuple(verdict['how']))
                try:
                    doc = json.load(open(os.path.join(d, 'doc.json')))
                    names = [t['name'] for t in doc['tasks']]
                    if sorted(names) != sorted(set(names)) or 'a' not in names:
                        bad('tasks', 'document lists tasks %s' % names)
                    ra = [t['result'] for t in doc['tasks'] if t['name'] == 'a']
                    if ra != ['success']:
                        bad('result', 'task a succeeded but the document says %s' % ra)
                    rb = [t['result'] for t in doc['tasks'] if t['name'] == 'b']
                    if where == 'action' and rb not in ([None], []):
                        bad('result', 'task b was interrupted but the document says %s' % rb)
                except Exception as x:
                    bad('no-document', 'the output is not a single valid JSON document: %s' % x)
    out.extra['interrupted_json_runs'] = n


def run(ctx):
    out = runfam.run_property(ctx, 'C19')
    out = c19_reporters.part_reporters(ctx, out)
    interrupt_part(ctx, out)
    c19_content.part_content_cli(ctx, out)
    c19_content.part_jsontext(ctx, out)
    return out


def replay(ctx, payload):
    if isinstance(payload.get('case'), dict) and payload['case'].get('part') == 'reporters':
        return c19_reporters.replay(ctx, payload)
    if isinstance(payload.get('case'), dict) and payload['case'].get('part') in ('content', 'jsontext'):
        return c19_content.replay(ctx, payload)
    print(payload)
    return 0
