"""C19 -- see harness/runfam.py (shared run-family correspondence + oracle_c19)."""
import runfam


def run(ctx):
    return runfam.run_property(ctx, 'C19')


def replay(ctx, payload):
    print(payload)
    return 0
