"""C02, part `api`: the selection comes through the API entry point `doit.api.run_tasks(loader, {name: options})`
(custom command lines built on doit) instead of a command line.

The dimension: WHAT THE DICT SAYS about each selected task -- no options (`{}`), `None` instead of a dict, a value
for the task's positional parameter (`pos_arg`) that is absent / None / EMPTY (`[]`, `''`) / non-empty (a list, a
string, the name of another selected task), values for the task's `params` that are falsy / truthy -- crossed with
the position of that task among the keys (first / middle / last), the kind of key (task, group, sub-task
`g:a`, target file, glob pattern, unknown name), shared dependencies (diamonds through task_dep, shared
setup-tasks, file_dep on another task's target, groups with sub-tasks), failing tasks with / without `continue`,
and the three runners (serial, `par_type: thread`, `par_type: process`).

Every case is ONE real run: `run_tasks(ModuleTaskLoader(<namespace of task-creators built from the case>), dict,
extra_config={'GLOBAL': {dep_file: <fresh>, reporter: <recording instance>, num_process, par_type, continue}})`,
in-process, in a fresh directory.  Observed: the value / exception of run_tasks, every reporter callback
(initialize(tasks, selected_tasks), get_status, execute_task, add_success, add_failure, skip_*), and one line per
action execution (task name + the keyword arguments the action received) appended to a file by the action itself
(so that worker processes are seen too).

ORACLE (from the declared case only; no doit code, no model):
  selection  = the keys of the dict in order; a glob key stands for the task names it matches (definition order),
               a target file for its producer; a task declaring pos_arg that gets NO positional value through the
               dict (parameter absent or None) takes the keys after it as its values (documented command line rule:
               "all positional arguments after the task name"), the selection ends with it.  An empty value IS a value.
               An unknown name: the run is refused, nothing may be processed.  An empty dict: every task.
  closure    = selection closed under task_dep, group -> sub-tasks, file_dep -> producer of that target;
  full       = closure closed under setup-tasks as well.
  No task is declared to fail: every task of `full` gets exactly one final report and (if it has actions) its
  actions run exactly once; nothing outside `full` is processed; the run does not raise.
  Some task fails: nobody runs twice / is reported twice, nothing outside `full` is processed, and under `continue`
  every task of the closure still gets exactly one final report (without it the run is legitimately cut short).
  An exception out of run_tasks BEFORE the run started (reporter never initialised, nothing executed) is a refusal:
  not judged by this property (the model says exactly which inputs are refused); after it started it is a violation.
  Not judged: a task named explicitly without positional value after a glob that matched it (doit gives it `()`).

MODEL (Model/ApiSelect.v on Model/Select.v): `enc_api (api_run_select .. dict None table)` must equal what the caller
saw: [0; selected_tasks..] as given to the reporter, [2; f] InvalidCommand(not_found=f), [4] CmdParseError, [5] TypeError
(`{'t': None}` for a task with pos_arg).  The table is written from the DECLARED case (not read off doit's Task
objects): names in definition order (a group before its sub-tasks, task_dep of a group = its sub-tasks), strings interned,
string functions ('*' in s, fnmatch, split(':',1)[0]) tabulated.

Encoding of a dict entry for the model: None -> ANoDict; no `files` key -> AAbsent; files=None -> ANone; else AVal (not bool(value)).
"""
import fnmatch, io, json, os, shutil, sys
import common

PRE = 'From DoitV Require Import Base Select ApiSelect.\nOpen Scope N_scope.\n'
WORDS = ['pack', 'stage', 'deploy', 'lint', 'build', 'docs', 'test', 'sync', 'fetch', 'merge']
POS = 'files'                      # name of the positional parameter of every task that declares one
FINALS = ('ok', 'fail', 'utd', 'ign')


# ------------------------------------------------------------------------------------------------ cases
def blank(name, **kw):
    t = dict(name=name, is_group=False, group=None, task_dep=[], setup=[], file_dep=[], targets=[], pos_arg=False,
             params=False, outcome='ok')
    t.update(kw)
    return t


def gen_case(rng, deep=False):
    nunits = rng.choice([2, 3, 3, 4, 4, 5, 6] + ([7, 8] if deep else []))
    units = rng.sample(WORDS, nunits)
    rank = {u: r for r, u in enumerate(rng.sample(units, nunits))}     # dependencies go to units of HIGHER rank only
    tasks = []
    for u in units:
        if rng.random() < 0.25:
            tasks.append(blank(u, is_group=True))
            for s in rng.sample(['a', 'b', 'c'], rng.choice([1, 2, 2, 3])):
                tasks.append(blank('%s:%s' % (u, s), group=u))
        else:
            tasks.append(blank(u))
    unit_of = lambda t: t['group'] or t['name']
    leaves = [t for t in tasks if not t['is_group']]
    for t in leaves:
        if rng.random() < 0.3:
            t['targets'] = [t['name'].replace(':', '_') + '.out']
        if rng.random() < 0.35:
            t['pos_arg'] = True
        if rng.random() < 0.3:
            t['params'] = True
    if not any(t['pos_arg'] for t in leaves) and rng.random() < 0.85:
        rng.choice(leaves)['pos_arg'] = True
    top = max(rank.values())
    hubs = [t for t in tasks if rank[unit_of(t)] == top and (t['is_group'] or t['group'] is None or rng.random() < 0.5)]
    hub = rng.choice(hubs)['name'] if hubs else None
    for t in leaves:
        later = [x for x in tasks if rank[unit_of(x)] > rank[unit_of(t)]]
        if not later:
            continue
        if rng.random() < 0.5:
            t['task_dep'] = sorted({x['name'] for x in rng.sample(later, min(len(later), rng.choice([1, 1, 2])))})
        if rng.random() < 0.25:
            t['setup'] = [rng.choice(later)['name']]
        prod = [x for x in later if x['targets']]
        if prod and rng.random() < 0.3:
            t['file_dep'] = list(rng.choice(prod)['targets'])
        if hub and hub in [x['name'] for x in later]:
            r = rng.random()
            if r < 0.3 and hub not in t['task_dep']:
                t['task_dep'] = t['task_dep'] + [hub]                 # shared dependency (diamonds)
            elif r < 0.45 and hub not in t['setup']:
                t['setup'] = t['setup'] + [hub]                       # shared setup-task
    cont = False
    if rng.random() < 0.15:
        for t in rng.sample(leaves, min(len(leaves), rng.choice([1, 1, 2]))):
            t['outcome'] = 'fail'
        cont = rng.random() < 0.6
    # ---- the dict
    names = [t['name'] for t in tasks]
    byn = {t['name']: t for t in tasks}
    k = rng.choice([1, 2, 2, 3, 3, 4] + ([5, 6] if deep else []))
    keys = rng.sample(names, min(k, len(names)))
    posn = [n for n in names if byn[n]['pos_arg']]
    if posn and rng.random() < 0.7:
        p = rng.choice(posn)
        keys = [x for x in keys if x != p]
        others = [n for n in names if n != p]
        if not keys and others:
            keys = [rng.choice(others)]
        keys.insert(rng.randrange(0, len(keys)) if keys else 0, p)      # never last when there is another key
    for i in range(len(keys)):
        r = rng.random()
        tg = [f for t in tasks for f in t['targets']]
        new = None
        if r < 0.06 and tg:
            new = rng.choice(tg)
        elif r < 0.12:
            new = rng.choice([rng.choice(names)[:2] + '*', '*:a', '*', rng.choice(units) + ':*', 'zz*'])
        elif r < 0.15:
            new = rng.choice(['nosuch', rng.choice(units) + ':zz'])
        if new is not None and new not in keys:
            keys[i] = new
    if rng.random() < 0.03:
        keys = []                                                      # an empty dict: no selection, every task runs
    sel = []
    for i, key in enumerate(keys):
        t = byn.get(key)
        if t is None or rng.random() < 0.08:
            sel.append([key, rng.choice([{}, {}, None]) if t is None else None])
            continue
        d = {}
        if t['pos_arg']:
            r = rng.random()
            if r < 0.15:
                pass
            elif r < 0.22:
                d[POS] = None
            elif r < 0.55:
                d[POS] = rng.choice([[], [], ''])
            else:
                d[POS] = rng.choice([['x.txt'], ['a', 'b'], 'foo bar', [rng.choice(keys)]])
        if t['params']:
            r = rng.random()
            if r < 0.6:
                d['flag'] = r < 0.3
            r = rng.random()
            if r < 0.6:
                d['lvl'] = '' if r < 0.3 else 'hi'
        sel.append([key, d])
    flavour = rng.choice(['serial', 'serial', 'thread', 'proc'])
    return dict(part='api', tasks=tasks, sel=sel, flavour=flavour, nproc=rng.choice([2, 2, 3]), cont=cont)


def scripted():
    """every seed, both tiers: a task with pos_arg at every position of the dict x what the dict says about its
    positional value x every runner, over a table with a dependency shared by two selected tasks, a group, a shared
    setup-task and a target"""
    def table():
        return [blank('pack', pos_arg=True, params=True, task_dep=['stage']),
                blank('stage', targets=['stage.out']),
                blank('deploy', task_dep=['stage'], setup=['env']),
                blank('docs', is_group=True), blank('docs:a', group='docs', setup=['env']), blank('docs:b', group='docs', pos_arg=True),
                blank('env'),
                blank('other')]
    values = ['absent', None, [], '', ['x.txt'], ['deploy'], 'a b', 'nodict']
    cases = []
    for fl in ('serial', 'thread', 'proc'):
        for v in values:
            for pos in (0, 1, 2):
                keys = ['deploy', 'docs']
                keys.insert(pos, 'pack')
                sel = []
                for kname in keys:
                    if kname != 'pack':
                        sel.append([kname, {}])
                    elif v == 'nodict':
                        sel.append([kname, None])
                    elif v == 'absent':
                        sel.append([kname, {'flag': False}])
                    else:
                        sel.append([kname, {POS: v, 'lvl': ''}])
                cases.append(dict(part='api', tasks=table(), sel=sel, flavour=fl, nproc=2, cont=False))
        # a sub-task with pos_arg, an empty value, followed by a group / by a target / by a glob
        for v in ([], '', ['x']):
            for nxt in ('docs', 'stage.out', 'de*', 'env'):
                cases.append(dict(part='api', tasks=table(), sel=[['docs:b', {POS: v}], [nxt, {}]], flavour=fl, nproc=2, cont=False))
        # two tasks with pos_arg, both with empty values, a failing shared dependency with / without continue
        for cont in (False, True):
            tb = table()
            tb[1]['outcome'] = 'fail'
            cases.append(dict(part='api', tasks=tb, sel=[['pack', {POS: []}], ['docs:b', {POS: ''}], ['deploy', None], ['other', {}]],
                              flavour=fl, nproc=2, cont=cont))
    return cases


# ------------------------------------------------------------------------------------------------ the real run
class Rec:
    """recording reporter (an instance is accepted wherever a reporter class is)"""
    desc = 'recording'

    def __init__(self):
        self.ev = []

    def initialize(self, tasks, selected_tasks):
        self.ev.append(['init', list(tasks), list(selected_tasks)])

    def get_status(self, task):
        self.ev.append(['status', task.name])

    def execute_task(self, task):
        self.ev.append(['exec', task.name])

    def add_failure(self, task, fail_info):
        self.ev.append(['fail', task.name])

    def add_success(self, task):
        self.ev.append(['ok', task.name])

    def skip_uptodate(self, task):
        self.ev.append(['utd', task.name])

    def skip_ignore(self, task):
        self.ev.append(['ign', task.name])

    def cleanup_error(self, exception):
        self.ev.append(['cleanup_error', str(exception)[:200]])

    def runtime_error(self, msg):
        self.ev.append(['runtime_error', str(msg)[:200]])

    def teardown_task(self, task):
        self.ev.append(['teardown', task.name])

    def complete_run(self):
        self.ev.append(['complete'])


def make_creator(spec, subs, logf):
    """ONE `def` for every task-creator: the loader orders creators by the line of their definition, so the order of
    the namespace dict is the definition order"""
    def action_for(t):
        def act(**kw):
            for f in t['targets']:
                with open(f, 'w') as fh:
                    fh.write('x')
            with open(logf, 'a') as fh:
                fh.write(json.dumps([t['name'], kw], sort_keys=True, default=repr) + '\n')
            return t['outcome'] != 'fail'
        return act

    def as_dict(t, sub):
        d = {'actions': [action_for(t)], 'verbosity': 0}
        for f in ('task_dep', 'setup', 'file_dep', 'targets'):
            if t[f]:
                d[f] = list(t[f])
        if t['pos_arg']:
            d['pos_arg'] = POS
        if t['params']:
            d['params'] = [{'name': 'flag', 'short': 'f', 'type': bool, 'default': False},
                           {'name': 'lvl', 'long': 'lvl', 'type': str, 'default': 'd'}]
        if sub:
            d['name'] = t['name'].split(':', 1)[1]
        return d

    def gen():
        for s in subs:
            yield as_dict(s, True)

    def creator():
        return gen() if spec['is_group'] else as_dict(spec, False)
    return creator


def namespace(case, logf):
    ns = {}
    for t in case['tasks']:
        if t['group'] is None:
            subs = [s for s in case['tasks'] if s['group'] == t['name']]
            ns['task_' + t['name']] = make_creator(t, subs, logf)
    return ns


def run_case(case, workdir):
    """-> dict(result=<int> | None, exc=<class name> | None, not_found=.., events=[..], log=[[task, kwargs], ..])"""
    from doit.api import run_tasks
    from doit.cmd_base import ModuleTaskLoader
    shutil.rmtree(workdir, ignore_errors=True)
    os.makedirs(workdir)
    logf = os.path.join(workdir, 'actions.log')
    rec = Rec()
    glob_cfg = {'dep_file': os.path.join(workdir, 'db'), 'verbosity': 0, 'reporter': rec}
    if case['flavour'] != 'serial':
        glob_cfg.update(num_process=case['nproc'], par_type={'thread': 'thread', 'proc': 'process'}[case['flavour']])
    if case['cont']:
        glob_cfg['continue'] = True
    sel = {k: (dict(o) if isinstance(o, dict) else o) for k, o in case['sel']}
    obs = dict(result=None, exc=None, not_found=None, msg=None)
    real, cwd = (sys.stdout, sys.stderr), os.getcwd()
    sys.stdout, sys.stderr = io.StringIO(), io.StringIO()
    os.chdir(workdir)
    try:
        try:
            obs['result'] = run_tasks(ModuleTaskLoader(namespace(case, logf)), sel, extra_config={'GLOBAL': glob_cfg})
        except BaseException as e:                       # noqa: also SystemExit: an observable outcome, not a harness crash
            obs['exc'] = type(e).__name__
            obs['not_found'] = getattr(e, 'not_found', None)
            obs['msg'] = str(e)[:300]
    finally:
        os.chdir(cwd)
        printed = sys.stderr.getvalue()[-300:] if isinstance(sys.stderr, io.StringIO) else ''
        sys.stdout, sys.stderr = real
    obs['stderr'] = printed
    obs['events'] = rec.ev
    log = []
    if os.path.exists(logf):
        for line in open(logf).read().split('\n'):
            if line:
                log.append(json.loads(line))
    obs['log'] = log
    shutil.rmtree(workdir, ignore_errors=True)
    return obs


# ------------------------------------------------------------------------------------------------ the oracle
def pos_given(opts):
    return isinstance(opts, dict) and opts.get(POS) is not None


def expectation(case):
    """from the declared case alone -> dict(kind='run'|'refuse'|'unjudged', selection, closure, full, values, may_refuse)"""
    T = {t['name']: t for t in case['tasks']}
    order = [t['name'] for t in case['tasks']]
    producer = {f: t['name'] for t in case['tasks'] for f in t['targets']}
    subs = {g: [t['name'] for t in case['tasks'] if t['group'] == g] for g in order if T[g]['is_group']}
    may_refuse = any(k in T and T[k]['pos_arg'] and o is None for k, o in case['sel'])
    selection, values, globbed = [], None, set()
    if not case['sel']:
        selection = list(order)                       # nothing selected and no default_tasks: all tasks
    for i, (key, opts) in enumerate(case['sel']):
        if '*' in key:
            m = [n for n in order if fnmatch.fnmatch(n, key)]
            selection += m
            globbed |= set(m)
        elif key in T:
            selection.append(key)
            if T[key]['pos_arg'] and not pos_given(opts):
                if key in globbed:
                    return dict(kind='unjudged', may_refuse=may_refuse)
                values = [k for k, _ in case['sel'][i + 1:]]
                break
        elif key in producer:
            selection.append(producer[key])
        else:
            return dict(kind='refuse', unknown=key, may_refuse=may_refuse)

    def close(start, with_setup):
        seen, todo = set(), list(start)
        while todo:
            n = todo.pop()
            if n in seen:
                continue
            seen.add(n)
            t = T[n]
            todo += t['task_dep'] + [producer[f] for f in t['file_dep'] if f in producer] + subs.get(n, [])
            if with_setup:
                todo += t['setup']
        return seen
    return dict(kind='run', selection=selection, closure=close(selection, False), full=close(selection, True),
                values=values, may_refuse=may_refuse)


def judge(case, obs):
    """-> list of (shape, what)"""
    exp = expectation(case)
    T = {t['name']: t for t in case['tasks']}
    ev, log = obs['events'], obs['log']
    started = any(e[0] == 'init' for e in ev)
    ran = [l[0] for l in log]
    touched = [e[1] for e in ev if e[0] in ('status', 'exec') + FINALS] + ran
    dict_txt = 'run_tasks(loader, {%s})' % ', '.join('%r: %r' % (k, o) for k, o in case['sel'])
    bad = []
    if obs['exc'] is not None and not started:
        if touched:
            bad.append(('api-refused-but-ran', '%s raised %s but tasks were processed: %s' % (dict_txt, obs['exc'], sorted(set(touched)))))
        return bad, exp                               # a refusal before the run: not judged here (model: which inputs are refused)
    if exp['kind'] == 'refuse':
        if touched:
            bad.append(('api-unknown-name-ran', '%s: %r is no task and no target, yet tasks were processed: %s'
                        % (dict_txt, exp['unknown'], sorted(set(touched)))))
        return bad, exp
    if exp['kind'] == 'unjudged':
        return bad, exp
    if obs['exc'] is not None:
        bad.append(('api-run-aborted', '%s: %s escaped from run_tasks after the run had started (%s); processed so far: %s'
                    % (dict_txt, obs['exc'], obs['msg'], sorted(set(touched)))))
    full, closure = exp['full'], exp['closure']
    finals = {}
    for e in ev:
        if e[0] in FINALS:
            finals.setdefault(e[1], []).append(e[0])
    recv = {l[0]: l[1].get(POS) for l in log if T.get(l[0], {}).get('pos_arg')}
    hint = ''
    if recv:
        hint = '; positional values received: %s' % ', '.join('%s=%r' % kv for kv in sorted(recv.items()))
    sel_txt = 'selection %s (dependency closure %s)' % (exp['selection'], sorted(full))
    for n in sorted(set(ran)):
        if ran.count(n) > 1:
            bad.append(('api-exec-twice', "%s: the actions of task '%s' ran %d times" % (dict_txt, n, ran.count(n))))
    for n, fs in sorted(finals.items()):
        if len(fs) > 1:
            bad.append(('api-two-final-reports', "%s: task '%s' got %d final reports %s" % (dict_txt, n, len(fs), fs)))
    outside = sorted(set(touched) - full)
    if outside:
        bad.append(('api-outside-closure', '%s: %s; processed although outside the closure: %s%s' % (dict_txt, sel_txt, outside, hint)))
    failing = [n for n in full if T[n]['outcome'] == 'fail']
    if not failing:
        for n in sorted(full):
            want_exec = 0 if T[n]['is_group'] else 1
            if ran.count(n) != want_exec or len(finals.get(n, [])) != 1:
                bad.append(('api-closure-task-not-processed',
                            "%s: %s; every action succeeds, fresh DB, exit %s: task '%s' is in the closure but its actions ran %d time(s) "
                            "and it got %d final report(s)%s" % (dict_txt, sel_txt, obs['result'], n, ran.count(n), len(finals.get(n, [])), hint)))
                break
    elif case['cont'] and obs['exc'] is None:
        for n in sorted(closure):
            if len(finals.get(n, [])) != 1:
                bad.append(('api-continue-task-not-processed',
                            "%s with continue: %s; failing %s: task '%s' of the closure got %d final report(s)%s"
                            % (dict_txt, sel_txt, failing, n, len(finals.get(n, [])), hint)))
                break
    return bad, exp


# ------------------------------------------------------------------------------------------------ the model side
class Intern:
    def __init__(self):
        self.ids, self.strs = {}, []

    def __call__(self, s):
        if s not in self.ids:
            self.ids[s] = len(self.strs)
            self.strs.append(s)
        return self.ids[s]


def nl(xs):
    return '[' + '; '.join(str(x) for x in xs) + ']'


def fun1(name, ty, arms, default):
    body = ' '.join('| %d => %s' % (k, v) for k, v in sorted(arms.items()))
    return 'Definition %s (s : name) : %s := match s with %s | _ => %s end.' % (name, ty, body, default)


def fun2(name, ty, arms, default):
    outer = []
    for a, inner in sorted(arms.items()):
        if inner:
            outer.append('| %d => match t with %s | _ => %s end' % (a, ' '.join('| %d => %s' % (b, v) for b, v in sorted(inner.items())), default))
    return 'Definition %s (s t : name) : %s := match s with %s | _ => %s end.' % (name, ty, ' '.join(outer), default)


def aval(t, opts):
    if opts is None:
        return 'ANoDict'
    if POS not in opts:
        return 'AAbsent'
    if opts[POS] is None:
        return 'ANone'
    return '(AVal %s)' % ('false' if opts[POS] else 'true')


def coq_case(case, idx):
    """(defs, expr, I)"""
    I = Intern()
    order = [t['name'] for t in case['tasks']]
    for n in order:
        I(n)
    rows = []
    for t in case['tasks']:
        td = list(t['task_dep'])
        if t['is_group']:
            td = [s['name'] for s in case['tasks'] if s['group'] == t['name']]
        opts = '[(%d, false); (%d, true)]' % (I('-f'), I('--lvl')) if t['params'] else '[]'
        rows.append('(%d, Build_stask %s [] %s [] %s %s %s %s None %s %s)' % (
            I(t['name']), nl(I(x) for x in td), nl(I(x) for x in t['setup']), nl(I(x) for x in t['file_dep']),
            nl(I(x) for x in t['targets']), 'true' if t['is_group'] else 'false',
            'None' if t['group'] is None else '(Some %d)' % I(t['group']), 'true' if t['pos_arg'] else 'false', opts))
    for k, _ in case['sel']:
        I(k)
    for s in list(I.strs):
        I(s.split(':', 1)[0])
    strs = list(I.strs)
    pats = [s for s in strs if '*' in s]
    sfx = '_%d' % idx
    byn = {t['name']: t for t in case['tasks']}
    defs = [
        'Definition tb%s : table := [%s].' % (sfx, '; '.join(rows)),
        fun1('hs' + sfx, 'bool', {I(s): 'true' for s in pats}, 'false'),
        fun2('mt' + sfx, 'bool', {I(p): {I(n): 'true' for n in order if fnmatch.fnmatch(n, p)} for p in pats}, 'false'),
        fun1('bn' + sfx, 'name', {I(s): str(I(s.split(':', 1)[0])) for s in strs if ':' in s}, 's'),
        'Definition rm%s (s t : name) : bool := false.' % sfx,
        'Definition rn%s (s t : name) : name := 9999.' % sfx,
        fun1('ir' + sfx, 'bool', {I(s): 'true' for s in strs if s.startswith('_regex_target')}, 'false'),
        fun1('io' + sfx, 'bool', {I(s): 'true' for s in strs if s.startswith('-')}, 'false'),
    ]
    o = nl('(%d, %s)' % (I(k), aval(byn.get(k), opts)) for k, opts in case['sel'])
    expr = 'enc_api (api_run_select hs{0} mt{0} bn{0} rm{0} rn{0} ir{0} io{0} false false {1} None tb{0})'.format(sfx, o)
    return '\n'.join(defs), expr, I


def encode_obs(obs, I):
    started = any(e[0] == 'init' for e in obs['events'])
    if obs['exc'] is None:
        init = [e for e in obs['events'] if e[0] == 'init']
        return [0] + [I.ids.get(s, 9000) for s in init[0][2]] if init else [96]
    if started:
        return [99]
    if obs['exc'] == 'InvalidCommand' and obs['not_found'] is not None:
        return [2, I.ids.get(obs['not_found'], 9000)]
    return {'CmdParseError': [4], 'TypeError': [5]}.get(obs['exc'], [98])


# ------------------------------------------------------------------------------------------------ the part
def describe(case, obs, exp=None):
    d = dict(part='api', tasks=case['tasks'], sel=case['sel'], flavour=case['flavour'], nproc=case['nproc'], cont=case['cont'],
             call='doit.api.run_tasks(ModuleTaskLoader(ns), {%s}, extra_config={GLOBAL: runner %s%s})' % (
                 ', '.join('%r: %r' % (k, o) for k, o in case['sel']), case['flavour'], ', continue' if case['cont'] else ''),
             observed=dict(result=obs['result'], exception=obs['exc'], message=obs['msg'],
                           selected_tasks_seen_by_reporter=next((e[2] for e in obs['events'] if e[0] == 'init'), None),
                           reporter_events=[e for e in obs['events'] if e[0] != 'init'], action_log=obs['log']))
    if exp is not None and exp.get('kind') == 'run':
        d['expected'] = dict(selection=exp['selection'], closure=sorted(exp['closure']), closure_with_setup_tasks=sorted(exp['full']),
                             positional_values_of_last_selected=exp['values'])
    elif exp is not None:
        d['expected'] = dict(kind=exp['kind'], unknown=exp.get('unknown'))
    return d


def shape_of(case):
    """which part of the input space the case is in (distribution + nontrivial key)"""
    T = {t['name']: t for t in case['tasks']}
    kinds = []
    for i, (k, o) in enumerate(case['sel']):
        last = i == len(case['sel']) - 1
        if k in T and T[k]['pos_arg']:
            if o is None:
                v = 'nodict'
            elif POS not in o:
                v = 'absent'
            elif o[POS] is None:
                v = 'none'
            else:
                v = 'truthy' if o[POS] else 'empty'
            kinds.append('pos-%s-%s' % (v, 'last' if last else 'followed'))
        elif k in T:
            kinds.append('group' if T[k]['is_group'] else ('subtask' if T[k]['group'] else 'task'))
        elif '*' in k:
            kinds.append('glob')
        elif any(k in t['targets'] for t in case['tasks']):
            kinds.append('target')
        else:
            kinds.append('unknown')
    return kinds


def api_part(ctx, out):
    base = ctx.subdir('api')
    todo = scripted() + [gen_case(ctx.rng, deep=not ctx.quick) for _ in range(ctx.n(220, 4000))]
    cases, n_viol = [], 0
    for idx, case in enumerate(todo):
        try:
            obs = run_case(case, os.path.join(base, 'c%d' % idx))
        except Exception as e:                                         # harness-level trouble shows up as an outcome
            obs = dict(result=None, exc='HARNESS:' + type(e).__name__, not_found=None, msg=str(e)[:300], events=[], log=[], stderr='')
        bad, exp = judge(case, obs)
        kinds = shape_of(case)
        for kd in set(kinds) or {'none-empty-dict'}:
            out.count('api:key:' + kd)
        outcome = ('exc-' + str(obs['exc'])) if obs['exc'] else 'rc%s' % obs['result']
        out.count('api:%s:%s' % (case['flavour'], outcome))
        out.count('api:oracle:' + exp['kind'])
        if any(t['outcome'] == 'fail' for t in case['tasks']):
            out.count('api:with-failing-task' + (':continue' if case['cont'] else ''))
        out.evaluations += 1
        if len(case['sel']) >= 2 and any(kd.startswith('pos-') and kd.endswith('followed') for kd in kinds):
            out.nontrivial.add(('api', case['flavour'], tuple(kinds), tuple(sorted(exp.get('full', ()))) ))
        for shape, what in bad:
            n_viol += 1
            out.violations.append(dict(what=what + ' (%s runner)' % case['flavour'], shape='c02:' + shape, case=describe(case, obs, exp)))
        defs, expr, I = coq_case(case, idx)
        cases.append(dict(model=expr, expected=encode_obs(obs, I), defs=defs, case=case, obs=obs, exp=exp))
    bad = common.compare_with_model(ctx, PRE, cases, tag='api')
    out.traces_validated += len(cases)
    for i, m in bad:
        c = cases[i]
        out.mismatches.append(dict(case=describe(c['case'], c['obs'], c['exp']), impl=c['expected'], model=m,
                                   note='[0; selected..] | [2; not found] | [4] parse error | [5] TypeError; ids = position in tasks, then other strings'))
    if cases:
        c = cases[len(scripted()) + 1] if len(cases) > len(scripted()) + 1 else cases[0]
        out.samples.append(describe(c['case'], c['obs'], c['exp']))
    out.extra['api_cases'] = len(cases)
    out.extra['api_scripted_cases'] = len(scripted())
    out.extra.setdefault('trusted_base', []).append('independent oracle harness/c02_api.py judge/expectation (selection and closure from the declared case)')
    out.rule += ('; plus part `api`: %d runs through doit.api.run_tasks(loader, {name: options}) -- %d scripted (a pos_arg task first / middle / last in the dict x '
                 'positional value absent / None / [] / \'\' / non-empty / the name of another key / None instead of a dict x serial, thread, process runner; '
                 'sub-task with pos_arg followed by group / target / glob; failing shared dependency with and without continue) and random ones (2-%d task-creators, '
                 'groups, diamonds, shared setup-tasks, file_dep on targets, params with falsy values, glob / target / unknown keys), judged against the closure computed '
                 'from the declared case and compared with Model/ApiSelect.v; non-trivial there = distinct (runner, kinds of keys, closure) with a pos_arg task '
                 'followed by another key' % (len(cases), len(scripted()), 6 if ctx.quick else 8))
    return n_viol


def replay_case(ctx, case):
    obs = run_case(case, os.path.join(ctx.subdir('api-replay'), 'c'))
    bad, exp = judge(case, obs)
    print(json.dumps(describe(case, obs, exp), indent=1, default=str))
    for shape, what in bad:
        print('VIOLATED c02:%s: %s' % (shape, what))
    return 1 if bad else 0
