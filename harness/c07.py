"""C07 -- all DB backends (JsonDB, DbmDB, SqliteDB) behave as the same persistent key-value map.

Correspondence: the real classes doit.dependency.JsonDB / DbmDB (default dbm module and
module_name='dbm.dumb') / SqliteDB, each with JSONCodec(), are driven through generated operation
sequences on fresh files; everything a caller can observe is compared with Model/Backends.v
evaluated inside Coq (jrun / drun false / qrun false false = the current code).

Operations (python tuple -> Coq constructor), t/k/v are indices into per-case tables of task ids,
keys and values:
    ('S', t, k, v) -> Set_ t k (100+v)     db.set(TASKS[t], KEYS[k], VALS[v])
    ('G', t, k)    -> Get t k              db.get(TASKS[t], KEYS[k])
    ('I', t)       -> In_ t                db.in_(TASKS[t])
    ('D', t)       -> Remove t             db.remove(TASKS[t])
    ('X',)         -> RemoveAll            db.remove_all()
    ('R',)         -> Reopen               db.dump(); db = Class(same file, JSONCodec())
Every sequence is followed by Reopen and then in_ / get of every task id x key (the full logical
content after the last close).

Observation, one integer per operation (= obs_z of the model):
    set/remove/remove_all/reopen returned None -> -2 ; get -> -1 for None, 100+i when the returned
    object is (type- and structure-exactly) VALS[i], 97 for any other object ; in_ -> 0/1 (96 if not
    a bool) ; any exception -> 98.
Independent oracle (out.violations): a plain python dict of dicts run on the same sequence.

Variants of the implementation: the four above and, for the short exhaustive sequences and the random
ones, the same classes driven through doit's Dependency object (_set/_get/_in/remove/remove_all/close).
For transport to Coq a sequence and an observation list are packed into one number each (see PRE);
on a disagreement the sequence is sent again as a literal to fetch the model's answers.

Parts: A exhaustive short sequences, B random long ones (fixed pools of unicode ids / nested values), and two
dimensions that are not about the sequence but about the text that travels through the codec and the file:
  C  STRINGS (c07_strings.py): task ids, keys and the strings inside values drawn class by class (ascii, latin-1,
     BMP, non-BMP, combining, control incl. NUL, separators/BOM, non-characters, JSON/SQL/format meta text, empty,
     long; for keys and values also surrogateescape strings = undecodable file names as os.fsdecode returns them),
     look-alikes side by side in one table.  Oracle = the same dict of dicts: different strings are different
     entries, a value comes back code point for code point, no operation raises.
  D  LOCALE: the same in a child python that is NOT in UTF-8 mode (LC_ALL=C, PYTHONUTF8=0, PYTHONCOERCECLOCALE=0)
     where every session runs under a locale of its own (locale.setlocale before the object is created; open()
     without encoding= follows it): JsonDB keeps its document in a text file.  Model: run_json_text in
     Model/Backends.v, theorem C07_json_locale_independent (hypothesis text_ok = what this part checks).
Both are run on all seven variants and compared with the same Coq models (the strings are indices there).
"""
import concurrent.futures, itertools, json, multiprocessing, os, shutil, subprocess, sys
import common
from common import Outcome

PRE = '''From DoitV Require Import Base Backends.
Open Scope Z_scope.
Definition tail_ops (nt nk : nat) : list op :=
  Reopen :: flat_map (fun t => In_ (N.of_nat t) :: map (fun k => Get (N.of_nat t) (N.of_nat k)) (seq 0 nk)) (seq 0 nt).
(* Sequences and observations travel as single numbers (a list literal costs Coq far more to read than
   the model costs to run).  A sequence of n operations is sum_i idx_i * base^i, idx = position in
   [alphabet nt nk nv] (same order as alphabet() below), base = length of the alphabet. *)
Definition alphabet (nt nk nv : nat) : list op :=
  flat_map (fun t => flat_map (fun k => map (fun v => Set_ (N.of_nat t) (N.of_nat k) (100 + Z.of_nat v)) (seq 0 nv)) (seq 0 nk)) (seq 0 nt)
  ++ flat_map (fun t => map (fun k => Get (N.of_nat t) (N.of_nat k)) (seq 0 nk)) (seq 0 nt)
  ++ map (fun t => In_ (N.of_nat t)) (seq 0 nt) ++ map (fun t => Remove (N.of_nat t)) (seq 0 nt) ++ [RemoveAll; Reopen].
Fixpoint dec_ops (al : list op) (base : Z) (n : nat) (x : Z) : list op :=
  match n with O => [] | S n' => nth (Z.to_nat (x mod base)) al Reopen :: dec_ops al base n' (x / base) end.
(* a list of observations is the base-16 number with leading digit 1 and one digit per observation *)
Definition code (z : Z) : Z :=
  if z =? -2 then 0 else if z =? -1 then 1 else if z =? 0 then 2 else if z =? 1 then 3 else if z =? 98 then 4
  else if z =? 97 then 5 else if z =? 96 then 6 else if (100 <=? z) && (z <? 108) then z - 93 else 15.
Definition enc_obs (l : list Z) : Z := fold_left (fun acc z => acc * 16 + code z) l 1.
(* one sequence with the observations of the implementations: A = all of them observed the same list;
   V = one (model, observation) pair per implementation variant, model 0 = JsonDB, 1 = DbmDB, 2 = SqliteDB *)
Inductive expd := A (e : Z) | V (l : list (Z * Z)).
Definition model_run (b : Z) (o : list op) : list Z :=
  if b =? 0 then jrun o else if b =? 1 then drun false o else qrun false false o.
Definition chk1 (al : list op) (base : Z) (tl : list op) (c : nat * Z * expd) : bool :=
  let o := dec_ops al base (fst (fst c)) (snd (fst c)) ++ tl in
  match snd c with
  | A e => (enc_obs (jrun o) =? e) && (enc_obs (drun false o) =? e) && (enc_obs (qrun false false o) =? e)
  | V l => forallb (fun p => enc_obs (model_run (fst p) o) =? snd p) l
  end.
(* a batch: indices of the sequences on which some backend model disagrees with its implementation *)
Fixpoint chkb (al : list op) (base : Z) (tl : list op) (i : Z) (l : list (nat * Z * expd)) : list Z :=
  match l with
  | [] => []
  | c :: r => if chk1 al base tl c then chkb al base tl (i + 1) r else i :: chkb al base tl (i + 1) r
  end.
Definition check (nt nk nv : nat) (l : list (nat * Z * expd)) : list Z :=
  let al := alphabet nt nk nv in chkb al (Z.of_nat (length al)) (tail_ops nt nk) 0 l.
'''

# implementation variants -> which backend model speaks about them (0 JsonDB, 1 DbmDB, 2 SqliteDB).
# 'Dependency/...' drives the backend the way doit does: through the methods Dependency binds
# (_set, _get, _in, remove, remove_all) and Dependency.close(), the DB class given by name to Dependency.
VARIANTS = ('json', 'dbm', 'dbm.dumb', 'sqlite3')
DEP_VARIANTS = ('Dependency/json', 'Dependency/dbm', 'Dependency/sqlite3')
MODEL_OF = {'json': 0, 'dbm': 1, 'dbm.dumb': 1, 'sqlite3': 2, 'Dependency/json': 0, 'Dependency/dbm': 1, 'Dependency/sqlite3': 2}
# part D runs the same seven in a child process that is not in UTF-8 mode, every session under a locale of its own
LOC = 'locale:'
MODEL_OF.update({LOC + v: m for v, m in list(MODEL_OF.items())})


# ------------------------------------------------------------------ values
def canon(v):
    """injective, type-exact canonical form of a JSON value (bool is not int, 1 is not 1.0)"""
    if isinstance(v, dict):
        return ('d', tuple(sorted((k, canon(x)) for k, x in v.items())))
    if isinstance(v, list):
        return ('l', tuple(canon(x) for x in v))
    return (type(v).__name__, v)


TASK_POOL = ['t1', 'täsk:é', '任务/子', 'a b', 'x:y', 'café ☃', '\U0001f600grp:sub', 'T1']
KEY_POOL = ['k', 'ключ', '_values_:', 'result:', '/tmp/ファイル.txt', 'deps:', 'a"b\\c', 'K', 'ignore:', 'checker:']
VAL_POOL = [
    1, 0, 1.5, True, False, '', 's', 'üß ☃ "q" \\ \n', [], {}, [1, 2, [3, []]],
    {'a': [1, {'b': None}], 'ü': 'ß'}, {'md5': 'd41d8cd98f00b204e9800998ecf8427e', 'ts': 1696071600.25, 'size': 0},
    [None, True, {'x': {}}], ['/tmp/ファイル.txt', 'b.txt'], -7, 10 ** 30, {'k': {'k': {'k': ['deep']}}},
]


# ------------------------------------------------------------------ implementation side
class ViaDependency:
    """the five operations + dump as doit's Dependency object exposes them"""
    def __init__(self, db_class, path):
        from doit.dependency import Dependency
        self.dep = Dependency(db_class, path)

    def set(self, t, k, v):
        return self.dep._set(t, k, v)

    def get(self, t, k):
        return self.dep._get(t, k)

    def in_(self, t):
        return self.dep._in(t)

    def remove(self, t):
        return self.dep.remove(t)

    def remove_all(self):
        return self.dep.remove_all()

    def dump(self):
        return self.dep.close()


def make_db(variant, path):
    from doit.dependency import JsonDB, DbmDB, SqliteDB, JSONCodec
    if variant.startswith('Dependency/'):
        return ViaDependency({'json': JsonDB, 'dbm': DbmDB, 'sqlite3': SqliteDB}[variant.split('/')[1]], path)
    if variant == 'json':
        return JsonDB(path, JSONCodec())
    if variant == 'dbm':
        return DbmDB(path, JSONCodec())
    if variant == 'dbm.dumb':
        return DbmDB(path, JSONCodec(), module_name='dbm.dumb')
    return SqliteDB(path, JSONCodec())


def run_impl(variant, wdir, ops, tasks, keys, vals, cvals, session_hook=None):
    """session_hook(n), if given, is called before the n-th session's object is created (n = 0, 1, ..): part D
    uses it to switch the locale the next session runs under (the object of session n is also dumped under it)"""
    path = os.path.join(wdir, 'db')
    obs = []
    db = None
    session = 0
    try:
        if session_hook:
            session_hook(0)
        db = make_db(variant, path)
    except BaseException:  # noqa
        return [98] * len(ops)
    for o in ops:
        try:
            c = o[0]
            if c == 'S':
                r = db.set(tasks[o[1]], keys[o[2]], vals[o[3]])
                obs.append(-2 if r is None else 97)
            elif c == 'G':
                r = db.get(tasks[o[1]], keys[o[2]])
                if r is None:
                    obs.append(-1)
                else:
                    try:
                        obs.append(100 + cvals.index(canon(r)))
                    except ValueError:
                        obs.append(97)
            elif c == 'I':
                r = db.in_(tasks[o[1]])
                obs.append(int(r) if isinstance(r, bool) else 96)
            elif c == 'D':
                r = db.remove(tasks[o[1]])
                obs.append(-2 if r is None else 97)
            elif c == 'X':
                r = db.remove_all()
                obs.append(-2 if r is None else 97)
            else:
                db.dump()
                session += 1
                if session_hook:
                    session_hook(session)
                db = make_db(variant, path)
                obs.append(-2)
        except BaseException:  # noqa
            obs.append(98)
    try:
        db.dump()
    except BaseException:  # noqa
        pass
    if session_hook:
        session_hook(-1)
    for f in os.listdir(wdir):
        os.unlink(os.path.join(wdir, f))
    return obs


def run_ref(ops, nvals):
    """the property's own yardstick: an in-memory dict task -> {key -> value id}"""
    m, obs = {}, []
    for o in ops:
        c = o[0]
        if c == 'S':
            m.setdefault(o[1], {})[o[2]] = o[3]
            obs.append(-2)
        elif c == 'G':
            v = m.get(o[1], {}).get(o[2])
            obs.append(-1 if v is None else 100 + v)
        elif c == 'I':
            obs.append(int(o[1] in m))
        elif c == 'D':
            m.pop(o[1], None)
            obs.append(-2)
        elif c == 'X':
            m = {}
            obs.append(-2)
        else:
            obs.append(-2)
    return obs


def tail_ops(nt, nk):
    tl = [('R',)]
    for t in range(nt):
        tl.append(('I', t))
        tl += [('G', t, k) for k in range(nk)]
    return tl


def work(job):
    """one chunk of sequences sharing the tables; returns per sequence (ref, {variant: obs} for those != ref)"""
    base, tasks, keys, vals, seqs, variants = job
    common.use_repo()
    wdir = os.path.join(base, 'w%d' % os.getpid())
    os.makedirs(wdir, exist_ok=True)
    cvals = [canon(v) for v in vals]
    tl = tail_ops(len(tasks), len(keys))
    res = []
    for ops in seqs:
        full = list(ops) + tl
        ref = run_ref(full, len(vals))
        diff = {}
        for var in variants:
            ob = run_impl(var, wdir, full, tasks, keys, vals, cvals)
            if ob != ref:
                diff[var] = ob
        res.append((ref, diff))
    return res


# ------------------------------------------------------------------ generators
def alphabet(nt, nk, nv):
    al = [('S', t, k, v) for t in range(nt) for k in range(nk) for v in range(nv)]
    al += [('G', t, k) for t in range(nt) for k in range(nk)]
    al += [('I', t) for t in range(nt)] + [('D', t) for t in range(nt)] + [('X',), ('R',)]
    return al


def is_canonical(seq):
    """ids of tasks, keys and values appear in order of first use (one representative per renaming)"""
    nt = nk = nv = 0
    for o in seq:
        c = o[0]
        if c in ('S', 'G', 'I', 'D'):
            if o[1] > nt:
                return False
            nt = max(nt, o[1] + 1)
        if c in ('S', 'G'):
            if o[2] > nk:
                return False
            nk = max(nk, o[2] + 1)
        if c == 'S':
            if o[3] > nv:
                return False
            nv = max(nv, o[3] + 1)
    return True


def coq_op(o):
    c = o[0]
    if c == 'S':
        return 'Set_ %d %d %d' % (o[1], o[2], 100 + o[3])
    if c == 'G':
        return 'Get %d %d' % (o[1], o[2])
    if c == 'I':
        return 'In_ %d' % o[1]
    if c == 'D':
        return 'Remove %d' % o[1]
    return 'RemoveAll' if c == 'X' else 'Reopen'


def coq_ops(ops):
    return '[' + '; '.join(coq_op(o) for o in ops) + ']'


def zl(xs):
    return '[' + '; '.join(('(%d)' % x if x < 0 else str(x)) for x in xs) + ']'


def code(z):
    return {-2: 0, -1: 1, 0: 2, 1: 3, 98: 4, 97: 5, 96: 6}.get(z, z - 93 if 100 <= z < 108 else 15)


def enc_obs(obs):
    x = 1
    for z in obs:
        x = x * 16 + code(z)
    return x


def enc_ops(ops, idx):
    x, base = 0, len(idx)
    for i, o in enumerate(ops):
        x += idx[o] * base ** i
    return x


def random_seq(rng, nt, nk, nv, n):
    ops = []
    style = rng.choice(['mixed', 'mixed', 'sessions', 'churn'])
    for _ in range(n):
        x = rng.random()
        t, k, v = rng.randrange(nt), rng.randrange(nk), rng.randrange(nv)
        if style == 'sessions':
            cut = [0.35, 0.6, 0.7, 0.78, 0.8]
        elif style == 'churn':
            cut = [0.3, 0.5, 0.6, 0.85, 0.9]
        else:
            cut = [0.4, 0.65, 0.78, 0.9, 0.93]
        if x < cut[0]:
            ops.append(('S', t, k, v))
        elif x < cut[1]:
            ops.append(('G', t, k))
        elif x < cut[2]:
            ops.append(('I', t))
        elif x < cut[3]:
            ops.append(('D', t))
        elif x < cut[4]:
            ops.append(('X',))
        else:
            ops.append(('R',))
    return tuple(ops)


def first_diff_kind(ops, a, b):
    for o, x, y in zip(ops, a, b):
        if x != y:
            return {'S': 'set', 'G': 'get', 'I': 'in_', 'D': 'remove', 'X': 'remove_all', 'R': 'reopen'}[o[0]]
    return 'length'


def compare_with_model(ctx, preamble, cases):
    """common.compare_with_model with the shard size chosen so that every core gets one file (each
    `Eval vm_compute` and each coqc start has a fixed cost far above that of one sequence)"""
    items = [(c.get('defs', ''), 'cmpZ (%s) %s' % (c['model'], common.zlist(c['expected']))) for c in cases]
    shard = max(1, -(-len(items) // common.NCPU))
    outs = common.coq_eval(ctx, preamble, items, shard=shard, tag='corr')
    return [(i, common.parse_zlist(o)) for i, o in enumerate(outs) if o != 'None']


# ------------------------------------------------------------------ part C: what the strings are
def session_seq(rng, nt, nk, nv):
    """a random sequence that (mostly) starts with a record saved by an earlier session -- it has to be there after
    whatever happens later -- and (half of the time) stores every key x value of the tables"""
    pre = []
    if rng.random() < 0.7:
        pre = [('S', rng.randrange(nt), rng.randrange(nk), rng.randrange(nv)), ('R',)]
    body = list(random_seq(rng, nt, nk, nv, rng.choice([3, 6, 10, 16])))
    if rng.random() < 0.5:
        allsets = [('S', rng.randrange(nt), k, v) for k in range(nk) for v in range(nv)]
        rng.shuffle(allsets)
        pos = rng.randint(0, len(body))
        body[pos:pos] = allsets
    return tuple(pre + body)


# look-alike strings side by side, every short sequence over them (see c07_strings.py)
X_TASKS = ['\xe9', 'e\u0301']          # NFC / NFD
X_KEYS = ['caf\udce9.txt', 'caf\xe9.txt']
X_VALS = ['\udce9', {'caf\udce9': ['\udcff\udcfe', '\xe9', '\\udce9'], 'e\u0301': '\x00'}]


def count_strings(out, tasks, keys, vals):
    import c07_strings as S
    for t in tasks:
        out.count('strings:task-id:' + S.classify(t))
    for k in keys:
        out.count('strings:key:' + S.classify(k))
    for v in vals:
        for x in set(S.strings_of(v)):
            out.count('strings:inside-value:' + S.classify(x))


def surrogate_task_probe(base):
    """OUTSIDE the property's domain, recorded not judged: a task id with a lone surrogate (not encodable in UTF-8)"""
    wdir = os.path.join(base, 'probe')
    os.makedirs(wdir, exist_ok=True)
    ops = [('S', 0, 0, 0), ('I', 0), ('G', 0, 0), ('R',), ('I', 0), ('G', 0, 0)]
    ref = run_ref(ops, 1)
    res = {}
    for var in VARIANTS + DEP_VARIANTS:
        ob = run_impl(var, wdir, ops, ['sub:caf\udce9.txt'], ['k'], [1], [canon(1)])
        res[var] = 'answers as the map' if ob == ref else 'differs from the map (98 = raised): %s' % ob
    return res


# ------------------------------------------------------------------ part D: sessions under other locales
LOCALE_CANDIDATES = ['C', 'POSIX', 'C.UTF-8', 'C.utf8', 'en_US.UTF-8', 'en_US.utf8', 'en_US.ISO-8859-1', 'en_US.iso88591',
                     'de_DE.ISO-8859-15', 'de_DE@euro', 'ru_RU.KOI8-R', 'ru_RU.CP1251', 'ja_JP.eucJP', 'ja_JP.SJIS',
                     'zh_CN.GB18030', 'zh_TW.Big5', 'ko_KR.eucKR', 'el_GR.ISO-8859-7', 'tr_TR.ISO-8859-9', 'th_TH.TIS-620']


def child_env():
    """a python that takes the text encoding of open() from the locale: no UTF-8 mode, no locale coercion, LC_ALL=C
    (= what open() does on a POSIX system without a UTF-8 locale, and what it does on Windows with a legacy code page)"""
    e = dict(os.environ)
    for k in list(e):
        if k.startswith('LC_') or k in ('LANG', 'LANGUAGE'):
            del e[k]
    e.update(LC_ALL='C', PYTHONUTF8='0', PYTHONCOERCECLOCALE='0', PYTHONHASHSEED='0', PYTHONIOENCODING='utf-8')
    return e


def start_child(mode, job, jobfile):
    with open(jobfile, 'w', encoding='ascii') as f:
        json.dump(job, f)                           # ensure_ascii: lone surrogates travel as \udcxx
    outfile = jobfile + '.out'
    p = subprocess.Popen([sys.executable, os.path.abspath(__file__), mode, jobfile, outfile], env=child_env(),
                         stdout=subprocess.PIPE, stderr=subprocess.STDOUT)
    return p, outfile


def finish_child(p, outfile, timeout=3000):
    txt, _ = p.communicate(timeout=timeout)
    if p.returncode != 0 or not os.path.exists(outfile):
        raise RuntimeError('C07 locale child failed (rc=%s): %s' % (p.returncode, txt.decode('utf-8', 'replace')[-2000:]))
    with open(outfile, encoding='ascii') as f:
        return json.load(f)


def probe_locales(ctx):
    """[(locale name, codec name)] one per distinct text encoding the C library offers here, the ASCII one first;
    [] if a child python that follows the locale cannot be had"""
    cands = list(LOCALE_CANDIDATES)
    try:
        rc, o, _ = common.sh(['locale', '-a'], timeout=20)
        cands += [x.strip() for x in o.splitlines() if x.strip()]
    except Exception:  # noqa
        pass
    p, outfile = start_child('--locale-probe', dict(candidates=sorted(set(cands))), os.path.join(ctx.subdir('loc'), 'probe.json'))
    res = finish_child(p, outfile, 120)
    if res['utf8_mode']:
        return []
    by_codec = {}
    for name in sorted(res['locales'], key=lambda n: (n != 'C', n)):
        by_codec.setdefault(res['locales'][name], name)
    if 'ascii' not in by_codec:
        return []
    rest = sorted((c, n) for c, n in by_codec.items() if c != 'ascii')
    return [(by_codec['ascii'], 'ascii')] + [(n, c) for c, n in rest][:5]


def _child_main(argv):
    """entry of the child process (python harness/c07.py --locale-probe|--locale-run JOB OUT)"""
    import codecs, locale
    mode, jobfile, outfile = argv
    with open(jobfile, encoding='ascii') as f:
        job = json.load(f)
    res = dict(utf8_mode=sys.flags.utf8_mode)
    if mode == '--locale-probe':
        res['locales'] = {}
        for name in job['candidates']:
            try:
                locale.setlocale(locale.LC_CTYPE, name)
                res['locales'][name] = codecs.lookup(locale.getencoding()).name
            except Exception:  # noqa
                pass
    else:
        common.use_repo()
        wdir = os.path.join(job['base'], 'c%d' % os.getpid())
        os.makedirs(wdir, exist_ok=True)
        seen = set()
        results = []
        for g in job['groups']:
            tasks, keys, vals = g['tasks'], g['keys'], g['vals']
            cvals = [canon(v) for v in vals]
            tl = tail_ops(len(tasks), len(keys))
            gres = []
            for ops, locs in zip(g['seqs'], g['locs']):
                full = [tuple(o) for o in ops] + tl

                def hook(n, locs=locs):
                    # the locale of session n (the last one given also for later ones); -1 = the run is over
                    locale.setlocale(locale.LC_CTYPE, 'C' if n < 0 else locs[min(n, len(locs) - 1)])
                    if n >= 0:
                        with open(os.path.join(job['base'], 'enc%d' % os.getpid()), 'w') as fobj:   # what open() does now
                            seen.add(codecs.lookup(fobj.encoding).name)
                ref = run_ref(full, len(vals))
                diff = {}
                for var in job['variants']:
                    ob = run_impl(var, wdir, full, tasks, keys, vals, cvals, session_hook=hook)
                    if ob != ref:
                        diff[var] = ob
                gres.append([ref, diff])
            results.append(gres)
        res['results'] = results
        res['open_encodings_seen'] = sorted(seen)
    with open(outfile, 'w', encoding='ascii') as f:
        json.dump(res, f)
    return 0


def session_locales(rng, ops, nt, nk, avail):
    """one locale per session of ops + tail (sessions = 1 + number of reopens)"""
    n = 1 + sum(1 for o in list(ops) + tail_ops(nt, nk) if o[0] == 'R')
    names = [a[0] for a in avail]
    style = rng.choice(['all-ascii', 'all-ascii', 'mixed', 'mixed', 'one-other']) if len(names) > 1 else 'all-ascii'
    if style == 'all-ascii':
        return style, [names[0]] * n
    if style == 'one-other':
        locs = [names[0]] * n
        locs[rng.randrange(n)] = rng.choice(names[1:])
        return style, locs
    return style, [rng.choice(names) for _ in range(n)]


# ------------------------------------------------------------------ main
def run(ctx):
    out = Outcome()
    rng = ctx.rng
    # fast scratch space for the DB files (sqlite commits fsync): tmpfs if there is one
    base = ctx.subdir('db')
    shm = None
    if os.path.isdir('/dev/shm') and os.access('/dev/shm', os.W_OK):
        shm = os.path.join('/dev/shm', os.path.basename(ctx.tmp) + '-db')
        shutil.rmtree(shm, ignore_errors=True)
        os.makedirs(shm)
        base = shm
    try:
        return _run(ctx, out, rng, base)
    finally:
        if shm:
            shutil.rmtree(shm, ignore_errors=True)


def _run(ctx, out, rng, base):
    import time
    t0 = time.time()
    phase = out.extra.setdefault('phase_s', {})
    groups = []   # (label, tasks, keys, vals, [seq...], variants)
    all_variants = VARIANTS + DEP_VARIANTS
    # A. exhaustive over 2 tasks x 2 keys x 2 values
    ex_tasks, ex_keys, ex_vals = ['t1', 'täsk:é'], ['k', 'ключ'], [1, {'a': [1, {'b': None}], 'ü': 'ß'}]
    al = alphabet(2, 2, 2)
    full_len = ctx.n(3, 4)          # every sequence up to this length
    canon_len = full_len + 1        # plus one representative per renaming at this length
    seqs = []
    for n in range(0, full_len + 1):
        seqs += list(itertools.product(al, repeat=n))
        out.count('exhaustive:len%d' % n, len(al) ** n)
        if n == 3:      # up to here also through the Dependency object
            groups.append(('exh', ex_tasks, ex_keys, ex_vals, seqs, all_variants))
            seqs = []
    cn = [s for s in itertools.product(al, repeat=canon_len) if is_canonical(s)]
    out.count('exhaustive-up-to-renaming:len%d' % canon_len, len(cn))
    seqs += cn
    if ctx.quick:
        # a sample of the next length
        al_ = al
        extra = set()
        while len(extra) < 8000:
            s = tuple(rng.choice(al_) for _ in range(canon_len + 1))
            if is_canonical(s):
                extra.add(s)
        extra = sorted(extra)
        out.count('sampled-up-to-renaming:len%d' % (canon_len + 1), len(extra))
        seqs += extra
    groups.append(('exh', ex_tasks, ex_keys, ex_vals, seqs, VARIANTS))
    # B. random long sequences, several sessions, unicode names, nested values
    for ci in range(ctx.n(600, 6000)):
        nt, nk, nv = rng.choice([1, 2, 3, 4]), rng.choice([1, 2, 3]), rng.choice([1, 2, 3, 5])
        tasks = rng.sample(TASK_POOL, nt)
        keys = rng.sample(KEY_POOL, nk)
        vals = rng.sample(VAL_POOL, nv)
        n = rng.choice([6, 10, 15, 20, 30, 40])
        groups.append(('rnd', tasks, keys, vals, [random_seq(rng, nt, nk, nv, n)], all_variants))
        out.count('random:len<=%d' % (10 if n <= 10 else 20 if n <= 20 else 40))

    # C. the strings: task ids / keys / strings inside values class by class (c07_strings.py), look-alikes side by
    #    side, strings with lone surrogates (undecodable file names) as keys and inside values
    import c07_strings as S
    thorough = not ctx.quick
    for ci in range(ctx.n(300, 5000)):
        nt, nk, nv = rng.choice([1, 2, 3]), rng.choice([1, 2, 3]), rng.choice([1, 2, 3, 4])
        tasks, keys, vals = S.make_tables(rng, nt, nk, nv, thorough)
        groups.append(('str', tasks, keys, vals, [session_seq(rng, nt, nk, nv)], all_variants))
        count_strings(out, tasks, keys, vals)
        out.count('strings:cases')
    xl = ctx.n(2, 3)
    xseqs = [sq for n in range(1, xl + 1) for sq in itertools.product(al, repeat=n)]
    groups.append(('str', X_TASKS, X_KEYS, X_VALS, xseqs, all_variants))
    out.count('strings:look-alike-tables:exhaustive:len<=%d' % xl, len(xseqs))
    # D. the locale: the same classes in a python that takes open()'s encoding from the locale (no UTF-8 mode),
    #    every session under a locale of its own
    glocs = {}
    avail = probe_locales(ctx)
    out.extra['locales_used_by_part_D'] = ['%s (%s)' % a for a in avail] or 'NONE: no child python that follows the locale, part D not run'
    loc_variants = tuple(LOC + v for v in all_variants)
    if avail:
        for ci in range(ctx.n(150, 2500)):
            nt, nk, nv = rng.choice([1, 2, 3]), rng.choice([1, 2]), rng.choice([1, 2, 3])
            tasks, keys, vals = S.make_tables(rng, nt, nk, nv, False)
            seq = session_seq(rng, nt, nk, nv)
            style, locs = session_locales(rng, seq, nt, nk, avail)
            glocs[len(groups)] = [locs]
            groups.append(('loc', tasks, keys, vals, [seq], loc_variants))
            count_strings(out, tasks, keys, vals)
            out.count('locale:sessions:' + style)
        dl = ctx.n(2, 3)
        dseqs = [sq for n in range(1, dl + 1) for sq in itertools.product(al, repeat=n)]
        out.count('locale:all-ascii:exhaustive:len<=%d' % dl, len(dseqs))
        for s0 in range(0, len(dseqs), 350):
            part = dseqs[s0:s0 + 350]
            glocs[len(groups)] = [[avail[0][0]]] * len(part)
            groups.append(('loc', ex_tasks, ex_keys, ex_vals, part, loc_variants))
    out.extra['outside_domain_probe:task_id_with_lone_surrogate'] = surrogate_task_probe(base)

    phase['generate+probe'] = round(time.time() - t0, 1)
    # ---- part D runs in child processes, started now, collected after the pool below
    children = []
    if glocs:
        nch = ctx.n(3, 8)
        dg = sorted(glocs)
        for j in range(nch):
            mine = dg[j::nch]
            if not mine:
                continue
            job = dict(base=base, variants=list(all_variants),
                       groups=[dict(tasks=groups[g][1], keys=groups[g][2], vals=groups[g][3],
                                    seqs=[[list(o) for o in sq] for sq in groups[g][4]], locs=glocs[g]) for g in mine])
            children.append((mine, ) + start_child('--locale-run', job, os.path.join(ctx.subdir('loc'), 'job%d.json' % j)))

    # ---- run the implementation (worker processes; every choice was made above)
    jobs, index = [], []       # index[j] = (group, offset)
    for gi, (label, tasks, keys, vals, sq, variants) in enumerate(groups):
        step = 400
        if label == 'loc':
            continue
        for s in range(0, len(sq), step):
            jobs.append((base, tasks, keys, vals, sq[s:s + step], variants))
            index.append((gi, s))
    results = [[None] * len(g[4]) for g in groups]
    mp = multiprocessing.get_context('fork')
    nw = max(1, min(common.NCPU, 14))
    with concurrent.futures.ProcessPoolExecutor(max_workers=nw, mp_context=mp) as ex:
        for (gi, s), res in zip(index, ex.map(work, jobs, chunksize=4)):
            results[gi][s:s + len(res)] = res
    phase['pool'] = round(time.time() - t0, 1)
    seen_enc = set()
    for mine, p, outfile in children:
        res = finish_child(p, outfile)
        if res['utf8_mode']:
            raise RuntimeError('C07 part D: the child python runs in UTF-8 mode')
        seen_enc.update(res['open_encodings_seen'])
        for g, gres in zip(mine, res['results']):
            results[g] = [(ref, {LOC + v: ob for v, ob in diff.items()}) for ref, diff in gres]
    phase['children'] = round(time.time() - t0, 1)
    if glocs:
        out.extra['encodings_open()_used_in_part_D'] = sorted(seen_enc)
        if sorted(seen_enc) != sorted({a[1] for a in avail if any(a[0] in l for ll in glocs.values() for l in ll)}):
            raise RuntimeError('C07 part D: open() did not follow the session locales: %s' % sorted(seen_enc))

    # ---- property oracle + model cases (batched per table shape: Coq only sees indices)
    cases, case_members = [], []
    nseq = sum(len(g[4]) for g in groups)
    n_var_runs = 0
    by_sig = {}
    for gi, (label, tasks, keys, vals, sq, variants) in enumerate(groups):
        nt, nk, nv = len(tasks), len(keys), len(vals)
        tl = tail_ops(nt, nk)
        idx = {o: i for i, o in enumerate(alphabet(nt, nk, nv))}
        items = by_sig.setdefault((nt, nk, nv), [])
        for si, ops in enumerate(sq):
            ref, diff = results[gi][si]
            full = list(ops) + tl
            n_var_runs += len(variants)
            for var in variants:
                out.count('runs:' + var)
            kinds = {o[0] for o in ops}
            if 'S' in kinds and (kinds & {'D', 'X', 'R'}):
                out.nontrivial.add((label if label == 'exh' else gi, ops))
            elif label in ('str', 'loc') and 'S' in kinds:
                out.nontrivial.add((gi, ops))      # the tail closes and reopens: the stored strings make the whole trip
            for var, ob in diff.items():
                kind = first_diff_kind(full, ob, ref)
                bad_val = 97 in ob
                case = dict(backend=var, tasks=tasks, keys=keys, values=vals, ops=[list(o) for o in full])
                what = ('%s backend answered differently from a plain dict of dicts (first at a %s)%s: observed %s, map %s'
                        % (var, kind, '; a value did not round-trip unchanged' if bad_val else '', ob, ref))
                shape = 'differs-from-map:%s:%s' % (var, 'value' if bad_val else kind)
                if label == 'str':
                    shape = 'c07:strings:%s:%s' % (var, 'value' if bad_val else kind)
                    what += ' -- strings of the case (98 = the call raised): task ids %a, keys %a, values %a' % (tasks, keys, vals)
                elif label == 'loc':
                    shape = 'c07:locale:%s:%s' % (var[len(LOC):], 'value' if bad_val else kind)
                    case.update(backend=var[len(LOC):], locales=glocs[gi][si])
                    what += (' -- in a python without UTF-8 mode, the sessions under the locales %s (98 = the call raised): '
                             'task ids %a, keys %a, values %a' % (glocs[gi][si], tasks, keys, vals))
                out.violations.append(dict(what=what, shape=shape, case=case))
            if diff:
                exp = 'V [%s]' % '; '.join('(%d, %d)' % (MODEL_OF[v], enc_obs(diff.get(v, ref))) for v in variants)
            else:
                exp = 'A %d' % enc_obs(ref)
            items.append(((gi, si), '(%d%%nat, %d, %s)' % (len(ops), enc_ops(ops, idx), exp)))
    batch = 150
    for (nt, nk, nv), items in sorted(by_sig.items()):
        for s in range(0, len(items), batch):
            part = items[s:s + batch]
            cases.append(dict(model='check %d %d %d [%s]' % (nt, nk, nv, '; '.join(p[1] for p in part)), expected=[],
                              desc=((nt, nk, nv), s)))
            case_members.append([p[0] for p in part])
    # spread the batches round-robin over the shards compare_with_model cuts (contiguous pieces, one per core): the long
    # random sequences of parts B, C, D sit next to each other in this list and would all land in the same few shards
    order = [i for j in range(common.NCPU) for i in range(j, len(cases), common.NCPU)]
    cases = [cases[i] for i in order]
    case_members = [case_members[i] for i in order]
    out.evaluations = nseq
    out.extra['implementation_runs'] = n_var_runs
    out.rule = ('every operation sequence over {set,get,in_,remove,remove_all,reopen} x 2 tasks x 2 keys x 2 values (18 letters) up to length %d, '
                'one representative per renaming of tasks/keys/values at length %d%s, and random sequences of length 6..40 over up to 4 unicode task ids, '
                '3 keys, 5 nested JSON values; each followed by reopen + in_/get of everything; each run on JsonDB, DbmDB (default module), '
                'DbmDB(dbm.dumb), SqliteDB, and (lengths <= 3 and the random ones) on the three classes driven through doit\'s Dependency object.  '
                'STRINGS (part C): %d random session sequences over tables whose task ids are drawn class by class from strings of Unicode scalar values '
                '(ascii, latin-1, BMP, non-BMP, combining/NFD, control incl. NUL, separators/BOM, non-characters, JSON/SQL/format meta text, empty, long) and whose '
                'keys and strings inside values are drawn from the same classes plus surrogateescape strings (os.fsdecode of file names that are not UTF-8: lone '
                'low surrogates), look-alikes side by side; plus every sequence up to length %d over one table of look-alikes; all seven variants.  '
                'LOCALE (part D): %s.  '
                'non-trivial = distinct sequence with a set and at least one of remove / remove_all / reopen (parts C, D: with a set; the tail reopens)'
                % (full_len, canon_len, (', a sample at length %d' % (canon_len + 1)) if ctx.quick else '', ctx.n(300, 5000), xl,
                   ('%d such sequences (no long strings) and every sequence up to length %d over the table of part A, run by a child python that is not in UTF-8 mode '
                    '(LC_ALL=C, PYTHONUTF8=0, PYTHONCOERCECLOCALE=0: open() without encoding= follows the locale), each session under a locale of its own out of %s '
                    '(all-ASCII, one other, mixed), all seven variants' % (ctx.n(150, 2500), dl, [a[0] for a in avail])) if avail else 'not run (see locales_used_by_part_D)'))
    g0 = groups[0]
    ex_i = min(len(g0[4]) - 1, 5000)
    out.samples.append(dict(tasks=g0[1], keys=g0[2], values=g0[3], ops=[list(o) for o in g0[4][ex_i]], then='reopen; in_/get of everything',
                            observed_by_all_variants=results[0][ex_i][0]))
    gs = [g for g in range(len(groups)) if groups[g][0] == 'str'][0]
    out.samples.append(dict(part='C strings', tasks=groups[gs][1], keys=groups[gs][2], values=groups[gs][3], ops=[list(o) for o in groups[gs][4][0]],
                            then='reopen; in_/get of everything', observed_by_all_variants=results[gs][0][0]))
    if glocs:
        gl = min(glocs)
        out.samples.append(dict(part='D locale', tasks=groups[gl][1], keys=groups[gl][2], values=groups[gl][3], ops=[list(o) for o in groups[gl][4][0]],
                                session_locales=glocs[gl][0], then='reopen; in_/get of everything', observed_by_all_variants=results[gl][0][0]))
    g1 = [g for g in groups if g[0] == 'rnd'][-1]
    r1 = results[max(g for g in range(len(groups)) if groups[g][0] == 'rnd')]
    out.samples.append(dict(tasks=g1[1], keys=g1[2], values=g1[3], ops=[list(o) for o in g1[4][0]], then='reopen; in_/get of everything',
                            observed_by_all_variants=r1[0][0]))

    phase['oracle'] = round(time.time() - t0, 1)
    # ---- model side
    bad = compare_with_model(ctx, PRE, cases)
    out.traces_validated = n_var_runs
    phase['coq'] = round(time.time() - t0, 1)
    failing = []
    for ci, idxs in bad:
        for j in idxs:
            if 0 <= j < len(case_members[ci]):
                failing.append(case_members[ci][j])
    if failing:
        detail = failing[:20]
        exprs = []
        for gi, si in detail:
            label, tasks, keys, vals, sq, variants = groups[gi]
            o = '(%s ++ tail_ops %d %d)' % (coq_ops(sq[si]), len(tasks), len(keys))
            exprs.append('jrun %s ++ [-9] ++ drun false %s ++ [-9] ++ qrun false false %s' % (o, o, o))
        vals_ = common.coq_eval(ctx, PRE, exprs, tag='detail')
        for (gi, si), v in zip(detail, vals_):
            label, tasks, keys, vals, sq, variants = groups[gi]
            ref, diff = results[gi][si]
            out.mismatches.append(dict(case=dict(tasks=tasks, keys=keys, values=[repr(x) for x in vals], ops=[list(o) for o in sq[si]]),
                                       impl={v_: diff.get(v_, ref) for v_ in variants},
                                       model_json_dbm_sqlite=common.parse_zlist(v)))
        for gi, si in failing[20:]:
            out.mismatches.append(dict(case=dict(group=gi, ops=[list(o) for o in groups[gi][4][si]]), impl='see first entries', model=None))
    out.assumptions = [
        'JSONCodec (json.JSONEncoder/JSONDecoder) is an oracle: the theorems assume decode(encode(x)) = x; the harness checks it on the objects '
        'returned by get (unicode ids/keys, nested values, falsy values), never proves it',
        'values stored are JSON values other than a top-level None (get answers None for a missing entry; doit never stores None)',
        'strings: a task id is a string of Unicode scalar values; keys and strings inside values may also hold lone low surrogates U+DC80..DCFF (what '
        'os.fsdecode gives for file names that are not UTF-8).  A task id with a lone surrogate is outside the domain (not encodable in UTF-8; the dbm and '
        'sqlite3 backends raise UnicodeEncodeError on it, the json backend does not): probed and recorded under outside_domain_probe, not judged',
        'JsonDB reads/writes its file as text in the encoding of the locale (no encoding=): theorem C07_json_locale_independent assumes text_ok (the document '
        'survives any locale because it is all ASCII); part D checks that on the real classes under the locales this machine has, never proves it',
        'a session always ends with dump() (Dependency.close); abandoned sessions / crashes belong to C06',
        'dbm = dbm.dumb (the only dbm implementation importable here); the dbm module, sqlite3 and the file system are libraries, exercised not proved',
    ]
    out.extra['trusted_base'] = ['encoding of python observations into integers and of sequences into Coq terms (harness/c07.py)',
                                 'helper definitions tail_ops / chk1 / chkb in the preamble of harness/c07.py']
    out.extra['exhaustive_up_to_length'] = full_len
    return out


def replay(ctx, payload):
    """re-run one recorded sequence on the named backend and on the reference map"""
    common.use_repo()
    case = payload.get('case', payload)
    ops = [tuple(o) for o in case['ops']]
    tasks, keys, vals = case['tasks'], case['keys'], case['values']
    wdir = ctx.subdir('replay')
    ref = run_ref(ops, len(vals))
    status = 0
    if case.get('locales'):
        # part D: the same python as the check used (no UTF-8 mode, LC_ALL=C), the sessions under the recorded locales
        tl = len(tail_ops(len(tasks), len(keys)))
        job = dict(base=wdir, variants=[case['backend']] if case.get('backend') else list(VARIANTS),
                   groups=[dict(tasks=tasks, keys=keys, vals=vals, seqs=[[list(o) for o in ops[:len(ops) - tl]]], locs=[case['locales']])])
        res = finish_child(*start_child('--locale-run', job, os.path.join(wdir, 'job.json')))
        ref, diff = res['results'][0][0]
        for var in job['variants']:
            print(var, 'under', case['locales'], diff.get(var, ref))
        print('map', ref)
        return 1 if diff else 0
    for var in ([case['backend']] if case.get('backend') else VARIANTS):
        ob = run_impl(var, wdir, ops, tasks, keys, vals, [canon(v) for v in vals])
        print(var, ob)
        if ob != ref:
            status = 1
    print('map', ref)
    return status


if __name__ == '__main__':
    sys.exit(_child_main(sys.argv[1:]))
