"""C19, the CONTENT dimension: what tasks write / fail with, crossed with the stream the report goes to.

The other parts of the C19 check let tasks write ASCII tokens only and always read the report from a
UTF-8 pipe.  The property says "always a single valid JSON document ... with its true result" and fixes
the exit code by what happened to the tasks -- whatever the tasks print and wherever the document is
written.  Two parts:

part 'content' (part_content_cli): the real command line (`python -m doit run -r <reporter> ...` as a
  sub-process) on generated dodo files (ASCII-only source: every text is an escaped literal) whose tasks
  -- ok / fail (TaskFailed(msg)) / error (raise Exception(msg)) / up-to-date / ignored / group, task_dep and
  setup edges, verbosity 0-2, teardowns that print and/or fail, python-actions or cmd-actions (`sh -c printf`
  of the UTF-8 bytes) -- write TEXTS built from these classes:
     ascii | latin (U+00A0..U+00FF) | bmp | astral (> U+FFFF) | surrogate (lone U+DC80..U+DCFF: what
     os.fsdecode()/os.listdir() give for file names that are not UTF-8) | control (NUL, ESC, DEL, \\b \\f \\r) |
     jsonlike (quotes, backslashes, `\\u0041`, a complete `{"tasks": ...}` look-alike) | linesep (U+2028, U+2029,
     U+0085) | long (70 000 characters: more than a pipe buffer) | no trailing newline
  in: action stdout, action stderr, failure message, teardown stdout / stderr, teardown error message, task name
  (no surrogate / control there).  Crossed with the SINK of the report:
     stdout pipe under PYTHONIOENCODING = (unset) | ascii | latin-1 | utf-8 | cp1252 | utf-16, or under the C
     locale without UTF-8 coercion (ascii); or `-o FILE` (a JSON text in a file is UTF-8: RFC 8259)
  (what encoding / error handler the interpreter gives sys.stdout under each environment is asked from the
  interpreter itself by a probe process, not from doit), with the runner (serial, -n 2 -P thread, -n 2),
  --continue, and the reporter: json (the judged one for every sink) and the console family (only on sinks
  that can encode everything the scenario may print: a console stream that cannot take a character is the
  environment's limit, also for the task's own print()).

  Oracle (own truth function of the scenario; nothing read back from doit except the process output):
  JSON: the sink's bytes decode in the sink's encoding, the text is exactly ONE JSON document, nothing else on
  stdout / stderr, every processed task listed once with its true result, its `out` / `err` equal to the text
  its actions wrote (cmd-actions: the bytes decoded as UTF-8 with U+FFFD for invalid ones, CmdAction's
  documented default), `error` non-null iff it failed and containing the failure message, started iff executed,
  teardown output / teardown error text inside the document's out / err; exit code 0 / 1 / 2 by the truth.
  Runs without --continue that contain a failure are chains, so that the first failure is known without
  reading anything from the run: tasks after it must not have a result.
  Console family: exit code by the truth; `.  <name>` once per executed task, one failure header per failed task.

part 'jsontext' (part_jsontext): the real JsonReporter CLASS in this process, writing to an
  io.TextIOWrapper(BytesIO) of a given codec (ascii, latin-1, utf-8, cp1252, koi8-r, iso8859-15, utf-16 for the
  oracle only), fed with tasks whose names / captured outputs / failure messages / run-level output are such
  texts.  Observation = (complete_run raised?, the bytes that reached the stream), compared with
  coq/Model/JsonText.v: [enc_written (write (codec k) (dumps_doc d))] (the serialiser json.dump uses with
  ensure_ascii, specialised to the reporter's document, and a strict text stream); theorems C19_json_text_* in
  Properties/C19.v.  Independent oracle: no exception, the bytes decode, json.loads gives back exactly the
  declared names / results / texts (as the reference reader sees them: json.loads(json.dumps(text))).

Encoding compared in part 'jsontext': [raised 0/1] ++ bytes written.
"""
import concurrent.futures, io, json, os, re, subprocess, sys
import common
import c19_reporters as R

FLAVOURS = R.FLAVOURS

# ------------------------------------------------------------------ texts
PIECES = {
    'ascii': ['plain words', 'a=1; b=2', 'x ' * 6, '100% done', "it's ok"],
    'latin': ['caf\xe9', 'na\xefve \xc6r\xf8', '\xa0\xff', 'se\xf1or'],
    'bmp': ['\u03a9\u03bc\u03ad\u03b3\u03b1', '\u65e5\u672c\u8a9e', '\u20ac 12', '\ufeffbom', '\ufffd\uffff'],
    'astral': ['\U0001F600', 'math \U0001D518', '\U0010FFFF', '\U00010000'],
    'surrogate': ['caf\udce9.txt', '\udc80', 'x\udcff\udcfey', 'r\udce9sum\udce9'],
    'control': ['\x00', '\x1b[31mred\x1b[0m', '\x7f', 'a\x08b\x0cc', 'cr\rlf', '\x01\x1f'],
    'jsonlike': ['"quoted"', 'back\\slash \\n \\u0041 \\', '{"tasks": [], "out": "", "err": ""}', '"}]}', '</script>', '\\"'],
    'linesep': ['a\u2028b', '\u2029', 'nel\x85x'],
}
CLASSES = list(PIECES)
WEIGHTS = [3, 4, 3, 3, 5, 2, 3, 1]
NAME_CLASSES = ['ascii', 'latin', 'bmp', 'astral']
NAME_PIECES = {'ascii': ['x', 'file.txt'], 'latin': ['caf\xe9', '\xfcber'], 'bmp': ['\u65e5\u672c', '\u20ac'],
               'astral': ['\U0001F600', '\U0001D518']}


def gen_text(rng, tag, classes=None, long_ok=True):
    """(text, set of classes used); the tag makes every text of a scenario distinct"""
    classes = classes or CLASSES
    w = [WEIGHTS[CLASSES.index(c)] for c in classes]
    used, s = set(), tag + ':'
    for _ in range(rng.choice([1, 1, 2, 3])):
        c = rng.choices(classes, weights=w)[0]
        used.add(c)
        s += ' ' + rng.choice(PIECES[c])
    if long_ok and rng.random() < 0.04:
        used.add('long')
        s += ' ' + (rng.choice(['\xe9', 'z', '\U0001F600', '\udce9']) + 'abcdefghi') * 7000
    if rng.random() < 0.8:
        s += '\n'
    else:
        used.add('nonl')
    return s, used


def cmd_bytes(text):
    """the bytes a cmd-action is made to write for this text (lone surrogates U+DC80+b: the raw byte b)"""
    return text.encode('utf-8', 'surrogateescape')


def cmd_seen(text):
    """... and what doit is documented to make of them (CmdAction: decoded as UTF-8, decode_error='replace')"""
    return cmd_bytes(text).decode('utf-8', 'replace')


# ------------------------------------------------------------------ sinks
# name -> (environment changes, None = remove); the encoding of sys.stdout under it comes from probe()
ENVS = {
    'default': {},
    'io-ascii': {'PYTHONIOENCODING': 'ascii'},
    'io-latin-1': {'PYTHONIOENCODING': 'latin-1'},
    'io-utf-8': {'PYTHONIOENCODING': 'utf-8'},
    'io-cp1252': {'PYTHONIOENCODING': 'cp1252'},
    'io-utf-16': {'PYTHONIOENCODING': 'utf-16'},
    'c-locale': {'LC_ALL': 'C', 'LANG': 'C', 'PYTHONCOERCECLOCALE': '0', 'PYTHONUTF8': '0'},
}
ENV_WEIGHTS = {'default': 2, 'io-ascii': 4, 'io-latin-1': 2, 'io-utf-8': 3, 'io-cp1252': 1, 'io-utf-16': 1, 'c-locale': 2}
_probe = {}


def run_env(name, pre=False):
    env = common.impl_env()
    env['PYTHONDONTWRITEBYTECODE'] = '1'
    for k in ('PYTHONIOENCODING', 'PYTHONUTF8', 'PYTHONCOERCECLOCALE', 'LC_ALL', 'LC_CTYPE'):
        env.pop(k, None)
    if pre:
        env['C19_PRE'] = '1'
    else:
        env.pop('C19_PRE', None)
        env.update(ENVS[name])
    return env


def probe(name):
    """(encoding, errors) of sys.stdout (a pipe) of the interpreter under environment `name`"""
    if name not in _probe:
        p = subprocess.run([common.PY, '-c', 'import sys; sys.stdout.buffer.write((sys.stdout.encoding + " " + sys.stdout.errors).encode("ascii"))'],
                           env=run_env(name), stdout=subprocess.PIPE, stderr=subprocess.PIPE, timeout=60)
        enc, errors = p.stdout.decode('ascii').split()
        _probe[name] = (enc, errors)
    return _probe[name]


def sink_codec(sc):
    """how the bytes of the sink are to be read: a JSON text in a file is UTF-8 (RFC 8259); a stream is read back
    with the encoding and the (symmetric) error handler the interpreter gave it"""
    if sc['sink'] == 'file':
        return 'utf-8', 'strict'
    enc, errors = probe(sc['env'])
    return enc, (errors if errors in ('surrogateescape', 'surrogatepass') else 'strict')


def encodable(text, enc, errors):
    try:
        text.encode(enc, errors)
        return True
    except UnicodeError:
        return False


# ------------------------------------------------------------------ scenarios
DODO = r'''
import os, sys
PRE = os.environ.get('C19_PRE') == '1'
SPEC = @SPEC@
DOIT_CONFIG = {'default_tasks': @SELECTED@}

def mk_action(t):
    def act():
        if t['out']:
            sys.stdout.write(t['out'])
        if t['err']:
            sys.stderr.write(t['err'])
        if t['kind'] == 'fail':
            from doit.exceptions import TaskFailed
            return TaskFailed(t['msg'])
        if t['kind'] == 'error':
            raise Exception(t['msg'])
        return True
    return act

def mk_teardown(t):
    def td():
        if t['td_out']:
            sys.stdout.write(t['td_out'])
        if t['td_err']:
            sys.stderr.write(t['td_err'])
        if t['td_msg'] is not None:
            raise Exception(t['td_msg'])
    return td

def octal(data):
    return ''.join(chr(b) if (48 <= b <= 57 or 65 <= b <= 90 or 97 <= b <= 122) else '\\%03o' % b for b in data)

def sh(out, err, code):
    # list form: no keyword expansion; the command text (quoted in failure messages) is plain ASCII
    script = ''
    if out:
        script += "printf '" + octal(out.encode('utf-8', 'surrogateescape')) + "'; "
    if err:
        script += "printf '" + octal(err.encode('utf-8', 'surrogateescape')) + "' >&2; "
    return ['sh', '-c', script + 'exit ' + str(code)]

def task_gen():
    for t in SPEC:
        if t['kind'] == 'group':
            actions = []
        elif PRE:
            actions = [['true']]
        elif t['act'] == 'cmd':
            actions = [sh(t['out'], t['err'], {'fail': 1, 'error': 126}.get(t['kind'], 0))]
        else:
            actions = [mk_action(t)]
        d = {'basename': t['name'], 'actions': actions,
             'task_dep': t['task_dep'], 'setup': t['setup'], 'verbosity': t['verbosity']}
        if t['kind'] == 'utd':
            d['uptodate'] = [True]
        if t['td'] and not PRE:
            d['teardown'] = [sh(t['td_out'], t['td_err'], 0 if t['td_msg'] is None else 1) if t['act'] == 'cmd' else mk_teardown(t)]
        yield d
'''


def gen_scenario(rng, flavour=None, reporter=None, env=None, sink=None):
    n = rng.choice([2, 2, 3, 3, 4])
    flavour = flavour or rng.choice(['serial', 'serial', 'serial', 'thread', 'proc'])
    reporter = reporter or rng.choice(['json'] * 7 + ['console', 'console', 'executed-only', 'zero', 'error-only'])
    tasks = []
    for i in range(n):
        kind = rng.choices(['ok', 'fail', 'error', 'utd', 'ignored', 'group'], weights=[10, 4, 4, 1, 1, 1])[0]
        td = kind != 'group' and rng.random() < 0.4
        t = dict(kind=kind, private=False, verbosity=rng.choice([0, 1, 2, 2]), task_dep=[], setup=[], td=td,
                 out=None, err=None, msg=None, td_out=None, td_err=None, td_msg=None, suffix='')
        if kind != 'group':
            if rng.random() < 0.75:
                t['out'] = gen_text(rng, 'o%d' % i)[0]
            if rng.random() < 0.55:
                t['err'] = gen_text(rng, 'e%d' % i)[0]
        if kind in ('fail', 'error'):
            t['msg'] = gen_text(rng, 'm%d' % i, long_ok=False)[0]
        if td:
            if rng.random() < 0.7:
                t['td_out'] = gen_text(rng, 'p%d' % i, long_ok=False)[0]
            if rng.random() < 0.5:
                t['td_err'] = gen_text(rng, 'q%d' % i, long_ok=False)[0]
            if rng.random() < 0.3:
                t['td_msg'] = gen_text(rng, 'r%d' % i, long_ok=False)[0]
        if rng.random() < 0.3:
            t['suffix'] = '_' + rng.choice(NAME_PIECES[rng.choice(NAME_CLASSES)])
        tasks.append(t)
    free = list(range(1, n))
    rng.shuffle(free)
    for d in free:
        if rng.random() < 0.5:
            src = rng.randrange(0, d)
            if tasks[src]['kind'] != 'group' and rng.random() < 0.25:
                tasks[src]['setup'].append(d)
            else:
                tasks[src]['task_dep'].append(d)
    sc = dict(n=n, tasks=tasks, cont=rng.random() < 0.6, flavour=flavour, reporter=reporter, cycle=False,
              selected=list(range(n)), act=rng.choice(['py', 'py', 'py', 'cmd']),
              env=env or rng.choices(list(ENVS), weights=[ENV_WEIGHTS[e] for e in ENVS])[0],
              sink=sink or rng.choice(['stdout', 'stdout', 'file']))
    normalise(sc, rng)
    return sc


def texts_of(sc):
    out = []
    for i, t in enumerate(sc['tasks']):
        out += [t[k] for k in ('out', 'err', 'msg', 'td_out', 'td_err', 'td_msg') if t[k]] + [tname(sc, i)]
    return out


def normalise(sc, rng=None):
    fails = any(t['kind'] in ('fail', 'error') for t in sc['tasks'])
    if not sc['cont'] and fails:
        R.chain(sc)          # the first failure is then known from the scenario alone (see module doc)
    if sc['flavour'] == 'thread':
        sc['act'] = 'cmd'    # python-actions in two threads capture each other's output: known finding of C17
    if sc['act'] == 'cmd':
        for t in sc['tasks']:
            for k in ('out', 'err', 'td_out', 'td_err'):   # one argv string of `sh -c`: no long texts
                if t[k] and len(t[k]) > 20000:
                    t[k] = t[k][:40] + '\n'
    if sc['reporter'] != 'json':
        # a console reporter writes the texts themselves to the process's stdout / stderr: keep only what this
        # stream can take, else move to a stream that takes everything but lone surrogates and drop those
        sc['sink'] = 'stdout'
        for t in sc['tasks']:
            for k in ('out', 'err', 'msg', 'td_out', 'td_err', 'td_msg'):
                if t[k]:          # whole lines of moderate length: the result lines of the reporter stay lines of their own
                    t[k] = (t[k][:40] if len(t[k]) > 20000 else t[k]).rstrip('\n') + '\n'
        enc, errors = probe(sc['env'])
        if not all(encodable(x, enc, errors) for x in texts_of(sc)):
            sc['env'] = 'default' if probe('default')[0].lower().replace('-', '') == 'utf8' else 'io-utf-8'
            enc, errors = probe(sc['env'])
            for t in sc['tasks']:
                for k in ('out', 'err', 'msg', 'td_out', 'td_err', 'td_msg'):
                    if t[k] and not encodable(t[k], enc, errors):
                        t[k] = ''.join(ch for ch in t[k] if encodable(ch, enc, errors))
    for t in sc['tasks']:
        if not t['td']:
            t['td_out'] = t['td_err'] = t['td_msg'] = None


def family():
    """fixed cases, run at every seed: each sink x the two kinds of text no narrow stream can take"""
    def T(kind, **kw):
        d = dict(kind=kind, private=False, verbosity=1, task_dep=[], setup=[], td=False, out=None, err=None, msg=None,
                 td_out=None, td_err=None, td_msg=None, suffix='')
        d.update(kw)
        return d
    base = [
        # a python-action prints a file name that is not UTF-8 (os.fsdecode) and another task runs after it
        dict(tasks=[T('ok', task_dep=[1]), T('ok', out='found caf\udce9.txt\n')], cont=False),
        # one task prints non-ASCII text and succeeds, one fails (TaskFailed), --continue
        dict(tasks=[T('ok', out='caf\xe9\n', verbosity=2), T('fail', msg='no \u2028 way \U0001F600')], cont=True),
        # the text is in the failure message / in what a teardown prints / in the task's name; an error and an unmet dependency
        dict(tasks=[T('ok', task_dep=[1], suffix='_\xfcber'), T('error', msg='r\udce9sum\udce9 "x" \\', err='e\xe9\n'),
                    T('ok', td=True, td_out='bye \u20ac\n', td_msg='td \udc80 broke', verbosity=2)], cont=True),
    ]
    out = []
    for b in base:
        for env, sink in [('default', 'file'), ('io-ascii', 'stdout'), ('io-latin-1', 'stdout'), ('io-utf-8', 'stdout'),
                          ('c-locale', 'stdout'), ('c-locale', 'file'), ('io-utf-16', 'stdout'), ('default', 'stdout')]:
            for fl in (('serial', 'proc') if env in ('io-ascii', 'default') else ('serial',)):
                sc = dict(n=len(b['tasks']), tasks=[dict(t, task_dep=list(t['task_dep']), setup=list(t['setup'])) for t in b['tasks']],
                          cont=b['cont'], flavour=fl, reporter='json', cycle=False, selected=list(range(len(b['tasks']))),
                          act='py', env=env, sink=sink)
                normalise(sc)
                out.append(sc)
    return out


def tname(sc, i):
    return 't%d%s' % (i, sc['tasks'][i]['suffix'])


def spec_of(sc):
    spec = []
    for i, t in enumerate(sc['tasks']):
        spec.append(dict(name=tname(sc, i), kind=t['kind'], verbosity=t['verbosity'], act=sc['act'],
                         out=t['out'], err=t['err'], msg=t['msg'], td=t['td'], td_out=t['td_out'], td_err=t['td_err'],
                         td_msg=t['td_msg'], task_dep=[tname(sc, j) for j in t['task_dep']],
                         setup=[tname(sc, j) for j in t['setup']]))
    return spec


# ------------------------------------------------------------------ running the real thing
def doit(args, cwd, env):
    try:
        p = subprocess.run([common.PY, '-m', 'doit'] + args, cwd=cwd, env=env, timeout=120,
                           stdout=subprocess.PIPE, stderr=subprocess.PIPE)
        return p.returncode, p.stdout, p.stderr
    except subprocess.TimeoutExpired as e:
        return 98, e.stdout or b'', b'TIMEOUT'


def run_real(sc, d):
    spec = spec_of(sc)
    names = [s['name'] for s in spec]
    with open(os.path.join(d, 'dodo.py'), 'w', encoding='ascii') as f:
        f.write(DODO.replace('@SPEC@', ascii(spec)).replace('@SELECTED@', ascii([names[i] for i in sc['selected']])))
    utd = [names[i] for i, t in enumerate(sc['tasks']) if t['kind'] == 'utd']
    ign = [names[i] for i, t in enumerate(sc['tasks']) if t['kind'] == 'ignored']
    if utd:
        rc, o, e = doit(['run', '--reporter', 'zero'] + utd, d, run_env(None, pre=True))
        if rc != 0:
            return dict(rc=97, stdout=o, stderr=b'PRE-RUN FAILED: ' + e, doc=None)
    if ign:
        rc, o, e = doit(['ignore'] + ign, d, run_env(None, pre=True))
        if rc != 0:
            return dict(rc=97, stdout=o, stderr=b'IGNORE FAILED: ' + e, doc=None)
    args = ['run', '--reporter', sc['reporter']] + (['--continue'] if sc['cont'] else []) + FLAVOURS[sc['flavour']]
    if sc['sink'] == 'file':
        args += ['-o', 'report.json']
    rc, o, e = doit(args, d, run_env(sc['env']))
    docb = o
    if sc['sink'] == 'file':
        try:
            docb = open(os.path.join(d, 'report.json'), 'rb').read()
        except OSError:
            docb = None
    return dict(rc=rc, stdout=o, stderr=e, doc=docb)


# ------------------------------------------------------------------ the independent oracle
def code_of(kinds):
    return 0 if not kinds else (1 if all(k == 0 for k in kinds) else 2)


def expectation(sc):
    """from the scenario alone: per task (result or None = must not have one, executed, failure kind), exit code"""
    tr = R.truth(sc)
    n = sc['n']
    failing = [i for i in range(n) if tr[i][0] == 'fail']
    if sc['cont'] or not failing:
        return dict(tr), code_of([tr[i][2] for i in failing]), True
    # a chain (task i waits for i+1): processed from the far end, the first failure stops the run
    first = max(failing)
    exp = {i: (tr[i] if i >= first else (None, False, None)) for i in range(n)}
    return exp, code_of([tr[first][2]]), False


def short(b, k=300):
    if b is None:
        return None
    if isinstance(b, bytes):
        b = b.decode('utf-8', 'backslashreplace')
    return b if len(b) <= 2 * k else b[:k] + ' ... ' + b[-k:]


def oracle(sc, res):
    bad = []
    if res['rc'] in (97, 98):
        return [('content-harness-run-failed', 'scenario could not be run: rc=%s %s' % (res['rc'], short(res['stderr'])))]
    exp, want_rc, complete = expectation(sc)
    rc, fl = res['rc'], sc['flavour']
    names = {tname(sc, i): i for i in range(sc['n'])}
    seen_text = (lambda s: cmd_seen(s)) if sc['act'] == 'cmd' else (lambda s: s)
    if rc != want_rc:
        bad.append(('content-exit-code', 'exit code %d; what happened to the tasks (%s) means %d; stderr ends with %r'
                    % (rc, {i: exp[i][0] for i in exp}, want_rc, short(res['stderr'], 150))))
    if sc['reporter'] == 'json':
        enc, errors = sink_codec(sc)
        if res['stderr']:
            bad.append(('content-json-output-outside-document', 'output outside the JSON document, stderr = %r' % short(res['stderr'])))
        if sc['sink'] == 'file' and res['stdout']:
            bad.append(('content-json-output-outside-document', 'report goes to a file but stdout = %r' % short(res['stdout'])))
        if res['doc'] is None:
            return bad + [('content-json-not-single-document', 'no report file was written')]
        try:
            text = res['doc'].decode(enc, errors)
        except UnicodeError as x:
            return bad + [('content-json-not-decodable', 'the report is not %s text: %s' % (enc, x))]
        try:
            doc = json.loads(text)
            assert isinstance(doc, dict) and isinstance(doc.get('tasks'), list)
        except Exception as x:
            return bad + [('content-json-not-single-document', 'the report (%s, %s) is not one valid JSON document (%s): %r'
                           % (sc['sink'], enc, x, short(text)))]
        seen = {}
        for r in doc['tasks']:
            i = names.get(r.get('name'))
            if i is None:
                bad.append(('content-json-task-listed-twice-or-missing', 'document lists unknown task %r' % (r.get('name'),)))
                continue
            seen[i] = seen.get(i, 0) + 1
            want, exe, kind = exp[i]
            t = sc['tasks'][i]
            if want is None:
                if r.get('result') is not None:
                    bad.append(('content-json-task-result-wrong', 'task %d comes after the failure that stopped the run but is listed as %r' % (i, r.get('result'))))
                continue
            if r.get('result') != want:
                bad.append(('content-json-task-result-wrong', 'task %d listed as %r, what happened is %r' % (i, r.get('result'), want)))
                continue
            if (r.get('started') is not None) != exe or (r.get('elapsed') is not None) != exe:
                bad.append(('content-json-task-result-wrong', 'task %d: started=%r elapsed=%r but its actions were %sexecuted'
                            % (i, r.get('started'), r.get('elapsed'), '' if exe else 'not ')))
            wo = seen_text(t['out'] or '') if exe else ''
            we = seen_text(t['err'] or '') if exe else ''
            if (r.get('out') or '') != wo or (r.get('err') or '') != we:
                bad.append(('content-json-task-output-wrong', 'task %d: listed out/err %s / %s, its actions wrote %s / %s'
                            % (i, ascii(short(r.get('out'), 60)), ascii(short(r.get('err'), 60)), ascii(short(wo, 60)), ascii(short(we, 60)))))
            if (r.get('error') is not None) != (want == 'fail'):
                bad.append(('content-json-task-result-wrong', 'task %d: error field %r for result %r' % (i, short(r.get('error'), 60), want)))
            elif want == 'fail' and exe and sc['act'] == 'py' and t['msg'] not in r['error']:
                bad.append(('content-json-task-output-wrong', 'task %d failed with message %s, listed error is %s'
                            % (i, ascii(t['msg']), ascii(short(r['error'], 200)))))
        if any(c > 1 for c in seen.values()):
            bad.append(('content-json-task-listed-twice-or-missing', 'a task is listed more than once: %s' % seen))
        must = [i for i in range(sc['n']) if exp[i][0] is not None]
        if [i for i in must if i not in seen]:
            bad.append(('content-json-task-listed-twice-or-missing', 'tasks listed %s, processed %s' % (sorted(seen), must)))
        # what teardowns wrote / how they failed is part of the run: inside the document
        # (process runner: written in the child, see C19_json_worker_output_lost_refuted -- not judged here)
        if rc in (0, 1, 2):
            dout, derr = doc.get('out') or '', doc.get('err') or ''
            for i in must:
                t = sc['tasks'][i]
                if not exp[i][1]:
                    continue
                if fl != 'proc':
                    for key, strm, hay, lvl in (('out', 'stdout', dout, 2), ('err', 'stderr', derr, 1),
                                                ('td_out', 'teardown stdout', dout, 2), ('td_err', 'teardown stderr', derr, 1)):
                        if t[key] and t['verbosity'] >= lvl and seen_text(t[key]) not in hay:
                            bad.append(('content-json-output-not-in-document', '%s of task %d (verbosity %d) is not in the document: %s'
                                        % (strm, i, t['verbosity'], ascii(short(t[key], 60)))))
                if t['td_msg'] is not None and ((sc['act'] == 'py' and t['td_msg'] not in derr) or 'teardown' not in derr):
                    bad.append(('content-json-output-not-in-document', 'the error of the teardown of task %d is not in the document' % i))
    else:
        enc, errors = probe(sc['env'])
        try:
            lines = res['stdout'].decode(enc, errors).split('\n')
        except UnicodeError as x:
            return bad + [('content-console-not-decodable', 'stdout is not %s text: %s' % (enc, x))]
        rep = sc['reporter']
        head = lines[:lines.index('#' * 40)] if '#' * 40 in lines else lines
        for i, t in enumerate(sc['tasks']):
            want, exe, kind = exp[i]
            nm = tname(sc, i)
            c = lines.count('.  ' + nm)
            wantc = 1 if (rep in ('console', 'executed-only') and exe and t['kind'] != 'group') else 0
            if c != wantc:
                bad.append(('content-console-result-line-count', 'reporter %s printed %d execute line(s) for task %d (%s, executed=%s)'
                            % (rep, c, i, want, exe)))
            kn = {0: 'TaskFailed', 1: 'TaskError', 2: 'UnmetDependency'}.get(kind)
            if rep == 'error-only':
                c = sum(1 for l in lines if l.startswith('taskid:%s - ' % nm))
                ok = c == (1 if want == 'fail' else 0) and (want != 'fail' or lines.count('taskid:%s - %s' % (nm, kn)) == 1)
            elif rep == 'zero':
                c = sum(1 for l in lines if l.endswith(' - taskid:' + nm))
                ok = c == 0
            else:
                c = sum(1 for l in head if l.endswith(' - taskid:' + nm))
                ok = c == (1 if want == 'fail' else 0) and (want != 'fail' or head.count('%s - taskid:%s' % (kn, nm)) == 1)
            if not ok:
                bad.append(('content-console-result-line-count', 'reporter %s printed %d failure report(s) for task %d (%s, kind %s)'
                            % (rep, c, i, want, kn)))
    return bad


# ------------------------------------------------------------------ entry points (CLI part)
def describe(sc, res=None):
    d = dict(part='content', tasks=[dict(t, name=tname(sc, i)) for i, t in enumerate(sc['tasks'])], selected=sc['selected'],
             cont=sc['cont'], flavour=sc['flavour'], reporter=sc['reporter'], act=sc['act'], env=sc['env'],
             env_vars=ENVS[sc['env']], sink=sc['sink'], sink_read_as=list(sink_codec(sc)))
    for t in d['tasks']:
        for k in ('out', 'err'):
            if t[k] and len(t[k]) > 2000:
                t[k] = squeeze(t[k])          # rebuilt by replay
    if res is not None:
        d.update(exit=res['rc'], stdout=short(res['stdout'], 700), stderr=short(res['stderr'], 700))
        if sc['sink'] == 'file':
            d['report_file'] = short(res['doc'], 700)
    return d


RX_LONG = re.compile(r'((.)abcdefghi)\1{100,}', re.S)


def squeeze(text):
    """a long text is written to the replay file as head + (10-character unit) * count + tail"""
    m = RX_LONG.search(text)
    return dict(long=True, head=text[:m.start()], unit=m.group(1), count=len(m.group(0)) // 10, tail=text[m.end():]) if m else text


def undescribe(case):
    tasks = []
    for t in case['tasks']:
        t = {k: v for k, v in t.items() if k != 'name'}
        for k in ('out', 'err'):
            if isinstance(t[k], dict):
                t[k] = t[k]['head'] + t[k]['unit'] * t[k]['count'] + t[k]['tail']
        tasks.append(t)
    return dict(n=len(tasks), tasks=tasks, selected=case['selected'], cont=case['cont'], flavour=case['flavour'],
                reporter=case['reporter'], cycle=False, act=case['act'], env=case['env'], sink=case['sink'])


def run_all(ctx, scenarios, tag='content'):
    root = ctx.subdir(tag)

    def one(args):
        i, sc = args
        d = os.path.join(root, 'c%d' % i)
        os.makedirs(d, exist_ok=True)
        try:
            return run_real(sc, d)
        except Exception as e:      # a broken implementation must show up as an observation
            return dict(rc=98, stdout=b'', stderr=('HARNESS EXCEPTION %r' % e).encode(), doc=None)
    with concurrent.futures.ThreadPoolExecutor(max_workers=max(2, min(common.NCPU - 2, 12))) as ex:
        return list(ex.map(one, list(enumerate(scenarios))))


def classes_in(sc):
    used = set()
    names = {tname(sc, i) for i in range(sc['n'])}
    for x in texts_of(sc):
        if len(x) > 20000:
            used.add('long')
        if not x.endswith('\n') and x not in names:
            used.add('nonl')
        for ch in x:
            o = ord(ch)
            used.add('surrogate' if 0xD800 <= o <= 0xDFFF else 'astral' if o > 0xFFFF else
                     'linesep' if o in (0x2028, 0x2029, 0x85) else 'bmp' if o > 0xFF else 'latin' if o > 0x7F else
                     'control' if (o < 0x20 and ch != '\n') or o == 0x7F else 'jsonlike' if ch in '"\\' else 'ascii')
    return used


def part_content_cli(ctx, out):
    for e in ENVS:
        probe(e)
    scenarios = family() + [gen_scenario(ctx.rng) for _ in range(ctx.n(60, 1500))]
    results = run_all(ctx, scenarios)
    for sc, res in zip(scenarios, results):
        enc, errors = sink_codec(sc)
        out.evaluations += 1
        out.traces_validated += 1
        used = classes_in(sc)
        wide = not all(encodable(x, enc, 'strict') for x in texts_of(sc))
        out.count('content:%s:%s:%s:rc%s' % (sc['reporter'] if sc['reporter'] == 'json' else 'console-family',
                                             sc['sink'] if sc['sink'] == 'file' else sc['env'], sc['flavour'], res['rc']))
        for c in sorted(used):
            out.count('content:text-class:' + c)
        if wide:
            out.count('content:sink-cannot-encode-some-text:%s' % (sc['reporter'] if sc['reporter'] == 'json' else 'console-family'))
        if used - {'ascii', 'nonl', 'jsonlike'}:
            out.nontrivial.add(('content', sc['reporter'], sc['flavour'], sc['sink'], sc['env'], sc['cont'], sc['act'],
                                tuple(sorted(used)), tuple((t['kind'], tuple(t['task_dep']), tuple(t['setup'])) for t in sc['tasks'])))
        seen = set()
        for shape, what in oracle(sc, res):
            if shape in seen:
                continue
            seen.add(shape)
            out.violations.append(dict(what='%s (--reporter %s, %s runner, report to %s, environment %s -> read as %s)'
                                       % (what, sc['reporter'], sc['flavour'], sc['sink'], ENVS[sc['env']] or 'unchanged', enc),
                                       shape='c19:' + shape, case=describe(sc, res)))
    if scenarios:
        out.samples.append(describe(scenarios[1], results[1]))
    out.extra['content_cli_cases'] = len(scenarios)
    out.extra['content_stdout_encodings'] = {e: list(probe(e)) for e in ENVS}
    out.extra.setdefault('trusted_base', []).append(
        'harness/c19_content.py: scenario truth (c19_reporters.truth + first failure of a chain), reading the sink with the '
        "encoding the interpreter reports for it, Python's json.loads as the reference reader")
    out.rule += (' || content (c19_content.py, CLI): 2-4 task scenarios whose actions / failures / teardowns / names carry texts of the classes '
                 'ascii, latin, bmp, astral, lone surrogate, control, json look-alike, U+2028/2029/85, 70 000 characters, no newline x report '
                 'sink {stdout under PYTHONIOENCODING unset/ascii/latin-1/utf-8/cp1252/utf-16, C locale, -o FILE} x {serial, thread, process} x '
                 '{json; console family on sinks that can encode the texts}; non-trivial = distinct scenario with a text beyond ASCII')
    return out


def replay_cli(ctx, payload):
    sc = undescribe(payload['case'])
    res = run_all(ctx, [sc], tag='replay')[0]
    print('environment', ENVS[sc['env']], 'sink', sc['sink'], 'read as', sink_codec(sc))
    print('exit code', res['rc'])
    print('--- stdout\n' + ascii(short(res['stdout'], 1500)))
    print('--- stderr\n' + short(res['stderr'], 1500))
    if sc['sink'] == 'file':
        print('--- report file\n' + ascii(short(res['doc'], 1500)))
    bad = oracle(sc, res)
    for shape, what in bad:
        print('VIOLATION-SHAPE c19:%s: %s' % (shape, what))
    return 1 if bad else 0


# ================================================================== part 'jsontext': the JsonReporter class
CODECS = {'ascii': 0, 'latin-1': 1, 'utf-8': 2, 'cp1252': 3, 'koi8-r': 3, 'iso8859-15': 3, 'utf-16': None}
RESULTS = [None, 'success', 'fail', 'up-to-date', 'ignore']
PRE_JT = 'From DoitV Require Import Base JsonText.\nOpen Scope N_scope.\n'


class Msg(object):
    """stands for the failure object: the reporter only asks for get_msg()"""
    def __init__(self, text):
        self.text = text

    def get_msg(self):
        return self.text


def small_text(rng, classes=None):
    if rng.random() < 0.1:
        return ''
    s = ''
    for _ in range(rng.choice([1, 1, 2, 3])):
        c = rng.choices(classes or CLASSES, weights=[WEIGHTS[CLASSES.index(c)] for c in (classes or CLASSES)])[0]
        s += rng.choice(PIECES[c]) + rng.choice(['', ' ', '\n'])
    if rng.random() < 0.15:      # code points next to each other that the reader may join / every escape of the serialiser
        s += rng.choice(['\U0001f600', '\ud83d', '\ude00\ud83d', '\ud83d\U0001F600', '\U0010ffff', '\U00010000',
                         '\x07\x08\x09\x0a\x0b\x0c\x0d\x1f \x7e\x7f\x80', '/', '\uffff\U00010000'])
    return s


def gen_jt(rng, codec=None):
    tasks = []
    for i in range(rng.choice([0, 1, 1, 2, 3])):
        res = rng.choice(RESULTS)
        tasks.append(dict(name='t%d%s' % (i, small_text(rng, [c for c in CLASSES if c != 'ascii']).replace('=', '') if rng.random() < 0.4 else ''), result=res,
                          started=rng.random() < 0.5,
                          outs=[small_text(rng) for _ in range(rng.choice([0, 1, 1, 2]))],
                          errs=[small_text(rng) for _ in range(rng.choice([0, 0, 1, 2]))],
                          msg=small_text(rng) if res == 'fail' else None))
    return dict(part='jsontext', tasks=tasks, out=small_text(rng), err=small_text(rng),
                errors=[small_text(rng) for _ in range(rng.choice([0, 0, 1, 2]))],
                codec=codec or rng.choice(['ascii', 'ascii', 'latin-1', 'utf-8', 'utf-8', 'cp1252', 'koi8-r', 'iso8859-15', 'utf-16']))


def drive_class(case):
    """the real JsonReporter on a strict text stream of the given codec: (raised, bytes written, texts handed to json.dump
    that the case does not fix: started / elapsed of every task)"""
    from doit.reporter import JsonReporter
    from doit.task import Task
    raw = io.BytesIO()
    stream = io.TextIOWrapper(raw, encoding=case['codec'], errors='strict', newline='\n', write_through=True)
    old = sys.stdout, sys.stderr
    raised, times = None, []
    try:
        try:
            rep = JsonReporter(stream)
            objs = []
            for t in case['tasks']:
                task = Task(t['name'], [(lambda: True) for _ in range(max(len(t['outs']), len(t['errs'])))])
                objs.append(task)
                rep.get_status(task)
            for t, task in zip(case['tasks'], objs):
                if t['started']:
                    rep.execute_task(task)
                for k, a in enumerate(task.actions):
                    a.out = t['outs'][k] if k < len(t['outs']) else None
                    a.err = t['errs'][k] if k < len(t['errs']) else None
                if t['result'] == 'success':
                    rep.add_success(task)
                elif t['result'] == 'fail':
                    rep.add_failure(task, Msg(t['msg']))
                elif t['result'] == 'up-to-date':
                    rep.skip_uptodate(task)
                elif t['result'] == 'ignore':
                    rep.skip_ignore(task)
            sys.stdout.write(case['out'])
            sys.stderr.write(case['err'])
            for m in case['errors']:
                rep.cleanup_error(Msg(m))
            try:
                rep.complete_run()
                stream.flush()
            finally:
                for task in objs:
                    r = rep.t_results[task.name]
                    times.append((r.started, None if r.elapsed is None else repr(r.elapsed)))
        finally:
            sys.stdout, sys.stderr = old
    except Exception as x:
        raised = '%s: %s' % (type(x).__name__, x)
    return raised, raw.getvalue(), times


def cps(s):
    return '[' + '; '.join(str(ord(c)) for c in s) + ']'


def opt(s):
    return 'None' if s is None else 'Some ' + cps(s)


LINE_SEP = "\n<------------------------------------------------>\n"


def declared(case, t):
    """the texts of one task's record as declared by the case (TaskResult.set_result, reporter.py 180-187, joins the
    non-empty outputs of the task's actions with LINE_SEP)"""
    if t['result'] is None:
        return None, None, None
    return (LINE_SEP.join(x for x in t['outs'] if x), LINE_SEP.join(x for x in t['errs'] if x), t['msg'])


def in_order(parts, whole):
    """the oracle's own reading of "the output of the task's actions": every piece, in order, nothing lost"""
    if whole is None:
        return not parts
    pos = 0
    for x in parts:
        k = whole.find(x, pos)
        if k < 0:
            return False
        pos = k + len(x)
    return len([x for x in parts if x]) > 1 or whole == ''.join(parts)


def coq_jt(case, times):
    recs = []
    for t, (started, elapsed) in zip(case['tasks'], times):
        o, e, m = declared(case, t)
        recs.append('Build_jtask %s %s %s %s %s %s %s' % (cps(t['name']), '(%s)' % opt(t['result']), '(%s)' % opt(o), '(%s)' % opt(e),
                                                          '(%s)' % opt(m), '(%s)' % opt(started), '(%s)' % opt(elapsed)))
    err = case['err'] + '\n'.join(case['errors'])
    return 'enc_written (write (codec %d) (dumps_doc (Build_jtdoc [%s] %s %s)))' % (
        CODECS[case['codec']] if CODECS[case['codec']] != 3 else 0, '; '.join(recs), cps(case['out']), cps(err))


def reader(s):
    """what the reference reader gives back for a text written by the reference writer"""
    return None if s is None else json.loads(json.dumps(s))


def oracle_jt(case, raised, data):
    bad = []
    if raised:
        bad.append(('jsontext-write-failed', 'JsonReporter.complete_run raised %s after writing %d bytes' % (raised, len(data))))
    try:
        text = data.decode(case['codec'])
    except UnicodeError as x:
        return bad + [('jsontext-not-decodable', 'what was written is not %s text: %s' % (case['codec'], x))]
    try:
        doc = json.loads(text)
    except ValueError as x:
        return bad + [('jsontext-not-single-document', 'what was written is not one valid JSON document (%s): %r' % (x, short(text)))]
    want = [(reader(t['name']), t['result'], reader(t['msg']), t['started']) for t in case['tasks']]
    recs = doc.get('tasks', []) if isinstance(doc, dict) else []
    got = [(r.get('name'), r.get('result'), r.get('error'), r.get('started') is not None) for r in recs]
    if got != want:
        bad.append(('jsontext-task-wrong', 'the document lists %s, the reporter was told %s' % (ascii(got), ascii(want))))
    else:
        for t, r in zip(case['tasks'], recs):
            for key, parts in (('out', t['outs']), ('err', t['errs'])):
                parts = [reader(x) for x in parts if x] if t['result'] is not None else []
                if not in_order(parts, r.get(key)):
                    bad.append(('jsontext-task-wrong', 'task %s: %s is %s, its actions wrote %s' % (ascii(t['name']), key, ascii(r.get(key)), ascii(parts))))
    if doc.get('out') != reader(case['out']) or doc.get('err') != reader(case['err'] + '\n'.join(case['errors'])):
        bad.append(('jsontext-output-wrong', 'run-level out / err in the document: %s / %s' % (ascii(doc.get('out')), ascii(doc.get('err')))))
    return bad


def part_jsontext(ctx, out):
    fixed = [dict(part='jsontext', tasks=[dict(name='t0', result='success', started=True, outs=['found caf\udce9.txt\n'], errs=[], msg=None)],
                  out='', err='', errors=[], codec=c) for c in ('ascii', 'utf-8', 'latin-1')]
    fixed += [dict(part='jsontext', tasks=[dict(name='t0_\xe9', result='fail', started=False, outs=[], errs=['\U0001F600'], msg='caf\xe9 "q" \\ \x7f')],
                   out='\u2028', err='\x00', errors=['td \u20ac'], codec=c) for c in ('ascii', 'cp1252', 'utf-16')]
    cases = fixed + [gen_jt(ctx.rng) for _ in range(ctx.n(200, 4000))]
    items = []
    for case in cases:
        try:
            raised, data, times = drive_class(case)
        except Exception as x:            # e.g. the reporter cannot even be built
            raised, data, times = 'HARNESS: %r' % x, b'', [(None, None)] * len(case['tasks'])
        out.evaluations += 1
        out.count('jsontext:%s:%s' % (case['codec'], 'raised' if raised else 'written'))
        texts = [case['out'], case['err']] + case['errors'] + [x for t in case['tasks'] for x in [t['name'], t['msg'] or ''] + t['outs'] + t['errs']]
        narrow = case['codec'] != 'utf-16' and not all(encodable(x, case['codec'], 'strict') for x in texts)
        if narrow:
            out.count('jsontext:stream-cannot-encode-some-text')
        if any(ord(ch) > 127 for x in texts for ch in x):
            out.nontrivial.add(('jsontext', case['codec'], hash(ascii(texts)) % (1 << 40)))
        seen = set()
        for shape, what in oracle_jt(case, raised, data):
            if shape not in seen:
                seen.add(shape)
                out.violations.append(dict(what='%s (JsonReporter on a %s stream)' % (what, case['codec']), shape='c19:' + shape, case=case))
        if CODECS[case['codec']] is not None and len(times) == len(case['tasks']):
            items.append(dict(model=coq_jt(case, times), expected=[1 if raised else 0] + list(data), case=case))
    # the reader of Model/JsonText.v ([scan], used by C19_json_text_string_read_back) against the reference reader
    for case in cases[:ctx.n(100, 1500)]:
        for x in ([case['out']] + [y for t in case['tasks'] for y in t['outs']])[:2]:
            items.append(dict(model='enc_scan (scan (tl (esc_string %s)))' % cps(x), expected=[1, 0] + [ord(c) for c in reader(x)],
                              case=dict(part='jsontext-reader', text=x)))
    # = common.compare_with_model, in smaller shards (long list literals: parsing them is what takes the time)
    outs = common.coq_eval(ctx, PRE_JT, [('', 'cmpZ (%s) %s' % (c['model'], common.zlist(c['expected']))) for c in items],
                           shard=max(25, len(items) // (2 * common.NCPU) + 1), tag='jsontext')
    bad = [(i, common.parse_zlist(o)) for i, o in enumerate(outs) if o != 'None']
    for i, m in bad:
        c = items[i]
        out.mismatches.append(dict(case=c['case'], impl=c['expected'][:400], model=m[:400]))
    out.traces_validated += len(items)
    out.samples.append(cases[3])
    out.extra['jsontext_cases'] = len(cases)
    out.extra['jsontext_cases_compared_with_model'] = len(items)
    out.assumptions = list(out.assumptions) + [
        'json text layer: the characters json.dump produces are modelled (Model/JsonText.v) for the document shape the reporter builds '
        '(strings, null, the text of a float); float formatting and the stream codecs other than ascii / latin-1 / utf-8 are oracles: '
        'cp1252, koi8-r, iso8859-15 are compared as "some codec that maps ASCII to itself" (the hypothesis of C19_json_text_write_never_fails)']
    out.rule += (' || json text (c19_content.py, class level): JsonReporter.complete_run on a strict text stream of codec ascii / latin-1 / utf-8 / '
                 'cp1252 / koi8-r / iso8859-15 / utf-16 with names, captured outputs, failure messages, run-level output of the same text classes '
                 '(+ adjacent surrogate halves, every short escape); bytes compared with Model/JsonText.v; non-trivial = distinct case with a non-ASCII text')
    return out


def replay_jt(ctx, payload):
    case = payload['case']
    raised, data, times = drive_class(case)
    print('raised:', raised)
    print('written:', ascii(short(data, 1500)))
    bad = oracle_jt(case, raised, data)
    for shape, what in bad:
        print('VIOLATION-SHAPE c19:%s: %s' % (shape, what))
    return 1 if bad else 0


def replay(ctx, payload):
    part = payload.get('case', {}).get('part')
    return replay_jt(ctx, payload) if part == 'jsontext' else replay_cli(ctx, payload)
