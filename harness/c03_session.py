"""C03 -- family `session`: the dodo namespace OUTLIVES one run (imported by c03.py).

Everything else in c03.py builds its Task objects and uptodate item objects anew for every operation / every
command line: that is what a `doit` process does.  doit is also driven as a library -- one program (or one IPython
session with the %doit magic) calls DoitMain(ModuleTaskLoader(ns)).run([...]) / doit.api.run_tasks(loader, {...})
many times over the SAME namespace: the task-creators, the DOIT_CONFIG dict, the configuration dicts handed to
tools.config_changed, and uptodate item INSTANCES created once outside the task-creators (often shared by several
tasks) all live on from run to run, while their inputs are edited IN PLACE between the runs.  The dimension added
here is that lifetime:

  objects of the namespace                      lifetimes ('life' of an item)
    HOLD[k] (k=0..2) a configuration: a dict    'S' session: ONE instance per holder / flag / source task, created when the
       (nested dict + list inside) or a str              process starts, handed out by every load to every task that uses it
    FLAG[j] (j=0..2) True / False / None        'L' load: an instance created by the task-creator at every load, given the live
       read by a user callable item                      object (the dict itself)
    DOIT_CONFIG (one dict, edited in place)     'D' detached: created at every load from a deep copy (nothing shared; the control)

  session histories (JSON-able; executed by run_session on one backend)
    ('SetChecker', ck)  ('Write', f, c) ('Touch', f) ('WriteAt', f, c, m) ('TouchAt', f, m) ('Delete', f)      as in c03.py
    ('CfgSet', k, c, how)   holder k gets content CFGS[c]; how = 'clear-update' | 'keywise' (only the keys / nested keys /
                            list elements that differ are touched) -- both IN PLACE, the instances keep their reference -- or
                            'rebind' (a new object: HOLD[k] = ..; the session instance gets `inst.config = ..`; the only way for a str)
    ('Flag', j, b)          FLAG[j] = b
    ('SDef', t, d)          definition of Tt: file_dep, targets, values, result as in c03.py; uptodate items
                            ('bool', b) ('none',) ('cmd', b) ('run_once',) ('config', k, life) ('call', j, life) ('result_dep', u, life)
    ('Run', always, [(t, fail)..], via)   via 'main' : DoitMain(ModuleTaskLoader(ns)).run(['run', '--continue', ['-a'], T..])
                                          via 'api'  : doit.api.run_tasks(ModuleTaskLoader(ns), {T: {}..})   -- the same ns object
                                          via 'reuse': the ONE DoitMain(ModuleTaskLoader(ns)) object of the process, .run([..]) again
    ('Forget', t) ('ForgetAll',) ('Ignore', t) ('ResetDep', t)     the commands, through that one DoitMain object
    ('NewProcess',)         every object of the namespace is created again (contents kept): a process ends, another starts

Oracle (independent: never asks an item object, never reads the DB).  SessShadow keeps, per task, what its last
successful execution saw: checker, file_dep, (mtime, size, content) of each, and the DECLARED INPUT of every item --
the canonical JSON text of the configuration, whether a run_once item was there, the result recorded for the source
task of a result_dep -- and, at every `skip_uptodate` the reporter is told, evaluates the conditions of C03 on the live
state: config_changed true iff the configuration's content now equals the one seen then; callable = FLAG now;
run_once = the last successful execution had the item; result_dep = the source's recorded result is the one seen
then (and exists).  shape `c03:session-stale-skipped:<first failing condition>`.

Correspondence.  (1) histories without result_dep are translated to the run-level model of c03.py (PRE_E2E: every
change of a declared input -- CfgSet, Flag -- becomes a SetDef of the tasks that use it; lifetimes and NewProcess
vanish: the model has item VALUES) and the per-task decisions + final DB content are compared.  (2) Model/ItemObj.v:
the life of ONE real tools.config_changed instance (in-place edits of its dict, calls with arbitrary `values`, runs of
the saver it registered) against `cc_life CCcurrent cc_new`, with its own oracle ("unchanged" only if the recorded digest is the
digest of the content now; the saver must record the digest of the content at the last call): shapes
`c03:config-instance-stale-verdict`, `c03:config-instance-stale-record`.
"""
import contextlib, copy, hashlib, io, json, os
import common
from common import Outcome
import c03

NT, NF = c03.NT, c03.NF
NH = 3          # holders / flags

# configuration contents; ids are the digests of the model (UConfig id)
CFGS = {0: {'level': 1}, 1: {'level': 2}, 2: {'level': 1, 'opt': {'x': [1, 2], 'y': 'a'}}, 3: {'level': 1, 'opt': {'x': [1, 3], 'y': 'a'}},
        4: {}, 5: {'opt': {'x': [1, 2], 'y': 'a'}, 'level': 1, 'name': 'é'}, 6: 'cfg6', 7: 'cfg7'}


def canon(x):
    """the oracle's notion of 'the same configuration': same JSON text with sorted keys (a str: itself)"""
    return x if isinstance(x, str) else json.dumps(x, sort_keys=True)


# what the DB holds for a content (the harness's own computation), for the dump encoder of c03.World
for _c, _v in CFGS.items():
    if not isinstance(_v, str):
        c03.CFG_DIGEST[hashlib.md5(canon(_v).encode('utf-8')).hexdigest()] = _c
DIGEST_OF = {c: (v if isinstance(v, str) else hashlib.md5(canon(v).encode('utf-8')).hexdigest()) for c, v in CFGS.items()}
ID_OF_DIGEST = {d: c for c, d in DIGEST_OF.items()}

LIVES = ('S', 'L', 'D')
KINDS = ('config-inplace', 'config-rebind', 'call', 'result_dep', 'run_once', 'files')


def mutate_in_place(cur, new, how):
    """turn the object `cur` (dict) into content `new` (dict) without creating a new top-level object"""
    if how == 'clear-update':
        cur.clear()
        cur.update(copy.deepcopy(new))
        return
    for key in [k for k in cur if k not in new]:
        del cur[key]
    for key, val in new.items():
        if key in cur and isinstance(cur[key], dict) and isinstance(val, dict):
            mutate_in_place(cur[key], val, 'keywise')
        elif key in cur and isinstance(cur[key], list) and isinstance(val, list):
            if cur[key] != val:
                for i in range(min(len(cur[key]), len(val))):
                    if cur[key][i] != val[i]:
                        cur[key][i] = copy.deepcopy(val[i])
                del cur[key][len(val):]
                cur[key].extend(copy.deepcopy(val[len(cur[key]):]))
        elif key not in cur or cur[key] != val:
            cur[key] = copy.deepcopy(val)


class FlagItem:
    """a user-written uptodate callable that reads mutable state of the namespace"""
    def __init__(self, flags, j):
        self.flags, self.j = flags, j

    def __call__(self, task, values):
        return self.flags[self.j]


class SessReporter:
    log = None
    desc = 'recording'

    def __init__(self, outstream, options):
        pass

    def initialize(self, tasks, selected_tasks):
        pass

    def get_status(self, task):
        SessReporter.log.append(('check', task.name))

    def execute_task(self, task):
        SessReporter.log.append(('execute', task.name))

    def add_failure(self, task, fail):
        SessReporter.log.append(('failure', task.name))

    def add_success(self, task):
        SessReporter.log.append(('success', task.name))

    def skip_uptodate(self, task):
        SessReporter.log.append(('uptodate', task.name))

    def skip_ignore(self, task):
        SessReporter.log.append(('ignore', task.name))

    def cleanup_error(self, exception):
        SessReporter.log.append(('cleanup_error', None))

    def runtime_error(self, msg):
        SessReporter.log.append(('runtime_error', None))

    def teardown_task(self, task):
        pass

    def complete_run(self):
        pass


# ------------------------------------------------------------------ the process
class Session:
    def __init__(self, ctx, backend):
        self.w = c03.World(ctx, backend, 'sess')
        self.w.dep.close()
        self.w.defs = {t: SD() for t in range(NT)}
        self.backend = backend
        self.cid = {k: 0 for k in range(NH)}                       # content id of each holder (harness bookkeeping)
        self.hold = {k: copy.deepcopy(CFGS[0]) for k in range(NH)}
        self.flag = {j: True for j in range(NH)}
        self.fails = {}
        self.new_process()

    # ---- the namespace: built when the process starts, then only USED
    def new_process(self):
        from doit import tools
        from doit.task import result_dep
        self.cc = {k: tools.config_changed(self.hold[k]) for k in range(NH)}
        self.calls = {j: FlagItem(self.flag, j) for j in range(NH)}
        self.rd = {u: result_dep('T%d' % u) for u in range(NT)}
        w = self.w
        self.doit_config = {'dep_file': w.dbpath, 'backend': {'json': 'json', 'dbm': 'dbm', 'sqlite': 'sqlite3'}[self.backend],
                            'check_file_uptodate': 'md5' if w.ck == 'md5' else 'timestamp',
                            'reporter': SessReporter, 'verbosity': 0, 'continue': True, 'always': False}
        ns = {'DOIT_CONFIG': self.doit_config}
        for t in range(NT):
            def creator(t=t):
                d = self.w.defs[t]
                acts = []
                if d['values']:
                    vals = {('u%d' % k): x for k, x in d['values']}
                    acts.append((lambda vals=vals: dict(vals),))

                def final(t=t, d=d):
                    if self.fails.get(t):
                        return False
                    return True if d['result'] is None else 'res%d' % d['result']
                acts.append((final,))
                return {'actions': acts, 'file_dep': [self.w.path(f) for f in sorted(d['file_dep'])],
                        'targets': [self.w.path(f) for f in d['targets']], 'uptodate': [self.item(u) for u in d['uptodate']]}
            creator.__name__ = 'task_T%d' % t
            ns['task_T%d' % t] = creator
        self.ns = ns
        from doit.doit_cmd import DoitMain
        from doit.cmd_base import ModuleTaskLoader
        self.main = DoitMain(ModuleTaskLoader(ns))       # via 'reuse' and the commands: ONE DoitMain / loader object for the process

    def item(self, u):
        """what the task-creator puts into `uptodate` for a declared item, at load time"""
        from doit import tools
        from doit.task import result_dep
        k = u[0]
        if k == 'bool':
            return u[1]
        if k == 'none':
            return None
        if k == 'cmd':
            return 'true' if u[1] else 'false'
        if k == 'run_once':
            return tools.run_once
        if k == 'config':
            if u[2] == 'S':
                return self.cc[u[1]]
            if u[2] == 'L':
                return tools.config_changed(self.hold[u[1]])
            return tools.config_changed(copy.deepcopy(self.hold[u[1]]))
        if k == 'call':
            if u[2] == 'S':
                return self.calls[u[1]]
            if u[2] == 'L':
                return FlagItem(self.flag, u[1])
            r = self.flag[u[1]]
            return lambda: r
        if k == 'result_dep':
            return self.rd[u[1]] if u[2] == 'S' else result_dep('T%d' % u[1])
        raise ValueError(u)

    def cfg_set(self, k, c, how):
        new = CFGS[c]
        cur = self.hold[k]
        if how != 'rebind' and isinstance(cur, dict) and isinstance(new, dict):
            mutate_in_place(cur, new, how)
        else:
            self.hold[k] = copy.deepcopy(new)
            self.cc[k].config = self.hold[k]          # the live instance is given the new object
        self.cid[k] = c
        if canon(self.hold[k]) != canon(new):
            raise AssertionError('harness: in-place edit did not produce the content')

    def doit(self, args=None, api=None, reuse=False):
        from doit.doit_cmd import DoitMain
        from doit.cmd_base import ModuleTaskLoader
        SessReporter.log = []
        buf = io.StringIO()
        with contextlib.redirect_stdout(buf), contextlib.redirect_stderr(buf):
            try:
                if api is not None:
                    from doit.api import run_tasks
                    rc = run_tasks(ModuleTaskLoader(self.ns), {name: {} for name in api})
                elif reuse:
                    rc = self.main.run(args)
                else:
                    rc = DoitMain(ModuleTaskLoader(self.ns)).run(args)
            except SystemExit:
                rc = 90
            except Exception as e:  # noqa -- an exception that leaves run_tasks
                rc = 3
                buf.write(type(e).__name__)
        return rc, list(SessReporter.log), buf.getvalue()


def SD(fd=(), tg=(), utd=(), values=(), result=None):
    return dict(file_dep=list(fd), targets=list(tg), uptodate=[tuple(u) for u in utd], values=[tuple(x) for x in values], result=result)


# ------------------------------------------------------------------ the oracle
class SessShadow(c03.Shadow):
    """c03.Shadow (checker, file_dep, file versions, targets) + the declared inputs of the items"""
    def __init__(self):
        c03.Shadow.__init__(self)
        self.res_now = {}        # u -> id of the result the DB record of Tu holds (None: none)
        self.rec_ck = {}         # u -> checker named in the record of Tu (None: no record written by a success / reset-dep)

    @staticmethod
    def cfg_item(d):
        for u in d['uptodate']:
            if u[0] == 'config':
                return u
        return None

    def items_now(self, s, t):
        """truth value of every item of Tt by the property text, from declared inputs only"""
        d = s.w.defs[t]
        snap = self.last_ok.get(t)
        res = []
        for u in d['uptodate']:
            k = u[0]
            if k in ('bool', 'cmd'):
                res.append(bool(u[1]))
            elif k == 'none':
                res.append(None)
            elif k == 'call':
                res.append(s.flag[u[1]])
            elif k == 'run_once':
                res.append(bool(snap and snap.get('run_once')))
            elif k == 'config':
                res.append(bool(snap and snap.get('cfg') is not None and snap['cfg'] == canon(s.hold[u[1]])))
            elif k == 'result_dep':
                then = snap.get('res', {}).get(u[1]) if snap else None
                res.append(then is not None and then == self.res_now.get(u[1]))
            else:
                raise ValueError(u)
        return res

    def first_failing(self, s, t, items):
        """name of the first condition of C03 that fails (for the shape)"""
        d = s.w.defs[t]
        for u, x in zip(d['uptodate'], items):
            if x is False:
                return u[0]
        if not d['file_dep'] and all(x is None for x in items):
            return 'no-dependencies'
        if any(f not in s.w.fsview for f in d['targets']):
            return 'target'
        return 'file_dep'

    def success(self, s, t):
        d = s.w.defs[t]
        w = s.w
        cu = self.cfg_item(d)
        self.last_ok[t] = dict(ck=w.ck, file_dep=list(d['file_dep']), view={f: w.fsview[f] for f in d['file_dep']},
                               cfg=canon(s.hold[cu[1]]) if cu else None,
                               run_once=any(u[0] == 'run_once' for u in d['uptodate']),
                               res={u[1]: self.res_now.get(u[1]) for u in d['uptodate'] if u[0] == 'result_dep'})
        if d['result'] is not None:
            self.res_now[t] = d['result']
        elif self.rec_ck.get(t) != w.ck:          # no record, or one of the other checker (wiped): no result in it now
            self.res_now[t] = None
        self.rec_ck[t] = w.ck

    def removed(self, t):
        self.last_ok.pop(t, None)
        self.res_now[t] = None
        self.rec_ck[t] = None

    def reset_dep_processed(self, s, t):
        d = s.w.defs[t]
        w = s.w
        old = self.last_ok.get(t) or {}
        self.last_ok[t] = dict(ck=w.ck, file_dep=list(d['file_dep']), view={f: w.fsview[f] for f in d['file_dep']},
                               cfg=old.get('cfg'), run_once=old.get('run_once', False), res=dict(old.get('res', {})))
        self.rec_ck[t] = w.ck                      # values and result are kept by reset-dep


def has_result_dep(h):
    return any(o[0] == 'SDef' and any(u[0] == 'result_dep' for u in o[2]['uptodate']) for o in h)


def run_session(ctx, backend, h, out):
    """executes a session history in this process; returns the ints compared with the model (decisions per task of every
    Run in command-line order, -7, logical DB content); C03 findings are appended to out.violations"""
    s = Session(ctx, backend)
    w = s.w
    sh = SessShadow()
    codes = []
    try:
        for oi, o in enumerate(h):
            k = o[0]
            if k in ('Write', 'Touch', 'WriteAt', 'TouchAt', 'Delete'):
                w.apply(o)
                if w.not_fresh:
                    sh.fresh = False
            elif k == 'SDef':
                w.defs[o[1]] = o[2]
            elif k == 'CfgSet':
                s.cfg_set(o[1], o[2], o[3])
            elif k == 'Flag':
                s.flag[o[1]] = o[2]
            elif k == 'SetChecker':
                w.ck = o[1]
                s.doit_config['check_file_uptodate'] = 'md5' if o[1] == 'md5' else 'timestamp'      # in place
            elif k == 'NewProcess':
                s.new_process()
            elif k == 'Run':
                s.fails.clear(); s.fails.update({t: f for t, f in o[2]})
                order = [t for t, _ in o[2]]
                if o[3] == 'api':
                    s.doit_config['always'] = bool(o[1])
                    rc, log, txt = s.doit(api=['T%d' % t for t in order])
                    s.doit_config['always'] = False
                else:
                    rc, log, txt = s.doit(['run', '--continue'] + (['-a'] if o[1] else []) + ['T%d' % t for t in order], reuse=(o[3] == 'reuse'))
                if rc == 3:
                    codes.append(97)
                    if 'TypeError' in txt:
                        out.violations.append(dict(what='doit run crashed with TypeError in a session', shape='c03:session-typeerror',
                                                   case=dict(history=h, backend=backend, session=True, unshrunk_history=None)))
                    continue
                # the oracle follows the reporter's events in order (serial runner: a task is checked after its task_deps ended)
                for ev, name in log:
                    if name is None or not name.startswith('T'):
                        continue
                    t = int(name[1:])
                    if ev == 'uptodate' and sh.fresh and not sh.crashed:
                        items = sh.items_now(s, t)
                        for u in w.defs[t]['uptodate']:
                            out.count('session-skip-judged:%s' % ':'.join(str(x) for x in u if isinstance(x, str)))
                        if not w.defs[t]['uptodate']:
                            out.count('session-skip-judged:file_dep-only')
                        sound, _ = sh.conditions(w, t, items)
                        if not sound:
                            why = sh.first_failing(s, t, items)
                            out.violations.append(dict(
                                what='a run of a session skipped a task as up-to-date although a condition of C03 fails (%s) '
                                     'relative to its last successful execution' % why,
                                shape='c03:session-stale-skipped:%s' % why,
                                case=dict(history=h, backend=backend, task=t, session=True, unshrunk_history=None,
                                          failing_run='operation #%d of the history' % oi)))
                    elif ev == 'success':
                        sh.success(s, t)
                    elif ev == 'failure':
                        sh.removed(t)
                for t in order:
                    evs = [e for e, n in log if n == 'T%d' % t]
                    if 'ignore' in evs:
                        c = 3
                    elif 'uptodate' in evs:
                        c = 2
                    elif 'execute' in evs:
                        c = 0 if 'success' in evs else 1 if 'failure' in evs else 96
                    elif 'failure' in evs:
                        c = 4
                    else:
                        c = 95
                    codes.append(c)
            elif k == 'Forget':
                s.doit(['forget', 'T%d' % o[1]], reuse=True); sh.removed(o[1])
            elif k == 'ForgetAll':
                s.doit(['forget', '--all'], reuse=True)
                for t in range(NT):
                    sh.removed(t)
            elif k == 'Ignore':
                s.doit(['ignore', 'T%d' % o[1]], reuse=True)
            elif k == 'ResetDep':
                rc, log, txt = s.doit(['reset-dep', 'T%d' % o[1]], reuse=True)
                if 'skip' in txt and sh.fresh:           # reset-dep found the task up-to-date: the same verdict, the same conditions
                    items = sh.items_now(s, o[1])
                    sound, _ = sh.conditions(w, o[1], items)
                    if not sound:
                        why = sh.first_failing(s, o[1], items)
                        out.violations.append(dict(
                            what='reset-dep in a session found a task up-to-date although a condition of C03 fails (%s)' % why,
                            shape='c03:session-stale-uptodate-resetdep:%s' % why,
                            case=dict(history=h, backend=backend, task=o[1], session=True, unshrunk_history=None,
                                      failing_run='operation #%d of the history' % oi)))
                if 'processed' in txt:
                    sh.reset_dep_processed(s, o[1])
                elif 'skip' not in txt and 'failed' not in txt:
                    sh.removed(o[1])
                elif sh.last_ok.get(o[1]) is not None and sh.last_ok[o[1]]['ck'] != w.ck:
                    sh.last_ok[o[1]]['maybe_removed'] = True
            else:
                raise ValueError(o)
        w.open()
        try:
            dump = w.dump()
        except Exception as e:  # noqa
            dump = [97, len(type(e).__name__)]
    finally:
        w.finish()
    return codes + [-7] + dump


# ------------------------------------------------------------------ translation to the run-level model of c03.py
def to_model_history(h):
    """session history -> history of c03.run_e2e's language (item values): None when a result_dep occurs"""
    if has_result_dep(h):
        return None
    cid = {k: 0 for k in range(NH)}
    flag = {j: True for j in range(NH)}
    defs = {}

    def mdef(d):
        utd = []
        for u in d['uptodate']:
            if u[0] == 'config':
                utd.append(('config', cid[u[1]]))
            elif u[0] == 'call':
                utd.append(('call', flag[u[1]]))
            else:
                utd.append(tuple(u))
        return dict(file_dep=list(d['file_dep']), targets=list(d['targets']), uptodate=utd, values=list(d['values']), result=d['result'])
    res = []
    for o in h:
        k = o[0]
        if k == 'SDef':
            defs[o[1]] = o[2]
            res.append(('SetDef', o[1], mdef(o[2])))
        elif k == 'CfgSet':
            cid[o[1]] = o[2]
            for t, d in sorted(defs.items()):
                if any(u[0] == 'config' and u[1] == o[1] for u in d['uptodate']):
                    res.append(('SetDef', t, mdef(d)))
        elif k == 'Flag':
            flag[o[1]] = o[2]
            for t, d in sorted(defs.items()):
                if any(u[0] == 'call' and u[1] == o[1] for u in d['uptodate']):
                    res.append(('SetDef', t, mdef(d)))
        elif k == 'NewProcess':
            continue
        elif k == 'Run':
            res.append(('Run', o[1], [tuple(x) for x in o[2]]))
        else:
            res.append(o)
    return res


# ------------------------------------------------------------------ generator
def gen_session(rng, out, kind, life, ck, wild, nrounds):
    """one session history.  `kind`: the declared input that is edited between the runs; `life`: lifetime of the item
    objects that read it; `wild`: also commands / definition changes / deletions from the whole alphabet."""
    h = [('SetChecker', ck)]
    rank = list(range(NT)); rng.shuffle(rank)                   # result_dep only towards a task of lower rank: no cycles
    share = rng.random() < 0.5                                  # two tasks use the same holder / flag / source
    a, b = rng.sample(range(NT), 2)
    if kind == 'result_dep':                                    # a consumes the result of src
        order = sorted(range(NT), key=lambda t: rank[t])
        src, a, b = order[0], order[1], order[2]
    users = [a, b] if share else [a]
    k = rng.randrange(NH)                                       # the holder / flag the family edits
    cur = dict(clock=1, cfg={x: 0 for x in range(NH)}, flag={x: True for x in range(NH)}, res=rng.randrange(4), files={})
    defs = {}

    def via():
        return rng.choice(['main', 'main', 'api', 'reuse'])

    def put(f, c=None):
        c = rng.randrange(5) if c is None else c
        if rng.random() < 0.75:
            h.append(('Write', f, c)); cur['clock'] += 1
        else:
            cur['k'] = cur.get('k', 0) + rng.randrange(1, 4)
            h.append(('WriteAt', f, c, (200 + cur['k']) * rng.choice([1, 1, -1])))
        cur['files'][f] = c

    def cfgset(kk, c=None):
        old = cur['cfg'][kk]
        pool = [x for x in CFGS if isinstance(CFGS[x], dict)] if (kind == 'config-inplace' and kk == k) else list(CFGS)
        c = rng.choice([x for x in pool if x != old]) if c is None else c
        both_dict = isinstance(CFGS[old], dict) and isinstance(CFGS[c], dict)
        if kind == 'config-rebind' or not both_dict:
            how = 'rebind'
        else:
            how = rng.choice(['clear-update', 'keywise', 'keywise'])
        h.append(('CfgSet', kk, c, how)); cur['cfg'][kk] = c
        out.count('session-cfgset:%s:%s' % (how, 'dict' if isinstance(CFGS[c], dict) else 'str'))

    def the_item(t):
        lf = life if rng.random() < 0.85 else rng.choice(LIVES)
        if kind in ('config-inplace', 'config-rebind'):
            return [('config', k, lf)]
        if kind == 'call':
            return [('call', k, lf)]
        if kind == 'result_dep':
            return [('result_dep', src, lf if lf != 'D' else 'L')]
        if kind == 'run_once':
            return [('run_once',)]
        return []

    def others(t):
        res = []
        for _ in range(rng.choice([0, 0, 1, 2])):
            r = rng.random()
            if r < 0.3:
                res.append(('bool', True))
            elif r < 0.45:
                res.append(('none',))
            elif r < 0.55:
                res.append(('cmd', True))
            elif r < 0.7:
                res.append(('run_once',))
            elif r < 0.85:
                j = rng.choice([x for x in range(NH) if not (kind == 'call' and x == k)])
                res.append(('call', j, rng.choice(LIVES)))
            elif kind not in ('config-inplace', 'config-rebind'):      # one config item per task ('_config_changed' is one key)
                res.append(('config', rng.randrange(NH), rng.choice(LIVES)))
        if sum(1 for u in res if u[0] == 'config') > 1:
            res = [u for u in res if u[0] != 'config']
        return res

    def sdef(t, with_item=True):
        fds = rng.sample([0, 1], rng.choice([0, 1, 1, 2])) if kind != 'files' else rng.sample([0, 1], rng.choice([1, 2]))
        tg = [2] if (t == 0 and rng.random() < 0.25) else []
        oth = others(t)
        pos = rng.randrange(len(oth) + 1)
        utd = oth[:pos] + (the_item(t) if with_item else []) + oth[pos:]
        vals = [(i, rng.choice([None, 0, 1, 5])) for i in rng.sample(range(3), rng.choice([0, 0, 1]))]
        defs[t] = SD(fds, tg, utd, vals, rng.choice([None, None, 0, 1]))
        h.append(('SDef', t, defs[t]))

    def run(sel=None, always=False, failp=0.0):
        sel = sel if sel is not None else sorted(defs)
        h.append(('Run', always, [(t, rng.random() < failp) for t in sel], via()))

    def change_input():
        """the declared input of the family's item changes"""
        if kind in ('config-inplace', 'config-rebind'):
            cfgset(k)
        elif kind == 'call':
            cur['flag'][k] = rng.choice([x for x in (True, False, None) if x != cur['flag'][k]])
            h.append(('Flag', k, cur['flag'][k]))
        elif kind == 'result_dep':
            cur['res'] = rng.choice([x for x in range(4) if x != cur['res']])
            defs[src] = dict(defs[src], result=cur['res'])
            h.append(('SDef', src, defs[src]))
        elif kind == 'run_once':
            t = rng.choice(users)
            has = any(u == ('run_once',) for u in defs[t]['uptodate'])
            d = dict(defs[t])
            d['uptodate'] = [u for u in d['uptodate'] if u != ('run_once',)] if has else d['uptodate'] + [('run_once',)]
            defs[t] = d
            h.append(('SDef', t, d))
        else:
            fs = [f for t in users for f in defs[t]['file_dep']]
            if fs:
                f = rng.choice(fs)
                put(f, rng.choice([c for c in range(5) if c != cur['files'].get(f)]))

    # ---- prologue: files, contents, definitions, first runs
    for f in range(NF):
        put(f)
    for kk in range(NH):
        if rng.random() < 0.6:
            cfgset(kk)
    if kind == 'result_dep':
        defs[src] = SD([], [], [], [], cur['res'])             # no dependencies: executed (and its result recorded) in every run
        h.append(('SDef', src, defs[src]))
    for t in users:
        sdef(t)
    for t in range(NT):
        if t not in defs and rng.random() < 0.4:
            sdef(t, with_item=False)
    run()
    if rng.random() < 0.7:
        run()                                                   # nothing changed: every task may be skipped
    seen_cfg = [cur['cfg'][k]]
    for r in range(nrounds):
        steps = ['input'] * rng.choice([1, 1, 1, 2]) + (['edit'] if rng.random() < 0.3 else []) + (['proc'] if rng.random() < 0.15 else [])
        if wild:
            steps += rng.sample(['forget', 'ignore', 'resetdep', 'delete', 'checker', 'sdef', 'forgetall', 'touch'], rng.choice([0, 1, 1, 2]))
        rng.shuffle(steps)
        for st in steps:
            t = rng.choice(sorted(defs))
            if st == 'input':
                if kind in ('config-inplace', 'config-rebind') and len(seen_cfg) > 1 and rng.random() < 0.4:
                    back = rng.choice([c for c in seen_cfg if c != cur['cfg'][k]] or [None])     # back to an EARLIER content
                    if back is not None and (kind == 'config-rebind' or isinstance(CFGS[back], dict)):
                        cfgset(k, back); out.count('session-input:back-to-earlier')
                    else:
                        change_input()
                else:
                    change_input()
                if kind in ('config-inplace', 'config-rebind'):
                    seen_cfg.append(cur['cfg'][k])
                out.count('session-input:' + kind)
            elif st == 'edit':
                fs = [f for d in defs.values() for f in d['file_dep']]
                if fs:
                    f = rng.choice(fs); put(f, rng.choice([c for c in range(5) if c != cur['files'].get(f)]))
            elif st == 'proc':
                h.append(('NewProcess',))
            elif st == 'forget':
                h.append(('Forget', t))
            elif st == 'forgetall':
                h.append(('ForgetAll',))
            elif st == 'ignore':
                h.append(('Ignore', t))
            elif st == 'resetdep':
                h.append(('ResetDep', t))
            elif st == 'delete':
                f = rng.randrange(NF); h.append(('Delete', f)); cur['files'].pop(f, None)
            elif st == 'touch':
                h.append(('Touch', rng.randrange(NF))); cur['clock'] += 1
            elif st == 'checker':
                h.append(('SetChecker', rng.choice(['md5', 'ts'])))
            elif st == 'sdef':
                if t in users:
                    sdef(t)
                elif not (kind == 'result_dep' and t == src):
                    sdef(t, with_item=False)
        # the run after the change: a selection (only one of the tasks that share the input), sometimes -a, sometimes a failure
        x = rng.random()
        if x < 0.35 and len(defs) > 1:
            run(sel=rng.sample(sorted(defs), rng.randrange(1, len(defs))), failp=0.1)
        elif x < 0.45:
            run(always=True, failp=0.1)
        else:
            run(failp=0.1 if wild else 0.0)
        if rng.random() < 0.6:
            run()
    run()
    run()
    return h


def _norm(h):
    """history from JSON: lists back to tuples"""
    res = []
    for o in h:
        o = tuple(o)
        if o[0] == 'SDef':
            d = o[2]
            o = ('SDef', o[1], SD(d['file_dep'], d['targets'], d['uptodate'], d['values'], d['result']))
        elif o[0] == 'Run':
            o = ('Run', o[1], [tuple(x) for x in o[2]], o[3])
        res.append(o)
    return res


def hkey(h):
    return json.dumps(h, sort_keys=True, default=str)


def explore_session(ctx, out):
    rng = ctx.rng
    n = ctx.n(72, 900)
    cases, n_oracle_only = [], 0
    first_of_shape = {}
    combos = [(kd, lf, ck) for kd in KINDS for lf in LIVES for ck in ('md5', 'ts')]      # 36: every seed meets each of them
    for i in range(n):
        kind, life, ck = combos[i % len(combos)]
        wild = (i // len(combos)) % 2 == 1
        h = gen_session(rng, out, kind, life, ck, wild, rng.choice([1, 2, 2, 3]) if ctx.quick else rng.choice([2, 3, 4, 5]))
        b = ('json', 'dbm', 'sqlite')[(i // 2 + i // len(combos)) % 3]       # a combination meets another backend in every cycle
        before = len(out.violations)
        try:
            obs = run_session(ctx, b, h, out)
        except Exception as e:  # noqa
            obs = [97, len(type(e).__name__)]
        for v in out.violations[before:]:
            first_of_shape.setdefault(v['shape'], v)
        mh = to_model_history(h)
        if mh is None:
            n_oracle_only += 1
            if obs[:1] == [97]:                     # no model to disagree with: a machinery / implementation failure must not be silent
                out.mismatches.append(dict(case=dict(session_history=h), backend=b, impl=obs, model='(oracle-only history) run_session raised'))
        else:
            cases.append(dict(model=c03.e2e_coq(c03.fix_orders(ctx, mh)), expected=obs, desc=('session', h, b)))
        out.count('session:%s' % b)
        out.count('session-kind:%s' % kind)
        out.count('session-life:%s' % life)
        out.count('session-family:%s' % ('wild' if wild else 'plain'))
        for o in h:
            out.count('session-op:' + o[0])
            if o[0] == 'Run':
                out.count('session-run-via:' + o[3])
        for c in obs[:obs.index(-7)] if -7 in obs else []:
            out.count('session-decision:%d' % c)
        out.nontrivial.add('session:' + hkey(h))
    bad = common.compare_with_model(ctx, c03.PRE_E2E, cases, tag='c03s')
    for i, m in bad:
        out.mismatches.append(dict(case=dict(session_history=cases[i]['desc'][1], model=cases[i]['model']), backend=cases[i]['desc'][2],
                                   impl=cases[i]['expected'], model=m))
    out.evaluations += n
    out.traces_validated += len(cases)
    out.extra['session_histories'] = dict(total=n, compared_with_model=len(cases), oracle_only_result_dep=n_oracle_only)
    # the first finding of each shape is shrunk (operation removal; the generated history is kept next to it)
    for shape, v in first_of_shape.items():
        case = v['case']
        try:
            small = c03.shrink(ctx, case['backend'], case['history'], shape, False, run_session, 150)
        except Exception:
            continue
        case['unshrunk_history'] = case['history']
        case['history'] = small
        probe = Outcome(); probe.c04_violations = []
        try:
            run_session(ctx, case['backend'], small, probe)
            case['failing_run'] = [x['case']['failing_run'] for x in probe.violations if x['shape'] == shape][0]
        except Exception:
            case.pop('failing_run', None)
    if cases:
        out.samples.append(dict(session=cases[0]['desc'][1], model=cases[0]['model'], observed=cases[0]['expected']))


# ------------------------------------------------------------------ one real config_changed instance against Model/ItemObj.v
PRE_OBJ = ('From DoitV Require Import Base Status ItemObj.\nOpen Scope Z_scope.\n'
           'Definition life (evs : list cev) : list Z := cc_life CCcurrent cc_new evs.\n')
# values handed to the call: key ids of Status.v (0 run-once, 1 _config_changed, 2 u0)
VKEY = {'run-once': 0, '_config_changed': 1, 'u0': 2}


def gen_life(rng, n):
    """events of one instance: ('set', c, how) the configuration edited | ('call', task#, values) | ('save', task#)
    values: list of (key, content id | None) -- for '_config_changed' the id stands for the digest of that content"""
    evs = [('set', rng.choice([0, 1, 2, 3, 5] if rng.random() < 0.8 else [6, 7]), 'rebind')]
    cur = evs[0][1]
    seen = [cur]
    for _ in range(n):
        r = rng.random()
        if r < 0.35:
            if len(seen) > 1 and rng.random() < 0.4:
                c = rng.choice([x for x in seen if x != cur] or [cur])
            else:
                c = rng.choice([x for x in CFGS if x != cur])
            both = isinstance(CFGS[c], dict) and isinstance(CFGS[cur], dict)
            how = rng.choice(['clear-update', 'keywise', 'keywise', 'rebind']) if both else 'rebind'
            evs.append(('set', c, how)); cur = c; seen.append(c)
        elif r < 0.8:
            vals = []
            x = rng.random()
            if x < 0.45:
                vals.append(('_config_changed', cur))
            elif x < 0.8:
                vals.append(('_config_changed', rng.choice(seen)))
            elif x < 0.9:
                vals.append(('_config_changed', None))
            if rng.random() < 0.3:
                vals.insert(rng.randrange(len(vals) + 1), (rng.choice(['run-once', 'u0']), 1))
            evs.append(('call', rng.randrange(2), vals))
        else:
            evs.append(('save', rng.randrange(2)))
    return evs


def life_coq(evs):
    res = []
    for e in evs:
        if e[0] == 'call':
            cur = e[3]
            vals = '; '.join('(%d, %s)' % (VKEY[k], 'None' if x is None else 'Some %d' % x) for k, x in e[2])
            res.append('CCall %d [%s]' % (cur, vals))
        elif e[0] == 'save':
            res.append('CSave')
    return 'life ([%s]%%N)' % '; '.join(res)


def run_life(evs, out=None):
    """drives one real instance; returns (observed ints, events annotated with the content at each call)"""
    from doit import tools
    from doit.task import Task
    holder = None
    inst = None
    tasks = []
    cur = None
    last_call = None           # content id at the last call (what a saver has to record)
    obs, ann = [], []
    for e in evs:
        if e[0] == 'set':
            new = CFGS[e[1]]
            if inst is None:
                holder = copy.deepcopy(new)
                inst = tools.config_changed(holder)
                tasks = [Task('x%d' % i, None, uptodate=[inst]) for i in range(2)]      # shared by two tasks
            elif e[2] != 'rebind' and isinstance(holder, dict) and isinstance(new, dict):
                mutate_in_place(holder, new, e[2])
            else:
                holder = copy.deepcopy(new)
                inst.config = holder
            cur = e[1]
            ann.append(e)
            continue
        if e[0] == 'call':
            values = {k: (x if k != '_config_changed' or x is None else DIGEST_OF[x]) for k, x in e[2]}
            try:
                r = inst(tasks[e[1]], values)
                z = -1 if r is None else 1 if r else 0
            except Exception:
                z = 98
            obs += [1, z]
            last_call = cur
            ann.append(('call', e[1], e[2], cur))
            want = dict(e[2]).get('_config_changed')
            expect = 1 if (want is not None and CFGS_EQ(want, cur)) else 0
            # C03 is the soundness half: "unchanged" answered for a configuration that differs from the recorded one
            # (the converse -- "changed" for an equal one -- is C04's and is left to the comparison with the model)
            if out is not None and z == 1 and expect == 0:
                out.violations.append(dict(
                    what='a config_changed instance answered "unchanged" although the recorded configuration differs from the '
                         'configuration now (the instance was used before; its dict was edited since)',
                    shape='c03:config-instance-stale-verdict', case=dict(life=evs, event=len(ann) - 1)))
        else:
            try:
                vals = {}
                for sv in tasks[e[1]].value_savers:
                    vals.update(sv())
                dg = vals.get('_config_changed')
                z = -1 if dg is None else ID_OF_DIGEST.get(dg, 91)
            except Exception:
                z = 98
            obs += [2, z]
            ann.append(e)
            expect = -1 if last_call is None else last_call
            if out is not None and z != expect:
                out.violations.append(dict(
                    what='the saver of a config_changed instance recorded another configuration than the one the instance was '
                         'last evaluated on', shape='c03:config-instance-stale-record', case=dict(life=evs, event=len(ann) - 1)))
    return obs, ann


def CFGS_EQ(a, b):
    return canon(CFGS[a]) == canon(CFGS[b])


def explore_instances(ctx, out):
    rng = ctx.rng
    cases = []
    for i in range(ctx.n(150, 1500)):
        evs = gen_life(rng, rng.randrange(3, ctx.n(10, 16)))
        obs, ann = run_life(evs, out)
        cases.append(dict(model=life_coq(ann), expected=obs, desc=evs))
        out.count('instance-life')
        for e in evs:
            out.count('instance-ev:%s%s' % (e[0], ':' + e[2] if e[0] == 'set' else ''))
        if sum(1 for e in evs if e[0] == 'set') > 1 and any(e[0] == 'call' for e in evs):
            out.nontrivial.add('life:' + hkey(evs))
    bad = common.compare_with_model(ctx, PRE_OBJ, cases, tag='c03o')
    for i, m in bad:
        out.mismatches.append(dict(case=dict(life=cases[i]['desc'], model=cases[i]['model']), backend='-', impl=cases[i]['expected'], model=m))
    out.evaluations += len(cases)
    out.traces_validated += len(cases)
    out.extra['config_instance_lives'] = len(cases)


RULE = ('; plus the family session (harness/c03_session.py): the dodo namespace outlives one run -- several DoitMain.run / doit.api.run_tasks '
        'calls, forget / ignore / reset-dep commands and process restarts over ONE namespace whose configuration dicts (nested), flags read by '
        'user callables, result sources and the DOIT_CONFIG dict are edited in place between the runs, with uptodate item instances of three '
        'lifetimes (one per process and shared by tasks / one per load on the live object / detached copy); edited input kind '
        '(config in place, config rebound, callable state, result_dep source, run_once, file) x lifetime x checker round-robin, backends '
        'round-robin, half of them with commands and definition changes mixed in; each session history is non-trivial; judged by a shadow of the '
        'declared inputs at every skip, and (without result_dep) compared with run_task of History.v; plus lives of one real config_changed '
        'instance (in-place edits, calls, saver runs) compared with cc_life of Model/ItemObj.v (non-trivial = edited at least once and called)')


def replay(ctx, payload, out):
    case = payload.get('case', {})
    if 'life' in case:
        evs = [('call', e[1], [tuple(x) for x in e[2]]) if e[0] == 'call' else tuple(e) for e in case['life']]
        obs, ann = run_life(evs, out)
        print('life', obs)
        return
    h = _norm(case.get('history', []))
    b = case.get('backend', 'json')
    print(b, run_session(ctx, b, h, out))
