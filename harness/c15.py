"""C15 -- delayed task creation (create_after): creator evaluated once, after its trigger; created
tasks are ordinary tasks; command-line targets resolved through target_regex / --auto-delayed-regex.

Correspondence: namespaces mixing static creators and `@create_after(executed=, target_regex=, creates=)`
creators are loaded with the real `doit.loader.load_tasks(allow_delayed=True)`, given to the real
`TaskControl` (`process(selection)`), and run
  (a) with the real serial `Runner`, and
  (b) with the real `MThreadRunner` (2-3 workers) under the deterministic scheduler of harness/runlib.py
      (Sched/FakeQueue/FakeChild: one thread runs at a time, the schedule is drawn from ctx.rng),
on a recording reporter and a recording fake dependency manager.  The observation (reporter/dep-manager events,
creator evaluations, the exception that escaped, exit status) is compared with (a) `Delayed.run_cmd` (model of
_filter_tasks + the dispatcher with the loader branch + the serial runner), (b) `Delayed.run_script_cmd`: the
runner's calls (generator.send / select_task / execute_task / process_task_result / finish) are recorded as a
script, the model executes the same script on its dispatcher and must reproduce every yield of the generator,
every event and the exit status.  Everything is evaluated inside Coq.

Input of the model = what the real TaskControl.__init__ left (tasks dict in key order, targets dict, one
DelayedLoader per placeholder) read BEFORE process(); creators as data: for every creator c and every
name t that can become `to_load`, the task list the real generate_tasks(t, creator_c()) returns on a
silent twin of the creator (generate_tasks itself is C18's subject and an oracle here); string
oracles (split(':'), startswith('_regex_target'), re.match, the '_regex_target_<w>:<task>' names) as
tables; iteration order of ExecNode.waiting_me as recorded (wake_rank).

Encoding (list of ints): runner events as in harness/runlib.py / Runner.enc_event
  [1 k] get_status [2 k] skip_ignore [3 k] skip_uptodate [4 k kind] add_failure [5 k] execute_task
  [6 k] add_success [7 k] save_success [8 k] remove_success [9 k] teardown [10] dep_manager.close
  [11] cycle error [12] hold error; new: [14 c l t] creator c evaluated through loader object l with
  generate_tasks(t, ...); [30] reporter.runtime_error (InvalidTask caught by run_all); [15 f]
  InvalidCommand(not_found=f) escaped run_all; [16] KeyError escaped; [40] InvalidCommand from
  process(); then [-1, exit status]; then [-2, 1]: the selected state satisfies the hypotheses init_ok / keys_ok of
  the theorems (Delayed.init_okb over all names of the case).  Every string (task name, file name, command-line word) has one id.
  Scripted (parallel) runs only, Delayed.EOp: [70 p] generator.send(node p) (0 = None) called, answered by
  [60 k] node k / [61 0] "hold on" / [62 0] StopIteration; [71 k] select_task(k) called, [63 b] its result;
  [72 k] process_task_result(k) called; [73 0] finish called.  ([5 k] is the OExec step of the script.)
Markers used only by the independent oracle / statistics (stripped before comparison): [50 c] body of creator c
started, [51 k] action of task k started, [52 c n] creator c evaluated while n of its placeholder names had an ExecNode.

Independent oracle (no model): O1 a creator body starts at most once per run (every runner incl. real threads, DoitMain,
and `python -m doit run -n 2 -P thread|process` on the fixed dodo family e2e_family); O1b a placeholder name is never
reported before its creator ran; O2 only after a final report of the `executed` task; O3 tasks run once, after their
dependencies; O4 unknown words are errors; O5/O5b command-line targets: the producer is processed, nothing outside the
closure; O6 every created task whose placeholder name was reported is reported exactly once, as its own behaviour demands.
"""
import io, json, os, re, sys, threading
import common
from common import Outcome

PRE = ('From DoitV Require Import Base Dispatch Runner Delayed.\nOpen Scope N_scope.\n'
       'Definition FUEL : nat := N.to_nat 4000.\n')
CHECK = {'run': 'CkRun', 'utd': 'CkUpToDate', 'err': 'CkError'}
OUTC = {'ok': 'OOk', 'fail': 'OFail', 'error': 'OError'}
DEFAULT_BEH = dict(check='run', outcome='ok', dbignore=False, teardown=False)
FINAL = (2, 3, 4, 6)
SCRIPT_MODEL = os.environ.get('C15_NO_SCRIPT_MODEL') is None
# which variant of Model/Delayed.v the runs are compared with (VOwn = the seeded change C15b; only for experiments)
MODEL_VARIANT = os.environ.get('C15_MODEL_VARIANT', 'VHead')


# ------------------------------------------------------------------------------------------ generation
def gen_beh(rng, calm):
    if calm:
        return dict(check=rng.choice(['run', 'run', 'utd']), outcome='ok', dbignore=False, teardown=rng.random() < 0.2)
    return dict(check=rng.choices(['run', 'utd', 'err'], weights=[7, 3, 1])[0],
                outcome=rng.choices(['ok', 'fail', 'error'], weights=[10, 2, 1])[0],
                dbignore=rng.random() < 0.06, teardown=rng.random() < 0.25)


def gen_case(rng, kind=None):
    """kind: None (random) | 'k3' | 'creates' | 'regex' | 'auto' | 'unknown' | 'multi' (see gen_multi)"""
    if kind == 'multi':
        return gen_multi(rng)
    calm = rng.random() < 0.45
    # two command-line targets produced by the same creator, failure-free behaviours
    two = kind in ('regex', 'auto') and rng.random() < 0.4
    calm = calm or two
    ns = rng.choice([1, 2, 2, 3, 4])
    nd = rng.choice([1, 1, 2, 2, 3])
    snames = ['s%d' % i for i in range(ns)]
    creators = []
    for j in range(nd):
        fname = 'd%d' % j
        creates = None
        if rng.random() < (0.3 if kind != 'creates' else 1.0):
            creates = ['c%d%s' % (j, x) for x in 'abc'[:rng.choice([1, 2, 2, 3])]]
        creators.append(dict(fname=fname, cid=j, creates=creates))
    placeholders = {c['fname']: (c['creates'] or [c['fname']]) for c in creators}
    all_ph = [p for c in creators for p in placeholders[c['fname']]]
    statics = []
    for i, nm in enumerate(snames):
        later = snames[i + 1:]
        td = [x for x in rng.sample(later, min(len(later), rng.randrange(0, 3))) if rng.random() < 0.7]
        if rng.random() < 0.08:
            td.append(rng.choice(all_ph))
        st = [x for x in later if rng.random() < 0.12][:1]
        fd = ['f_%s' % x for x in later if rng.random() < 0.2][:1]
        statics.append(dict(name=nm, task_dep=td, setup=st, file_dep=fd, targets=['f_%s' % nm] if rng.random() < 0.6 else [],
                            beh=gen_beh(rng, calm)))
    for j, c in enumerate(creators):
        fname = c['fname']
        r = rng.random()
        ex_pool = snames + [p for cc in creators[:j] for p in placeholders[cc['fname']]]
        if rng.random() < 0.04:
            ex_pool = ex_pool + [p for cc in creators[j + 1:] for p in placeholders[cc['fname']]]
        c['executed'] = rng.choice(ex_pool) if (r < 0.7 and ex_pool) else None
        rr = rng.random()
        if kind in ('regex', 'auto', 'unknown'):
            rr = rng.random() * 0.6 if kind == 'regex' else rr
        c['regex'] = ('f_%s_' % fname) if rr < 0.35 else ('f_d' if rr < 0.6 else None)
        shape = rng.choices(['gen', 'ret', 'empty'], weights=[16, 2, 1])[0]
        items = []
        explicit = []      # names that exist whatever to_load is
        ni = rng.choice([1, 2, 2, 3]) if shape == 'gen' else (1 if shape == 'ret' else 0)
        wanted = list(c['creates'] or [])
        honest = rng.random() < (0.75 if kind != 'creates' else 0.4)
        for i in range(ni):
            it = dict(sub=None, basename=None)
            mode = rng.random()
            if shape == 'ret':
                it['basename'] = rng.choice([None, None, wanted[0] if wanted else None, 'x%d_%d' % (j, i)])
            elif wanted and (honest or rng.random() < 0.5):
                it['basename'] = wanted.pop(0)
            elif mode < 0.45:
                it['sub'] = str(i)                               # default basename = to_load
            elif mode < 0.7:
                it['sub'] = str(i); it['basename'] = (c['creates'] or [fname])[0]
            elif mode < 0.9:
                it['basename'] = 'x%d_%d' % (j, i)
            else:
                it['basename'] = (c['creates'] or [fname])[0] if not any(
                    x['basename'] == (c['creates'] or [fname])[0] for x in items) else 'x%d_%d' % (j, i)
            pool = snames + explicit
            it['task_dep'] = [x for x in rng.sample(pool, min(len(pool), rng.randrange(0, 3))) if rng.random() < 0.6]
            if rng.random() < 0.04 and len(all_ph) > 1:
                it['task_dep'].append(rng.choice([p for p in all_ph if p not in placeholders[fname]] or all_ph))
            it['setup'] = [x for x in snames if rng.random() < 0.06][:1]
            it['targets'] = ['f_%s_%d' % (fname, i)] if rng.random() < 0.7 else []
            fd = []
            if rng.random() < 0.25:
                fd.append('f_%s' % rng.choice(snames))
            if i > 0 and rng.random() < 0.25:
                fd.append('f_%s_%d' % (fname, rng.randrange(0, i)))
            if rng.random() < 0.1:
                fd.append('plain.txt')
            it['file_dep'] = fd
            it['beh'] = gen_beh(rng, calm)
            items.append(it)
            if it['basename'] and it['sub'] is None:
                explicit.append(it['basename'])
            elif it['basename']:
                explicit.append('%s:%s' % (it['basename'], it['sub']))
        # avoid generate_tasks errors: a plain basename task and a group of the same name
        plain = set(x['basename'] for x in items if x['sub'] is None and x['basename'])
        for x in items:
            if x['sub'] is not None and ((x['basename'] in plain) or (x['basename'] is None and (set(placeholders[fname]) & plain))):
                x['sub'] = None
                x['basename'] = 'y%d_%s' % (j, len(plain)); plain.add(x['basename'])
        seen = set()
        for x in items:   # no duplicated plain basenames
            if x['sub'] is None:
                while x['basename'] in seen:
                    x['basename'] += 'z'
                seen.add(x['basename'])
        # dependencies of created tasks must exist (dangling names are outside the model: KeyError in _gen_node)
        known = set(snames) | set(all_ph)
        for x in items:
            x['task_dep'] = [t for t in x['task_dep'] if t in known]
            if x['basename'] and x['sub'] is None:
                known.add(x['basename'])
            elif x['basename']:
                known.add('%s:%s' % (x['basename'], x['sub']))
        if rng.random() < 0.03 and items:     # common target with a static task -> InvalidTask at creation time
            items[-1]['targets'] = ['f_%s' % snames[0]]
        c['shape'] = shape; c['items'] = items
        c['ph_beh'] = {p: dict(DEFAULT_BEH, check=rng.choice(['run', 'run', 'run', 'utd'])) for p in placeholders[fname]}
    # selection
    words = []
    for c in creators:
        f = c['fname']; base = (c['creates'] or [f])[0]
        words += placeholders[f] + ['%s:0' % base, '%s:1' % base, '%s:9' % base]
        words += ['f_%s_%d' % (f, i) for i in range(3)] + ['f_%s_9' % f]
        words += [x['basename'] for x in c['items'] if x['basename'] and x['sub'] is None]
    words += snames + ['f_%s' % s for s in snames] + ['nope', '%s:1' % snames[0], 'f_dx']
    r = rng.random()
    if kind is None and r < 0.3:
        sel = None
    else:
        sel = [rng.choice(words) for _ in range(rng.choice([1, 1, 1, 2, 2, 3]))]
    c0 = creators[0]; base0 = (c0['creates'] or [c0['fname']])[0]
    if kind == 'k3':
        sel = ['%s:9' % base0]
    elif kind == 'unknown':
        sel = [rng.choice(['nope', 'f_%s_9' % c0['fname'], 'f_dx'])]
    elif kind in ('regex', 'auto'):
        sel = ['f_%s_%d' % (c0['fname'], rng.randrange(0, 3))] + ([rng.choice(words)] if rng.random() < 0.3 else [])
        if rng.random() < 0.35:      # a second target of the same creator
            sel.append('f_%s_%d' % (c0['fname'], rng.randrange(0, 3)))
        made = [t for it in c0['items'] for t in it['targets'] if t.startswith('f_%s_' % c0['fname'])]
        if two and len(made) >= 2:
            sel = rng.sample(made, 2)
    auto = (rng.random() < 0.3) if kind != 'auto' else True
    return dict(statics=statics, creators=creators, sel=sel, auto=auto, cont=rng.random() < 0.5, always=rng.random() < 0.12,
                kind=kind or 'random')


def gen_multi(rng):
    """one creator with 2-3 names in `creates`, every name yielded (plain task or group of sub-tasks, with or
    without targets), placeholder nodes made BEFORE the first evaluation: a static task `s0` with several of the
    names as task_dep (shared parent), and/or an `executed` trigger (under a parallel runner the other
    placeholders are instantiated while the trigger runs); optionally a second creator triggered by a created name"""
    calm = rng.random() < 0.75
    ns = rng.choice([2, 3, 3, 4])
    snames = ['s%d' % i for i in range(ns)]
    names = ['c0%s' % x for x in 'abc'[:rng.choice([2, 2, 3])]]
    with_targets = rng.random() < 0.5
    shared = rng.random() < 0.7
    creators = [dict(fname='d0', cid=0, creates=list(names))]
    second = rng.random() < 0.3
    if second:
        creators.append(dict(fname='d1', cid=1, creates=rng.choice([None, ['c1a'], ['c1a', 'c1b']])))
    placeholders = {c['fname']: (c['creates'] or [c['fname']]) for c in creators}
    statics = []
    for i, nm in enumerate(snames):
        later = snames[i + 1:]
        td = [x for x in rng.sample(later, min(len(later), rng.randrange(0, 3))) if rng.random() < 0.6]
        if i == 0 and shared:
            sub = rng.sample(names, rng.choice([2, len(names)]))
            pos = rng.randrange(0, len(td) + 1)
            td = td[:pos] + sub + td[pos:]
            if second and rng.random() < 0.5:
                td.append(rng.choice(placeholders['d1']))
        statics.append(dict(name=nm, task_dep=td, setup=[x for x in later if rng.random() < 0.1][:1], file_dep=[],
                            targets=['f_%s' % nm] if rng.random() < 0.4 else [], beh=gen_beh(rng, calm)))
    for j, c in enumerate(creators):
        fname = c['fname']
        if j == 0:
            # the trigger must not depend on the shared parent s0
            pool = snames[1:] if shared else snames
            c['executed'] = rng.choice(pool) if (pool and rng.random() < (0.55 if shared else 0.9)) else None
            c['regex'] = ('f_%s_' % fname) if (with_targets and rng.random() < 0.4) else None
            order = list(names)
            if rng.random() < 0.4:
                rng.shuffle(order)
            items = []
            for i, nm in enumerate(order):
                grp = rng.random() < 0.3
                for sub in (['0', '1'][:rng.choice([1, 2])] if grp else [None]):
                    k = len(items)
                    items.append(dict(sub=sub, basename=nm,
                                      task_dep=[x for x in snames[1:] if rng.random() < 0.25][:2], setup=[],
                                      targets=['f_%s_%d' % (fname, k)] if with_targets else [],
                                      file_dep=(['f_%s_%d' % (fname, rng.randrange(0, k))] if (with_targets and k and rng.random() < 0.3) else []),
                                      beh=gen_beh(rng, calm)))
            if rng.random() < 0.2:
                items.append(dict(sub=None, basename='x0_9', task_dep=[], setup=[], targets=[], file_dep=[], beh=gen_beh(rng, calm)))
        else:
            c['executed'] = rng.choice(names + snames[1:] + [None])
            c['regex'] = None
            items = []
            for i, nm in enumerate(placeholders[fname]):
                items.append(dict(sub=None, basename=nm, task_dep=[x for x in names if rng.random() < 0.3][:1], setup=[],
                                  targets=['f_%s_%d' % (fname, i)] if rng.random() < 0.5 else [], file_dep=[], beh=gen_beh(rng, calm)))
        c['shape'] = 'gen'; c['items'] = items
        c['ph_beh'] = {p: dict(DEFAULT_BEH, check=rng.choice(['run', 'run', 'run', 'utd'])) for p in placeholders[fname]}
    r = rng.random()
    if r < 0.3:
        sel = None
    elif r < 0.5 and shared:
        sel = ['s0'] + ([rng.choice(names)] if rng.random() < 0.4 else [])
    elif r < 0.8:
        sel = list(names); rng.shuffle(sel)
        if rng.random() < 0.3:
            sel = sel[:2]
        if rng.random() < 0.3:
            sel.insert(rng.randrange(0, len(sel) + 1), rng.choice(snames))
    elif r < 0.9:
        sel = ['%s:0' % names[1], names[0]] if rng.random() < 0.5 else [names[1], '%s:0' % names[0], names[-1]]
    else:
        sel = [rng.choice(names + snames) for _ in range(rng.choice([1, 2, 3]))]
    return dict(statics=statics, creators=creators, sel=sel, auto=rng.random() < 0.2, cont=rng.random() < 0.5,
                always=rng.random() < 0.1, kind='multi')


# ------------------------------------------------------------------------------------------ namespace
class Ids:
    def __init__(self):
        self.m = {}

    def __call__(self, s):
        if s not in self.m:
            self.m[s] = len(self.m) + 1
        return self.m[s]


def item_dict(it, log, nid, gate):
    beh = it['beh']

    def act(task):                     # doit passes the Task object to a parameter called `task`
        log.append([51, nid(task.name)])
        if gate and gate[0]:
            gate[0]()
        o = beh['outcome']
        if o == 'fail':
            return False
        if o == 'error':
            raise RuntimeError('action error')
        return True
    d = {'actions': [act], 'task_dep': list(it['task_dep']), 'setup': list(it.get('setup', [])),
         'file_dep': list(it['file_dep']), 'targets': list(it['targets']), 'meta': {'beh': dict(beh)}}
    if beh['teardown']:
        d['teardown'] = [lambda: None]
    if it.get('sub') is not None:
        d['name'] = it['sub']
    if it.get('basename'):
        d['basename'] = it['basename']
    return d


def build_ns(case, log, nid, quiet=False, gate=None):
    """namespace of task-creators.  quiet=True: the silent twin (no log entries)"""
    from doit import create_after
    ns = {}
    lg = [] if quiet else log
    for s in case['statics']:
        def fn(s=s):
            d = item_dict(dict(s, sub=None, basename=None), lg, nid, gate)
            return d
        ns['task_' + s['name']] = fn
    for c in case['creators']:
        if c['shape'] == 'ret':
            def cr(c=c):
                lg.append([50, c['cid']])
                return item_dict(c['items'][0], lg, nid, gate)
        else:
            def cr(c=c):
                lg.append([50, c['cid']])
                for it in c['items']:
                    yield item_dict(it, lg, nid, gate)
        cr._c15_cid = c['cid']
        cr = create_after(executed=c['executed'], target_regex=c['regex'], creates=c['creates'])(cr)
        ns['task_' + c['fname']] = cr
    return ns


# ------------------------------------------------------------------------------------------ fakes
class Reporter:
    def __init__(self, log, nid):
        self.log, self.nid = log, nid

    def _e(self, code, task, *more):
        self.log.append([code, self.nid(task.name)] + list(more))

    def get_status(self, t): self._e(1, t)
    def skip_ignore(self, t): self._e(2, t)
    def skip_uptodate(self, t): self._e(3, t)
    def add_failure(self, t, f):
        self._e(4, t, {'TaskFailed': 0, 'TaskError': 1, 'UnmetDependency': 2, 'DependencyError': 3}.get(f.get_name(), 9))
    def execute_task(self, t):
        self._e(5, t)
    def add_success(self, t): self._e(6, t)
    def teardown_task(self, t): self._e(9, t)
    def cleanup_error(self, e): pass
    def runtime_error(self, m): self.log.append([30])
    def complete_run(self): pass


class Status:
    def __init__(self, status): self.status = status
    def get_error_message(self): return 'fake error'


def beh_of(task, ph):
    if task.meta and 'beh' in task.meta:
        return task.meta['beh']
    return ph.get(task.name, DEFAULT_BEH)


class FakeDep:
    def __init__(self, ph, log, nid):
        self.ph, self.log, self.nid = ph, log, nid

    def status_is_ignore(self, task):
        return '1' if beh_of(task, self.ph)['dbignore'] else None

    def get_status(self, task, tasks_dict, get_log=False):
        task.dep_changed = []
        return Status({'run': 'run', 'utd': 'up-to-date', 'err': 'error'}[beh_of(task, self.ph)['check']])

    def get_values(self, name): return {}
    def get_value(self, task_id, key): raise Exception('no value')
    def save_success(self, task, result_hash=None): self.log.append([7, self.nid(task.name)])
    def remove_success(self, task): self.log.append([8, self.nid(task.name)])
    def close(self): self.log.append([10])


# ------------------------------------------------------------------------------------------ model rendering
def nl(xs):
    return '[' + '; '.join(str(x) for x in xs) + ']'


def b(x):
    return 'true' if x else 'false'


def coq_dtask(task, ph, nid, loader_name):
    beh = beh_of(task, ph)
    ld = 'None'
    if task.loader:
        ld = 'Some %d' % nid(loader_name[id(task.loader)])
    return ('{| dt := Build_task %s %s %s %s %s %s false %s [] [] []; dt_file_dep := %s; dt_targets := %s; dt_loader := %s |}' % (
        nl([nid(x) for x in task.task_dep]), nl([nid(x) for x in task.setup_tasks]), nl([nid(x) for x in task.calc_dep]),
        b(beh['teardown'] and bool(task.teardown)), b(beh['dbignore']), CHECK[beh['check']], OUTC[beh['outcome'] if task.actions else 'ok'],
        nl([nid(x) for x in task.file_dep]), nl([nid(x) for x in task.targets]), ld))


def match1(arms, default, var='n'):
    return 'match %s with %s | _ => %s end' % (var, ' '.join('| %d => %s' % (k, v) for k, v in arms), default)


def render(case, snap, wake, nid, sfx, script=None):
    sel = case['sel']
    defs = []
    defs.append('Definition tb%s (n : name) : option dtask := %s.' % (sfx, match1([(k, 'Some (%s)' % v) for k, v in snap['tab']], 'None')))
    defs.append('Definition ld%s (n : name) : loader := %s.' % (sfx, match1(snap['ld'], 'empty_loader')))
    defs.append('Definition tg%s (n : name) : option name := %s.' % (sfx, match1([(k, 'Some %d' % v) for k, v in snap['tg']], 'None')))
    arms = []
    for c, per in snap['creators'].items():
        arms.append((c, match1([(t, lst) for t, lst in per], '[]', 't')))
    defs.append('Definition cr%s (c : N) (t : name) : list (name * dtask) := %s.' % (sfx, match1(arms, '[]', 'c')))
    arms = []
    for p, order in wake.items():
        arms.append((p, match1([(x, pos) for pos, x in enumerate(order)], '99', 'x')))
    defs.append('Definition wk%s (p x : name) : N := %s.' % (sfx, match1(arms, '0', 'p')))
    defs.append('Definition bo%s (n : name) : name := %s.' % (sfx, match1(snap['base_of'], 'n')))
    defs.append('Definition ix%s (n : name) : bool := %s.' % (sfx, match1([(k, 'true') for k in snap['is_rx']], 'false')))
    arms = []
    for T, per in snap['rmatch'].items():
        arms.append((T, match1([(f, b(v)) for f, v in per], 'false', 'f')))
    defs.append('Definition rm%s (T f : name) : bool := %s.' % (sfx, match1(arms, 'false', 'T')))
    arms = []
    for f, per in snap['rx_name'].items():
        arms.append((f, match1(per, '0', 'k')))
    defs.append('Definition rn%s (f k : name) : name := %s.' % (sfx, match1(arms, '0', 'f')))
    selc = 'None' if sel is None else '(Some %s)' % nl([nid(w) for w in sel])
    fmt = '%s ' + MODEL_VARIANT + ' cr%s wk%s (fun x => 50 + x) %s %s bo%s ix%s rm%s rn%s %s FUEL (loaded tb%s ld%s tg%s) %s %s'
    expr = fmt % ('run_cmd' if script is None else 'run_script_cmd',
                  sfx, sfx, b(case['cont']), b(case['always']), sfx, sfx, sfx, sfx, b(case['auto']), sfx, sfx, sfx,
                  nl(snap['order']), selc)
    expr += ('' if script is None else ' ' + script) + ' %d%%nat' % (len(nid.m) + 2)
    return '\n'.join(defs), expr


# ------------------------------------------------------------------------------------------ the real thing
def creator_outputs(case, nid, to_loads):
    """oracle: what generate_tasks(to_load, creator()) returns, on the silent twin"""
    from doit.loader import generate_tasks
    from doit.exceptions import InvalidTask
    twin = build_ns(case, None, nid, quiet=True)
    res, names = {}, {}
    for c in case['creators']:
        per = []
        fn = twin['task_' + c['fname']]
        for t in to_loads:
            try:
                new = list(generate_tasks(t, fn(), fn.__doc__))
            except InvalidTask:
                return None, None
            per.append((t, new))
            names[(c['cid'], t)] = [x.name for x in new]
        res[c['cid']] = per
    return res, names


class GenProxy:
    """records what the runner sends to / gets from the dispatcher generator"""
    def __init__(self, gen, log, nid):
        self.gen, self.log, self.nid = gen, log, nid

    def send(self, node):
        self.log.append([70, self.nid(node.task.name) if node is not None else 0])
        try:
            r = self.gen.send(node)
        except StopIteration:
            self.log.append([62, 0])
            raise
        self.log.append([61, 0] if isinstance(r, str) else [60, self.nid(r.task.name)])
        return r


class DispProxy:
    def __init__(self, disp, log, nid):
        self._disp = disp
        self.generator = GenProxy(disp.generator, log, nid)

    def __getattr__(self, a):
        return getattr(self._disp, a)


def run_impl(case, flavour='serial', par=None):
    """flavour: 'serial' | 'thread' (MThreadRunner, real threads, 2 workers) | 'dthread' (MThreadRunner under the
    deterministic scheduler of harness/runlib.py; par = dict(k=<workers>, sched=[choices]))"""
    import doit.control as C
    import doit.runner as R
    from doit.loader import load_tasks
    from doit.exceptions import InvalidTask, InvalidDodoFile, InvalidCommand
    import runlib
    nid = Ids()
    log = []
    gate = [None]
    try:
        ns = build_ns(case, log, nid, gate=gate)
        task_list = load_tasks(ns, allow_delayed=True)
        tc = C.TaskControl(task_list, auto_delayed_regex=case['auto'])
    except (InvalidTask, InvalidDodoFile) as e:
        return dict(skip='load-error: %s' % str(e)[:60])
    ph = {}
    for c in case['creators']:
        ph.update(c['ph_beh'])
    # ---- snapshot of the loaded state (model input), before process()
    loader_name = {}
    for t in task_list:
        if t.loader:
            loader_name[id(t.loader)] = t.name
    sel = case['sel'] or []
    initial = list(tc.tasks.keys())
    to_loads = list(dict.fromkeys([t.name for t in task_list if t.loader] + [w for w in sel if w not in tc.tasks]))
    couts, cnames = creator_outputs(case, nid, to_loads)
    if couts is None:
        return dict(skip='creator-invalid')
    snap = dict(order=[nid(k) for k in initial])
    snap['tab'] = [(nid(k), coq_dtask(t, ph, nid, loader_name)) for k, t in tc.tasks.items()]
    snap['ld'] = []
    cid_of = {}
    for t in task_list:
        if t.loader:
            L = t.loader
            cid = L.creator._c15_cid
            cid_of[id(L)] = cid
            snap['ld'].append((nid(t.name), 'Build_loader %d %s None false %s' % (
                cid, ('(Some %d)' % nid(L.task_dep)) if L.task_dep else 'None', b(bool(L.target_regex)))))
    snap['tg'] = [(nid(f), nid(k)) for f, k in tc.targets.items()]
    snap['creators'] = {}
    for cid, per in couts.items():
        snap['creators'][cid] = [(nid(t), '[' + '; '.join('(%d, %s)' % (nid(x.name), coq_dtask(x, ph, nid, loader_name)) for x in new) + ']')
                                 for t, new in per]
    snap['base_of'] = [(nid(w), nid(w.split(':', 1)[0])) for w in dict.fromkeys(sel)]
    cands = list(dict.fromkeys([t.name for t in task_list if t.loader] + sel))
    snap['rx_name'] = {}
    snap['is_rx'] = []
    for w in dict.fromkeys(sel):
        per = []
        for k in cands:
            nm = '_regex_target_%s:%s' % (w, k)
            per.append((nid(k), nid(nm)))
            snap['is_rx'].append(nid(nm))
        snap['rx_name'][nid(w)] = per
    snap['rmatch'] = {}
    for t in task_list:
        if t.loader and t.loader.target_regex:
            snap['rmatch'][nid(t.name)] = [(nid(w), bool(re.match(t.loader.target_regex, w))) for w in dict.fromkeys(sel)]
    init_loader = {t.name: bool(t.loader) for t in task_list}
    # ---- seam: generate_tasks as called by _add_task (which creator, through which loader object, for which name)
    orig_gt = C.generate_tasks
    creates_of = {c['cid']: (c['creates'] or [c['fname']]) for c in case['creators']}

    def gt(func_name, gen_result, gen_doc=None):
        # called from TaskDispatcher._add_task: `ref` = the creator, `this_task.loader` = the loader object used
        fl = sys._getframe(1).f_locals
        c = getattr(fl.get('ref'), '_c15_cid', 99)
        l = loader_name.get(id(getattr(fl.get('this_task'), 'loader', None)), '?')
        log.append([14, c, nid(l), nid(func_name)])
        # how many placeholder nodes of this creator exist at the moment of the evaluation (marker for the statistics)
        disp_self = fl.get('self')
        if disp_self is not None and c in creates_of:
            log.append([52, c, sum(1 for nm in creates_of[c] if nm in disp_self.nodes)])
        return orig_gt(func_name, gen_result, gen_doc)
    wake = {}
    orig_uw = C.TaskDispatcher._update_waiting

    def uw(self, processed):
        if processed is not None and processed.run_status != 'run':
            wake[nid(processed.task.name)] = [nid(nd.task.name) for nd in processed.waiting_me]
        return orig_uw(self, processed)
    saved_streams = (sys.stdout, sys.stderr)
    rc = None
    crash = None
    C.generate_tasks = gt
    C.TaskDispatcher._update_waiting = uw
    try:
        try:
            tc.process(case['sel'])
        except InvalidCommand:
            log.append([40])
            rc = 3
        if rc is None:
            dep = FakeDep(ph, log, nid)
            rep = Reporter(log, nid)
            disp = tc.task_dispatcher()
            if flavour == 'serial':
                runner = R.Runner(dep, rep, continue_=case['cont'], always_execute=case['always'])
            elif flavour == 'thread':
                runner = R.MThreadRunner(dep, rep, continue_=case['cont'], always_execute=case['always'], num_process=2)
            else:
                runlib.S = runlib.Sched(par['sched'], False)
                runlib.S.log = log

                def g():
                    runlib.S.block(threading.current_thread(), ('busy', 0))
                gate[0] = g

                class SRunner(R.MThreadRunner):
                    Queue = staticmethod(runlib.FakeQueue)
                    Child = staticmethod(runlib.FakeChild)

                    def select_task(self, node, tasks_dict):
                        log.append([71, nid(node.task.name)])
                        r = R.MThreadRunner.select_task(self, node, tasks_dict)
                        log.append([63, 1 if r else 0])
                        return r

                    def process_task_result(self, node, base_fail):
                        log.append([72, nid(node.task.name)])
                        return R.MThreadRunner.process_task_result(self, node, base_fail)

                    def finish(self):
                        log.append([73, 0])
                        return R.MThreadRunner.finish(self)
                runner = SRunner(dep, rep, continue_=case['cont'], always_execute=case['always'], num_process=par['k'])
                disp = DispProxy(disp, log, nid)
            try:
                rc = runner.run_all(disp)
            except InvalidCommand as e:
                log.append([15, nid(e.not_found)] if e.not_found else [15, 0])
                rc = 3
            except InvalidDodoFile as e:
                msg = str(e)
                log.append([12] if 'waiting for each other' in msg else ([11] if 'Cyclic/recursive dependencies for task' in msg else [31]))
                rc = 3
            except KeyError as e:
                log.append([16]); rc = 3; crash = repr(e)
            except runlib.Hang:
                rc = 98; crash = 'all workers blocked (hang)'
            except BaseException as e:  # noqa
                log.append([32]); rc = 97; crash = repr(e)
    finally:
        C.generate_tasks = orig_gt
        C.TaskDispatcher._update_waiting = orig_uw
        sys.stdout, sys.stderr = saved_streams
        gate[0] = None
    events = [list(e) for e in log]
    trace = [x for ev in events if ev[0] < 50 for x in ev]
    # deterministic parallel run: the runner's calls (markers 60-73) are part of what is compared
    strace = [x for ev in events if (ev[0] < 50 or 60 <= ev[0] < 80) for x in ev]
    return dict(events=events, trace=trace, strace=strace, rc=rc, snap=snap, wake=wake, nid=nid, tc=tc, initial=initial,
                cnames=cnames, crash=crash, init_loader=init_loader,
                arity=(list(runlib.S.arity) if (flavour == 'dthread' and runlib.S) else []))


# ------------------------------------------------------------------------------------------ independent oracle
def expected_report(beh, always, has_actions=True):
    """what the runner must report for a task that is reached in a failure-free run: the event codes"""
    if beh['dbignore']:
        return [2]
    if beh['check'] == 'utd' and not always:
        return [3]
    return [5, 6]


def oracle(case, res, out, flavour, par=None):
    """property C15 judged on the observed behaviour only (no model)"""
    ev = res['events']; nid = res['nid']; rc = res['rc']
    inv = {v: k for k, v in nid.m.items()}
    viol = []
    # the complete generated case: `./check C15 --replay <file>` runs it again
    small = dict(case, flavour=flavour, par=par)

    def final_before(name, pos):
        k = nid(name)
        return any(e[0] in FINAL and e[1] == k for e in ev[:pos])
    # O1 creator evaluated at most once
    for c in case['creators']:
        calls = [i for i, e in enumerate(ev) if e[0] == 50 and e[1] == c['cid']]
        if len(calls) > 1:
            # one DelayedLoader copy (own `created` flag) exists per name in `creates`; a copy is retired only when one
            # evaluation of the creator yields a task of that name
            dishonest = bool(c['creates']) and len(c['creates']) > 1 and any(
                nm not in res['cnames'].get((c['cid'], t), []) for t in c['creates'] for nm in c['creates'])
            viol.append(dict(what='creator %s evaluated %d times in one run%s' % (
                c['fname'], len(calls), ' (creates=%s: not every listed name is yielded by one evaluation)' % c['creates'] if dishonest else ''),
                shape='creates-name-not-yielded' if dishonest else 'creator-evaluated-twice', case=small))
        # O2 only after its trigger has been processed
        for p in calls:
            if c['executed'] and not final_before(c['executed'], p):
                viol.append(dict(what='creator %s evaluated before its `executed` task %s was processed' % (c['fname'], c['executed']),
                                 shape='creator-before-trigger', case=small))
        # O1b exactly once: a placeholder name that got a final report was materialised first
        phs = c['creates'] or [c['fname']]
        for nm in phs:
            fin = [i for i, e in enumerate(ev) if e[0] in FINAL and e[1] == nid(nm)]
            if fin and not [p for p in calls if p < fin[0]]:
                viol.append(dict(what='task %s of the delayed creator %s was reported (event %s) but the creator was never evaluated before' % (
                    nm, c['fname'], ev[fin[0]]), shape='placeholder-reported-without-creation', case=small))
        # O6 every created task is executed: failure-free run (exit status 0, so nothing was cut short); for every
        #    name of `creates` that was reported, the task of that name yielded by the (one) evaluation, and the
        #    sub-tasks of that name, are each reported exactly as their own behaviour demands, exactly once
        if rc == 0 and len(calls) == 1:
            used = [e for e in ev if e[0] == 14 and e[1] == c['cid']]
            to_load = inv.get(used[0][3]) if used else None
            yielded = res['cnames'].get((c['cid'], to_load), [])
            by_name = {}
            for it in c['items']:
                base = it['basename'] or to_load
                by_name['%s:%s' % (base, it['sub']) if it['sub'] is not None else base] = it
            for nm in phs:
                if not any(e[0] in FINAL and e[1] == nid(nm) for e in ev):
                    continue
                for y in yielded:
                    if y != nm and not y.startswith(nm + ':'):
                        continue
                    it = by_name.get(y)
                    # a group task made by generate_tasks has no behaviour of its own: the fake dependency manager
                    # answers for it with the behaviour registered for the placeholder of that name
                    want = expected_report(it['beh'] if it else c['ph_beh'].get(y, DEFAULT_BEH), case['always'])
                    # "ignored" propagates along dependencies (and from an ignored trigger to the task that takes over the
                    # node of the placeholder): one skip_ignore report after another task's skip_ignore is accepted instead
                    ign = [i for i, e in enumerate(ev) if e[0] == 2 and e[1] == nid(y)]
                    if len(ign) == 1 and any(e[0] == 2 and e[1] != nid(y) for e in ev[:ign[0]]) and \
                            not any(e[0] in (3, 5, 6) and e[1] == nid(y) for e in ev):
                        continue
                    for code in want:
                        k = sum(1 for e in ev if e[0] == code and e[1] == nid(y))
                        if k != 1:
                            viol.append(dict(what='created task %s (creator %s, creates=%s): expected exactly one event %d, observed %d' % (
                                y, c['fname'], c['creates'], code, k), shape='created-task-not-executed-once', case=small))
                    if it and want == [5, 6] and flavour != 'proc':
                        k = sum(1 for e in ev if e[0] == 51 and e[1] == nid(y))
                        if k != 1:
                            viol.append(dict(what='created task %s: its action ran %d times' % (y, k),
                                             shape='created-task-not-executed-once', case=small))
    # O3 created (and static) tasks: executed at most once, after their task_deps
    deps = {}
    for s in case['statics']:
        deps[s['name']] = s['task_dep'] + s['setup']
    for c in case['creators']:
        for it in c['items']:
            if it['basename'] and it['sub'] is None:
                deps[it['basename']] = it['task_dep'] + it['setup']
            elif it['basename']:
                deps['%s:%s' % (it['basename'], it['sub'])] = it['task_dep'] + it['setup']
    runs = {}
    for i, e in enumerate(ev):
        if e[0] == 51:
            runs.setdefault(e[1], []).append(i)
    for k, poss in runs.items():
        nm = inv.get(k, '?')
        if len(poss) > 1:
            viol.append(dict(what='task %s executed %d times' % (nm, len(poss)), shape='task-executed-twice', case=small))
        for d in deps.get(nm, []):
            if not final_before(d, poss[0]):
                viol.append(dict(what='task %s executed before its dependency %s was processed' % (nm, d),
                                 shape='executed-before-dep', case=small))
    # O4 a word nobody produces is an error
    init_tasks = set(res['initial']); init_targets = res['targets0']
    all_created, all_targets = set(), set()
    for c in case['creators']:
        for (cid, t), names in res['cnames'].items():
            if cid == c['cid'] and t in (c['creates'] or [c['fname']]):
                all_created.update(names)
        for i, it in enumerate(c['items']):
            all_targets.update(it['targets'])
    for w in (case['sel'] or []):
        if w in init_tasks or w in init_targets:
            continue
        base = w.split(':', 1)[0]
        if base in init_tasks:
            if res['has_loader'].get(base):
                if w not in all_created and rc == 0:
                    viol.append(dict(what='`doit run %s`: creator of %s never yields %s, the placeholder ran as an empty task, exit status 0' % (w, base, w),
                                     shape='delayed-subtask-never-created', case=small))
            elif rc == 0:
                viol.append(dict(what='unknown sub-task %s of a non-delayed task accepted' % w, shape='unknown-name-accepted', case=small))
            continue
        if w not in all_targets and w not in all_created and rc == 0:
            viol.append(dict(what='command-line word %s is produced by nobody but the run ended with status 0' % w,
                             shape='unknown-target-accepted', case=small))
    # O5 single regex-resolved target: everything that was processed is in the dependency closure of
    #    the placeholder(s) in the final table; the producer was processed
    sel = case['sel'] or []
    if len(sel) == 1 and rc == 0 and sel[0] not in init_tasks and sel[0] not in init_targets and sel[0].split(':', 1)[0] not in init_tasks:
        tc = res['tc']
        w = sel[0]
        prod = tc.targets.get(w)
        if prod is None:
            viol.append(dict(what='target %s: run succeeded but no task produces it' % w, shape='regex-target-no-producer', case=small))
        else:
            # a delayed task reached as a dependency needs its trigger first: tasks[name] may have been replaced by
            # the created task meanwhile, so the `executed` of every initial placeholder comes from the case itself
            ph_exec = {p: c['executed'] for c in case['creators'] for p in (c['creates'] or [c['fname']])}
            clo, todo = set(), list(tc.selected_tasks)
            while todo:
                x = todo.pop()
                if x in clo or x not in tc.tasks:
                    continue
                clo.add(x)
                t = tc.tasks[x]
                if ph_exec.get(x):
                    todo.append(ph_exec[x])
                todo += list(t.task_dep) + list(t.setup_tasks) + list(t.calc_dep)
                if t.loader and t.loader.task_dep:
                    todo.append(t.loader.task_dep)
            touched = set(inv.get(e[1], '?') for e in ev if e[0] in (1, 5, 51))
            extra = sorted(touched - clo)
            if extra:
                viol.append(dict(what='target %s: tasks %s were processed although neither the producer %s nor the loaders need them' % (w, extra, prod),
                                 shape='regex-target-extra-tasks', case=small))
            if not any(e[0] in FINAL and e[1] == nid(prod) for e in ev):
                viol.append(dict(what='target %s: its producer %s was never processed (exit status 0)' % (w, prod),
                                 shape='regex-target-producer-not-run', case=small))
    # O5b several words: every word that is resolved through target_regex / --auto-delayed-regex and that some task
    #     produces in the end has its producer processed (exit status 0: nothing was cut short)
    if len(sel) > 1 and rc == 0:
        tc = res['tc']
        for w in dict.fromkeys(sel):
            if w in init_tasks or w in init_targets or w.split(':', 1)[0] in init_tasks:
                continue
            prod = tc.targets.get(w)
            if prod is not None and not any(e[0] in FINAL and e[1] == nid(prod) for e in ev):
                viol.append(dict(what='target %s (one of the words %s): its producer %s was never processed (exit status 0)' % (w, sel, prod),
                                 shape='regex-target-producer-not-run', case=small))
    out.violations += viol
    return viol


# ------------------------------------------------------------------------------------------ DoitMain end to end
def run_main(ctx, case, idx):
    """the same namespace through DoitMain.run(['run', ...]) with the real dependency manager"""
    from doit.doit_cmd import DoitMain
    from doit.cmd_base import ModuleTaskLoader
    nid = Ids(); log = []
    ns = build_ns(case, log, nid)
    d = ctx.subdir('main%d' % idx)
    ns['DOIT_CONFIG'] = {'dep_file': os.path.join(d, 'db'), 'verbosity': 0, 'backend': 'json'}
    args = ['run', '-o', os.path.join(d, 'out.txt')] + (['--auto-delayed-regex'] if case['auto'] else []) + (['--continue'] if case['cont'] else []) + list(case['sel'] or [])
    saved = (sys.stdout, sys.stderr)
    sys.stdout, sys.stderr = io.StringIO(), io.StringIO()
    cwd = os.getcwd()
    try:
        os.chdir(d)
        try:
            rc = DoitMain(ModuleTaskLoader(ns)).run(args)
        except BaseException as e:  # noqa
            rc = 98
        err = sys.stderr.getvalue()
    finally:
        os.chdir(cwd)
        sys.stdout, sys.stderr = saved
    return rc, log, err


def strip_files(case):
    """variant without file_dep (the real dependency manager would fail on missing files)"""
    import copy
    c = copy.deepcopy(case)
    for s in c['statics']:
        s['file_dep'] = []; s['beh'] = dict(DEFAULT_BEH)
    for cr in c['creators']:
        for it in cr['items']:
            it['file_dep'] = []; it['beh'] = dict(DEFAULT_BEH)
    return c


# ------------------------------------------------------------------------------------------ end-to-end family
E2E_DODO = """
import os
from doit import create_after
HERE = os.path.dirname(os.path.abspath(__file__))
LOG = os.path.join(HERE, 'log.txt')
DOIT_CONFIG = {'dep_file': os.path.join(HERE, 'db'), 'verbosity': 0, 'backend': 'json'}
NAMES = %(names)r

def rec(what):
    return "echo %%s >> %%s" %% (what, LOG)

def task_pre():
    return {'actions': [rec('run:pre')]}

%(top)s

@create_after(%(deco)s)
def task_gen():
    with open(LOG, 'a') as fobj:
        fobj.write('EVAL\\n')
    for name in NAMES:
        task = {'basename': name, 'actions': [rec('run:' + name)]}
        if %(targets)r:
            out = os.path.join(HERE, name + '.out')
            task['actions'] = ["echo x > %%s && %%s" %% (out, rec('run:' + name))]
            task['targets'] = [out]
        yield task
"""
E2E_TOP = """
def task_top():
    return {'actions': [rec('run:top')], 'task_dep': NAMES}
"""


def e2e_family(ctx, out):
    """fixed family through the command line in a child interpreter: `doit run [-n 2 -P thread|process]` on a dodo file
    with ONE creator of 2-3 names (executed=pre and/or a shared parent, with/without targets): the creator body must
    run exactly once, after pre; every created task exactly once; exit status 0"""
    import subprocess
    shapes = []
    for names in (['a', 'b'], ['a', 'b', 'c']):
        for trig, top in ((True, False), (False, True), (True, True)):
            for targets in (False, True):
                shapes.append((names, trig, top, targets))
    runners = [[], ['-n', '2', '-P', 'thread'], ['-n', '2', '-P', 'process']]
    combos = [(sh, r) for sh in shapes for r in runners]
    if ctx.quick:   # every shape once, the runner rotating; plus the (2 names, trigger) shapes on every runner
        combos = [(sh, runners[i % 3]) for i, sh in enumerate(shapes)] + [(shapes[0], r) for r in runners[1:]] + [(shapes[1], runners[2])]
    n = 0
    for j, ((names, trig, top, targets), rargs) in enumerate(combos):
        d = ctx.subdir('e2e%d' % j)
        deco = ', '.join((["executed='pre'"] if trig else []) + ['creates=NAMES'])
        with open(os.path.join(d, 'dodo.py'), 'w') as f:
            f.write(E2E_DODO % dict(names=names, top=E2E_TOP if top else '', deco=deco, targets=targets))
        argv = ['run'] + rargs + (['top'] if (top and not trig) else [])
        try:
            p = subprocess.run([common.PY, '-m', 'doit', '-f', os.path.join(d, 'dodo.py')] + argv, cwd=d, env=common.impl_env(),
                               stdout=subprocess.PIPE, stderr=subprocess.PIPE, text=True, timeout=120)
            rc, err = p.returncode, p.stderr
        except subprocess.TimeoutExpired:
            rc, err = 124, 'timeout'
        lines = open(os.path.join(d, 'log.txt')).read().split() if os.path.exists(os.path.join(d, 'log.txt')) else []
        n += 1
        case = dict(e2e=True, names=names, executed='pre' if trig else None, shared_parent=top, targets=targets, argv=argv)
        out.count('e2e:%s' % (' '.join(rargs[2:]) or 'serial'))
        out.nontrivial.add(('e2e', tuple(names), trig, top, targets, tuple(rargs)))
        k = lines.count('EVAL')
        if k != 1:
            out.violations.append(dict(what='`doit %s`: creator with creates=%s evaluated %d times (log %s; stderr %s)' % (
                ' '.join(argv), names, k, lines, err.strip().splitlines()[-1:]), shape='creator-evaluated-twice' if k > 1 else 'creator-not-evaluated', case=case))
        if rc != 0:
            out.violations.append(dict(what='`doit %s`: exit status %s (stderr %s)' % (' '.join(argv), rc, err.strip().splitlines()[-1:]),
                                       shape='e2e-exit-status', case=case))
        if 'EVAL' in lines and 'run:pre' in lines and trig and lines.index('EVAL') < lines.index('run:pre'):
            out.violations.append(dict(what='`doit %s`: creator evaluated before pre' % ' '.join(argv), shape='creator-before-trigger', case=case))
        for nm in names:
            if lines.count('run:' + nm) != 1:
                out.violations.append(dict(what='`doit %s`: created task %s executed %d times' % (' '.join(argv), nm, lines.count('run:' + nm)),
                                           shape='created-task-not-executed-once', case=case))
    return n


# ------------------------------------------------------------------------------------------ driver
def prepare(res, case):
    res['targets0'] = set()
    for s in case['statics']:
        res['targets0'].update(s['targets'])
    res['has_loader'] = res['init_loader']


def prenodes(res):
    """largest number of placeholder nodes of one creator that existed when that creator was evaluated"""
    return max([e[2] for e in res['events'] if e[0] == 52] or [0])


def ops_of(res):
    """the runner's calls of a deterministic parallel run as a Coq list of Delayed.sop (script of the run)"""
    ops = []
    evs = res['events']
    hold = any(e[0] == 12 for e in evs)
    for e in evs:
        if e[0] == 70:
            ops.append('OSend %s' % ('None' if e[1] == 0 else '(Some %d)' % e[1]))
        elif e[0] == 71:
            ops.append('OSelect %d' % e[1])
        elif e[0] == 5:
            ops.append('OExec %d' % e[1])
        elif e[0] == 72:
            ops.append('OResult %d' % e[1])
        elif e[0] == 73:
            if hold:
                ops.append('OHoldErr')
            ops.append('OFinish')
    return nl(ops)


def run_parallel(ctx, case, out, idx, par, cases, metas, tag):
    """one run under the deterministic scheduler: oracle + (model) the same script on Delayed.run_script"""
    try:
        res_p = run_impl(case, 'dthread', par)
    except BaseException as e:  # noqa
        out.violations.append(dict(what='deterministic thread run failed in the harness: %r' % e, shape='thread-runner-crash', case=dict(case, par=par)))
        return None
    if 'skip' in res_p:
        return None
    prepare(res_p, case)
    oracle(case, res_p, out, 'dthread', par)
    if res_p['rc'] in (97, 98):
        out.violations.append(dict(what='thread runner (deterministic scheduler, %d workers) crashed: %s' % (par['k'], res_p['crash']),
                                   shape='thread-runner-crash', case=dict(case, flavour='dthread', par=par)))
        return res_p
    if not SCRIPT_MODEL:
        return res_p
    sfx = '%sp%d' % (idx, tag)
    defs, expr = render(case, res_p['snap'], res_p['wake'], res_p['nid'], sfx, script=ops_of(res_p))
    expected = res_p['strace'] + [-1, res_p['rc']] + ([] if res_p['strace'][:1] == [40] else [-2, 1])
    cases.append(dict(defs=defs, model=expr, expected=expected,
                      desc=dict(sel=case['sel'], auto=case['auto'], kind=case['kind'], flavour='dthread', par=par)))
    metas.append((case, res_p))
    return res_p


def run(ctx):
    out = Outcome()
    out.rule = ('random namespaces: 1-4 static tasks (task_dep/setup/file_dep/targets) + 1-3 create_after creators (executed = none/'
                'static/other placeholder, creates = none/1-3 names honest or not, target_regex = none/own prefix/shared prefix; body = '
                'generator of sub-tasks with default or explicit basename / plain basename tasks / single dict / empty) x selection '
                '(none, task, placeholder, basename:sub existing or not, created target, target nobody produces, unknown word; 1-3 words) x '
                '--auto-delayed-regex x --continue x --always; kind `multi`: one creator with 2-3 names in creates, all yielded (plain or '
                'groups, with/without targets), a static task with several of them as task_dep (shared parent) and/or an executed= trigger, '
                'optionally a second creator triggered by a created name.  Runners: serial Runner (trace compared with Delayed.run_cmd); '
                'MThreadRunner with 2-3 workers under the deterministic scheduler of runlib (every call of the runner into the dispatcher '
                'recorded as a script and compared with Delayed.run_script_cmd; all multi cases, every 4th other case); MThreadRunner with '
                'real threads; `python -m doit run [-n 2 -P thread|process]` on a fixed dodo family.  non-trivial = distinct case in which a '
                'creator was evaluated or the selection/run ended with an error')
    rng = ctx.rng
    n = ctx.n(240, 2700)
    kinds = [None] * 5 + ['k3', 'creates', 'regex', 'auto', 'unknown'] + ['multi'] * 4
    cases, metas = [], []
    n_serial = 0
    n_thread = 0
    n_dthread = 0
    n_main = 0
    skipped = 0
    i = 0
    while n_serial < n and i < 3 * n:
        kind = kinds[i % len(kinds)]
        i += 1
        case = gen_case(rng, kind)
        try:
            res = run_impl(case)
        except BaseException as e:  # noqa
            res = dict(skip='harness-crash %r' % e)
            out.mismatches.append(dict(case=str(case)[:2000], impl='harness crash %r' % e, model=None))
        if 'skip' in res:
            skipped += 1
            out.count('skipped:' + res['skip'].split(':')[0])
            continue
        prepare(res, case)
        idx = n_serial
        n_serial += 1
        defs, expr = render(case, res['snap'], res['wake'], res['nid'], str(idx))
        expected = res['trace'] + [-1, res['rc']] + ([] if res['trace'][:1] == [40] else [-2, 1])
        cases.append(dict(defs=defs, model=expr, expected=expected, desc=dict(sel=case['sel'], auto=case['auto'], kind=case['kind'])))
        metas.append((case, res))
        out.count('kind:' + case['kind'])
        out.count('sel:' + ('all' if case['sel'] is None else str(len(case['sel'])) + 'w'))
        ncreate = sum(1 for e in res['events'] if e[0] == 14)
        out.count('creations:%d' % min(ncreate, 3))
        out.count('rc:%s' % res['rc'])
        if prenodes(res) >= 2:
            out.count('serial: >=2 placeholder nodes of one creator before its evaluation')
        for e in res['events']:
            if e[0] in (15, 16, 30, 40, 11, 12):
                out.count('error-event:%d' % e[0])
        if ncreate or res['rc'] == 3:
            out.nontrivial.add((str(case['sel']), tuple(res['trace'])))
        oracle(case, res, out, 'serial')
        if len(out.samples) < 3 and ncreate and case['sel']:
            inv = {v: k for k, v in res['nid'].m.items()}
            out.samples.append(dict(selection=case['sel'], creators=[dict(fname=c['fname'], executed=c['executed'], creates=c['creates'],
                                                                          regex=c['regex']) for c in case['creators']],
                                    names=inv, observed=expected))
        # the same case on the thread runner under the deterministic scheduler: oracle + script compared with the model
        if res['trace'][:1] != [40] and (case['kind'] == 'multi' or idx % 4 == 0):
            for tag in range(2 if (case['kind'] == 'multi' or not ctx.quick) else 1):
                par = dict(k=rng.choice([2, 2, 3]), sched=[rng.randrange(0, 60) for _ in range(40)])
                res_p = run_parallel(ctx, case, out, idx, par, cases, metas, tag)
                if res_p is not None:
                    n_dthread += 1
                    out.count('dthread-k:%d' % par['k'])
                    if prenodes(res_p) >= 2:
                        out.count('dthread: >=2 placeholder nodes of one creator before its evaluation')
                    if sum(1 for e in res_p['events'] if e[0] == 14):
                        out.nontrivial.add((str(case['sel']), 'dthread', tuple(res_p['strace'])))
        # the same case on the thread runner (real threads): oracle only
        if idx % (6 if ctx.quick else 3) == 0:
            try:
                res_t = run_impl(case, 'thread')
                if 'skip' not in res_t:
                    prepare(res_t, case)
                    oracle(case, res_t, out, 'thread')
                    n_thread += 1
                    if res_t['rc'] in (97, 98):
                        out.violations.append(dict(what='thread runner crashed: %s' % res_t['crash'], shape='thread-runner-crash',
                                                   case=dict(case, flavour='thread')))
            except BaseException as e:  # noqa
                out.violations.append(dict(what='thread runner run failed in the harness: %r' % e, shape='thread-runner-crash', case=dict(case, flavour='thread')))
        # DoitMain end to end (real dependency manager, json DB in a temp dir): exit status and creator count
        if idx % (10 if ctx.quick else 6) == 0:
            c2 = strip_files(case)
            rc_m, log_m, err_m = run_main(ctx, c2, idx)
            n_main += 1
            out.count('doitmain-rc:%s' % rc_m)
            for c in c2['creators']:
                k = sum(1 for e in log_m if e[0] == 50 and e[1] == c['cid'])
                if k > 1:
                    out.violations.append(dict(what='DoitMain run: creator %s evaluated %d times' % (c['fname'], k), shape='creator-evaluated-twice',
                                               case=dict(c2, flavour='doitmain')))
            res2 = None
            try:
                res2 = run_impl(c2)
            except BaseException:  # noqa
                pass
            if res2 and 'skip' not in res2:
                want3 = res2['rc'] == 3
                if want3 != (rc_m == 3):
                    out.violations.append(dict(what='DoitMain exit status %s but the runner-level run of the same namespace gave %s (%s)' % (
                        rc_m, res2['rc'], err_m[-200:]), shape='doitmain-exit-status', case=dict(sel=case['sel'], auto=case['auto'])))
    n_e2e = e2e_family(ctx, out)
    out.evaluations = len(cases) + n_e2e
    out.extra['serial_runs_compared_with_model'] = n_serial
    out.extra['deterministic_thread_runs_compared_with_model'] = n_dthread
    out.extra['thread_runner_runs_real_threads_oracle_only'] = n_thread
    out.extra['doitmain_runs'] = n_main
    out.extra['e2e_command_line_runs'] = n_e2e
    out.extra['skipped_cases'] = skipped
    bad = common.compare_with_model(ctx, PRE, cases)
    out.traces_validated = len(cases)
    for i, m in bad:
        out.mismatches.append(dict(case=cases[i]['desc'], impl=cases[i]['expected'], model=m,
                                   names={v: k for k, v in metas[i][1]['nid'].m.items()}))
    out.assumptions = ['creators are data: generate_tasks(to_load, creator()) is an oracle (its result on a silent twin of the creator is the model input)',
                       'Dependency (status_is_ignore/get_status/save_success) is an oracle per task object',
                       'string operations of _filter_tasks (split, startswith, re.match, placeholder names) are oracles given as tables',
                       'iteration order of ExecNode.waiting_me is recorded from the run (wake_rank)',
                       'parallel runners: the runner (MRunner.run_tasks/get_next_job: which result is consumed when, how many jobs are requested) is '
                       'NOT modelled; its calls into the dispatcher and its own select_task/process_task_result/finish calls are recorded as a '
                       'script, the model replays that script (Delayed.run_script) and must reproduce every yield, event and the exit status; '
                       'the theorems on run_script hold for EVERY script.  Process runner and real threads: independent oracle only']
    out.extra['trusted_base'] = ['harness/c15.py: rendering of the loaded TaskControl state and of the creator outputs as Coq terms',
                                 'harness/runlib.py Sched/FakeQueue/FakeChild: deterministic scheduler under MThreadRunner']
    return out


def replay(ctx, payload):
    """re-run the case of a replay file (written for a violation of the independent oracle) and judge it again"""
    case = payload.get('case') or {}
    if case.get('e2e') or 'creators' not in case:
        print(json.dumps(payload, indent=1, default=str))
        return 0
    flavour = case.get('flavour') or 'serial'
    par = case.get('par')
    out = Outcome()
    if flavour == 'doitmain':
        rc_m, log_m, err_m = run_main(ctx, case, 0)
        bad = [c['fname'] for c in case['creators'] if sum(1 for e in log_m if e[0] == 50 and e[1] == c['cid']) > 1]
        print('DoitMain exit status %s; creators evaluated more than once: %s' % (rc_m, bad))
        return 1 if bad else 0
    res = run_impl(case, flavour, par)
    if 'skip' in res:
        print('case skipped: %s' % res['skip'])
        return 0
    prepare(res, case)
    inv = {v: k for k, v in res['nid'].m.items()}
    print('flavour=%s selection=%s exit status=%s' % (flavour, case['sel'], res['rc']))
    print('events (names: %s)' % inv)
    print(res['events'])
    viol = oracle(case, res, out, flavour, par)
    for v in viol:
        print('VIOLATION-REPRODUCED shape=%s: %s' % (v['shape'], v['what']))
    return 1 if viol else 0
