"""C15 -- delayed task creation (create_after): creator evaluated once, after its trigger; created
tasks are ordinary tasks; command-line targets resolved through target_regex / --auto-delayed-regex.

Correspondence: namespaces mixing static creators and `@create_after(executed=, target_regex=, creates=)`
creators are loaded with the real `doit.loader.load_tasks(allow_delayed=True)`, given to the real
`TaskControl` (`process(selection)`), and run
  (a) with the real serial `Runner`, and
  (b) with the real `MThreadRunner` (2-3 workers) under the deterministic scheduler of harness/runlib.py
      (Sched/FakeQueue/FakeChild: one thread runs at a time, the schedule is drawn from ctx.rng),
on a recording reporter and a recording fake dependency manager.  The observation (reporter/dep-manager events,
creator evaluations, the exception that escaped, exit status) is compared with (a) `Delayed.run_cmd` (model of
_filter_tasks + the dispatcher with the loader branch + the serial runner), (b) `Delayed.run_script_cmd`: the
runner's calls (generator.send / select_task / execute_task / process_task_result / finish) are recorded as a
script, the model executes the same script on its dispatcher and must reproduce every yield of the generator,
every event and the exit status.  Everything is evaluated inside Coq.

Input of the model = what the real TaskControl.__init__ left (tasks dict in key order, targets dict, one
DelayedLoader per placeholder) read BEFORE process(); creators as data: for every creator c and every
name t that can become `to_load`, the task list the real generate_tasks(t, creator_c()) returns on a
silent twin of the creator (generate_tasks itself is C18's subject and an oracle here); string
oracles (split(':'), startswith('_regex_target'), re.match, the '_regex_target_<w>:<task>' names) as
tables; iteration order of ExecNode.waiting_me as recorded (wake_rank).

Encoding (list of ints): runner events as in harness/runlib.py / Runner.enc_event
  [1 k] get_status [2 k] skip_ignore [3 k] skip_uptodate [4 k kind] add_failure [5 k] execute_task
  [6 k] add_success [7 k] save_success [8 k] remove_success [9 k] teardown [10] dep_manager.close
  [11] cycle error [12] hold error; new: [14 c l t] creator c evaluated through loader object l with
  generate_tasks(t, ...); [30] reporter.runtime_error (InvalidTask caught by run_all); [15 f]
  InvalidCommand(not_found=f) escaped run_all; [16] KeyError escaped; [40] InvalidCommand from
  process(); then [-1, exit status]; then [-2, 1]: the selected state satisfies the hypotheses init_ok / keys_ok of
  the theorems (Delayed.init_okb over all names of the case).  Every string (task name, file name, command-line word) has one id.
  Scripted (parallel) runs only, Delayed.EOp: [70 p] generator.send(node p) (0 = None) called, answered by
  [60 k] node k / [61 0] "hold on" / [62 0] StopIteration; [71 k] select_task(k) called, [63 b] its result;
  [72 k] process_task_result(k) called; [73 0] finish called.  ([5 k] is the OExec step of the script.)
Markers used only by the independent oracle / statistics (stripped before comparison): [50 c] body of creator c
started, [51 k] action of task k started, [52 c n] creator c evaluated while n of its placeholder names had an ExecNode.

Kind `calc` (gen_calc): created tasks that declare calc_dep (plus task_dep / setup) -- the task that takes over the node of
its placeholder (creator returning ONE dict, plain task named like the creator / an entry of `creates`, sub-task selected by
name), sub-tasks and differently named tasks; calc_dep providers are static tasks or tasks of the same creator whose action
returns {'task_dep', 'file_dep', 'calc_dep'} (the fake dependency manager hands the same dict out as saved values of an
up-to-date provider).  Model side: t_calc_dep / t_calc_new_task / t_calc_new_impl / t_calc_new_calc of the dtask records
(Delayed.nd_reset, process_calc), calc_rank = hash slot of the provider names (iteration order of the small calc_dep sets).

Kind `subrx` (gen_subrx): sub-tasks of a delayed task selected by name (`d0:1`) together with words resolved through target_regex /
--auto-delayed-regex (existing targets, targets nobody produces), both orders: the input family of the defect repaired in /repo
01f48fb (the by-name placeholder was taken for a task-creator by the regex loop).  Model: Delayed.filter_one with ss_sub
(`subtask_placeholders`), variant SelHead; the code before the repair is SelLegacy (C15_MODEL_SELVER=SelLegacy for experiments).

Kind `rxcand` (gen_rxcand, second phase of the driver: every seed, after the random kinds so that their generator stream is untouched):
WHO is asked for a command-line target -- two creators, the producer of the target and another one with its OWN executed= trigger that
cannot produce it by its own declaration (explicit target_regex that does not match + --auto-delayed-regex: the option gives the implicit
`.*` only to creators WITHOUT a target_regex; the dual with the option off; positive controls where the other creator is a legitimate
candidate), either one defined first; serial, scripted parallel schedules (2 per case), real threads, DoitMain; e2e_rxcand_family:
`doit run [--auto-delayed-regex] out_b.txt | gen_a/x.txt | nothing.txt` under the serial, thread and process runners (exact log).
Oracle RC (candidates_oracle, shapes regex-target-wrong-candidate / regex-target-candidate-missing; found the seeded change C15d).

Phase 3 (gen_rerun / run_sequence / run_main_sequence; every seed, after the other phases): SEVERAL RUNS IN ONE PROCESS over the same creator
FUNCTION OBJECTS (DoitMain.run twice, doit.api, %doit, a test-suite of a dodo file): one namespace dict is built once, then 2-3 times
load_tasks(namespace) + TaskControl + process(selection_i) + runner (serial Runner / MThreadRunner under a drawn schedule), with different selections
(everything, a placeholder name, a sub-task of a delayed task by name, a target resolved by target_regex / --auto-delayed-regex, two words);
every third sequence also as DoitMain(ModuleTaskLoader(namespace)).run([...]) per run (real dependency manager, new DB file per run).  EVERY run is
judged on its own by all oracles below and compared with the model like a single run: the model starts every run from fresh loaders (run_impl renders
l_created = false, l_basename = None for every DelayedLoader) -- "each run starts from fresh DelayedLoader copies" is what load_tasks must guarantee
(oracle LF reads it off the objects load_tasks handed out; Model/Delayed.v load_state / Properties/C15.v C15_every_load_hands_out_fresh_copies prove it
for load_tasks' copies from the frame property of runs; the seeded change C15e -- no copy for plain-function creators without creates= -- is the
refuted variant LdShare).  Oracle RR (shape run-depends-on-earlier-run-in-process): each run of a sequence equals the same command on a freshly built,
identically defined namespace (event by event when the recorded wake orders agree, else exit status 0 / non-0 and, both 0, the events as a multiset).

Independent oracle (no model): O1 a creator body starts at most once per run (every runner incl. real threads, DoitMain,
and `python -m doit run -n 2 -P thread|process` on the fixed dodo family e2e_family); O1b a placeholder name is never
reported before its creator ran; O2 only after a final report of the `executed` task; O3 tasks run once, after their
dependencies (task_dep, setup, calc_dep); O4 unknown words are errors; O5/O5b command-line targets: the producer is processed, nothing outside the
closure; O6 every created task whose placeholder name was reported is reported exactly once, as its own behaviour demands;
O7 (kind calc; twin_oracle) differential against the identically defined STATIC task set (same creator bodies without create_after,
the trigger as an extra task_dep; same selection, flags and fake dependency manager; serial Runner): a task is never selected
before the calc_dep tasks it declares were processed; when both runs exit 0 the same tasks get the same reports and end with
the same task_dep / calc_dep / file_dep (computed values merged), selected only after all of them; failure-free behaviours:
same exit status (unless the delayed selection itself was rejected, [40]); T5 a word the static twin rejects never ends with exit
status 0.  R1/R2 (every kind, shape `subtask-placeholder-regex` when a by-name sub-task word and a regex-resolved word are both
selected, else `keyerror-escaped` / `creator-evaluated-for-subtask-name`): no KeyError escapes run_all; generate_tasks is never called
with a `basename:sub` name as basename.  e2e_subrx_family: `doit run --auto-delayed-regex c:1 nothing.txt` (exit 3, invalid-parameter
error, nothing but c:1 executed, no traceback), `... c:1 two.txt` / `two.txt c:1` / `c:2 c:1 one.txt` (exit 0, exactly c:1 and c:2
executed) under the serial, thread and process runners.  e2e_calc_family: the same comparison through `python -m doit run [-n 2 -P thread|process]` with the real
dependency manager over three invocations (first run, nothing changed, the computed file_dep modified).
"""
import io, json, os, re, sys, threading
import common
from common import Outcome

PRE = ('From DoitV Require Import Base Dispatch Runner Delayed DelayedRunP DelayedWf.\nOpen Scope N_scope.\n'
       'Definition FUEL : nat := N.to_nat 4000.\n')
# recorded scripts of real parallel runs are also run through DelayedRunP.wf_script (the protocol hypothesis of the
# any-schedule theorems C15_*_any_schedule): the model must answer [-3; 1] = the script follows the runner protocol
WF_OK = [-3, 1]
CHECK = {'run': 'CkRun', 'utd': 'CkUpToDate', 'err': 'CkError'}
OUTC = {'ok': 'OOk', 'fail': 'OFail', 'error': 'OError'}
DEFAULT_BEH = dict(check='run', outcome='ok', dbignore=False, teardown=False)
FINAL = (2, 3, 4, 6)
SCRIPT_MODEL = os.environ.get('C15_NO_SCRIPT_MODEL') is None
# which variant of Model/Delayed.v the runs are compared with (VOwn = the seeded change C15b; only for experiments)
MODEL_VARIANT = os.environ.get('C15_MODEL_VARIANT', 'VHead')
# which _filter_tasks of Model/Delayed.v: SelHead = repair 01f48fb (by-name sub-task placeholders skipped by the regex loop), SelLegacy = before
MODEL_SELVER = os.environ.get('C15_MODEL_SELVER', 'SelHead')


# ------------------------------------------------------------------------------------------ generation
def gen_beh(rng, calm):
    if calm:
        return dict(check=rng.choice(['run', 'run', 'utd']), outcome='ok', dbignore=False, teardown=rng.random() < 0.2)
    return dict(check=rng.choices(['run', 'utd', 'err'], weights=[7, 3, 1])[0],
                outcome=rng.choices(['ok', 'fail', 'error'], weights=[10, 2, 1])[0],
                dbignore=rng.random() < 0.06, teardown=rng.random() < 0.25)


def gen_case(rng, kind=None):
    """kind: None (random) | 'k3' | 'creates' | 'regex' | 'auto' | 'unknown' | 'multi' (see gen_multi)"""
    if kind == 'multi':
        return gen_multi(rng)
    if kind == 'calc':
        return gen_calc(rng)
    if kind == 'subrx':
        return gen_subrx(rng)
    if kind == 'rxcand':
        return gen_rxcand(rng)
    calm = rng.random() < 0.45
    # two command-line targets produced by the same creator, failure-free behaviours
    two = kind in ('regex', 'auto') and rng.random() < 0.4
    calm = calm or two
    ns = rng.choice([1, 2, 2, 3, 4])
    nd = rng.choice([1, 1, 2, 2, 3])
    snames = ['s%d' % i for i in range(ns)]
    creators = []
    for j in range(nd):
        fname = 'd%d' % j
        creates = None
        if rng.random() < (0.3 if kind != 'creates' else 1.0):
            creates = ['c%d%s' % (j, x) for x in 'abc'[:rng.choice([1, 2, 2, 3])]]
        creators.append(dict(fname=fname, cid=j, creates=creates))
    placeholders = {c['fname']: (c['creates'] or [c['fname']]) for c in creators}
    all_ph = [p for c in creators for p in placeholders[c['fname']]]
    statics = []
    for i, nm in enumerate(snames):
        later = snames[i + 1:]
        td = [x for x in rng.sample(later, min(len(later), rng.randrange(0, 3))) if rng.random() < 0.7]
        if rng.random() < 0.08:
            td.append(rng.choice(all_ph))
        st = [x for x in later if rng.random() < 0.12][:1]
        fd = ['f_%s' % x for x in later if rng.random() < 0.2][:1]
        statics.append(dict(name=nm, task_dep=td, setup=st, file_dep=fd, targets=['f_%s' % nm] if rng.random() < 0.6 else [],
                            beh=gen_beh(rng, calm)))
    for j, c in enumerate(creators):
        fname = c['fname']
        r = rng.random()
        ex_pool = snames + [p for cc in creators[:j] for p in placeholders[cc['fname']]]
        if rng.random() < 0.04:
            ex_pool = ex_pool + [p for cc in creators[j + 1:] for p in placeholders[cc['fname']]]
        c['executed'] = rng.choice(ex_pool) if (r < 0.7 and ex_pool) else None
        rr = rng.random()
        if kind in ('regex', 'auto', 'unknown'):
            rr = rng.random() * 0.6 if kind == 'regex' else rr
        c['regex'] = ('f_%s_' % fname) if rr < 0.35 else ('f_d' if rr < 0.6 else None)
        shape = rng.choices(['gen', 'ret', 'empty'], weights=[16, 2, 1])[0]
        items = []
        explicit = []      # names that exist whatever to_load is
        ni = rng.choice([1, 2, 2, 3]) if shape == 'gen' else (1 if shape == 'ret' else 0)
        wanted = list(c['creates'] or [])
        honest = rng.random() < (0.75 if kind != 'creates' else 0.4)
        for i in range(ni):
            it = dict(sub=None, basename=None)
            mode = rng.random()
            if shape == 'ret':
                it['basename'] = rng.choice([None, None, wanted[0] if wanted else None, 'x%d_%d' % (j, i)])
            elif wanted and (honest or rng.random() < 0.5):
                it['basename'] = wanted.pop(0)
            elif mode < 0.45:
                it['sub'] = str(i)                               # default basename = to_load
            elif mode < 0.7:
                it['sub'] = str(i); it['basename'] = (c['creates'] or [fname])[0]
            elif mode < 0.9:
                it['basename'] = 'x%d_%d' % (j, i)
            else:
                it['basename'] = (c['creates'] or [fname])[0] if not any(
                    x['basename'] == (c['creates'] or [fname])[0] for x in items) else 'x%d_%d' % (j, i)
            pool = snames + explicit
            it['task_dep'] = [x for x in rng.sample(pool, min(len(pool), rng.randrange(0, 3))) if rng.random() < 0.6]
            if rng.random() < 0.04 and len(all_ph) > 1:
                it['task_dep'].append(rng.choice([p for p in all_ph if p not in placeholders[fname]] or all_ph))
            it['setup'] = [x for x in snames if rng.random() < 0.06][:1]
            it['targets'] = ['f_%s_%d' % (fname, i)] if rng.random() < 0.7 else []
            fd = []
            if rng.random() < 0.25:
                fd.append('f_%s' % rng.choice(snames))
            if i > 0 and rng.random() < 0.25:
                fd.append('f_%s_%d' % (fname, rng.randrange(0, i)))
            if rng.random() < 0.1:
                fd.append('plain.txt')
            it['file_dep'] = fd
            it['beh'] = gen_beh(rng, calm)
            items.append(it)
            if it['basename'] and it['sub'] is None:
                explicit.append(it['basename'])
            elif it['basename']:
                explicit.append('%s:%s' % (it['basename'], it['sub']))
        # avoid generate_tasks errors: a plain basename task and a group of the same name
        plain = set(x['basename'] for x in items if x['sub'] is None and x['basename'])
        for x in items:
            if x['sub'] is not None and ((x['basename'] in plain) or (x['basename'] is None and (set(placeholders[fname]) & plain))):
                x['sub'] = None
                x['basename'] = 'y%d_%s' % (j, len(plain)); plain.add(x['basename'])
        seen = set()
        for x in items:   # no duplicated plain basenames
            if x['sub'] is None:
                while x['basename'] in seen:
                    x['basename'] += 'z'
                seen.add(x['basename'])
        # dependencies of created tasks must exist (dangling names are outside the model: KeyError in _gen_node)
        known = set(snames) | set(all_ph)
        for x in items:
            x['task_dep'] = [t for t in x['task_dep'] if t in known]
            if x['basename'] and x['sub'] is None:
                known.add(x['basename'])
            elif x['basename']:
                known.add('%s:%s' % (x['basename'], x['sub']))
        if rng.random() < 0.03 and items:     # common target with a static task -> InvalidTask at creation time
            items[-1]['targets'] = ['f_%s' % snames[0]]
        c['shape'] = shape; c['items'] = items
        c['ph_beh'] = {p: dict(DEFAULT_BEH, check=rng.choice(['run', 'run', 'run', 'utd'])) for p in placeholders[fname]}
    # selection
    words = []
    for c in creators:
        f = c['fname']; base = (c['creates'] or [f])[0]
        words += placeholders[f] + ['%s:0' % base, '%s:1' % base, '%s:9' % base]
        words += ['f_%s_%d' % (f, i) for i in range(3)] + ['f_%s_9' % f]
        words += [x['basename'] for x in c['items'] if x['basename'] and x['sub'] is None]
    words += snames + ['f_%s' % s for s in snames] + ['nope', '%s:1' % snames[0], 'f_dx']
    r = rng.random()
    if kind is None and r < 0.3:
        sel = None
    else:
        sel = [rng.choice(words) for _ in range(rng.choice([1, 1, 1, 2, 2, 3]))]
    c0 = creators[0]; base0 = (c0['creates'] or [c0['fname']])[0]
    if kind == 'k3':
        sel = ['%s:9' % base0]
    elif kind == 'unknown':
        sel = [rng.choice(['nope', 'f_%s_9' % c0['fname'], 'f_dx'])]
    elif kind in ('regex', 'auto'):
        sel = ['f_%s_%d' % (c0['fname'], rng.randrange(0, 3))] + ([rng.choice(words)] if rng.random() < 0.3 else [])
        if rng.random() < 0.35:      # a second target of the same creator
            sel.append('f_%s_%d' % (c0['fname'], rng.randrange(0, 3)))
        made = [t for it in c0['items'] for t in it['targets'] if t.startswith('f_%s_' % c0['fname'])]
        if two and len(made) >= 2:
            sel = rng.sample(made, 2)
    auto = (rng.random() < 0.3) if kind != 'auto' else True
    return dict(statics=statics, creators=creators, sel=sel, auto=auto, cont=rng.random() < 0.5, always=rng.random() < 0.12,
                kind=kind or 'random')


def gen_multi(rng):
    """one creator with 2-3 names in `creates`, every name yielded (plain task or group of sub-tasks, with or
    without targets), placeholder nodes made BEFORE the first evaluation: a static task `s0` with several of the
    names as task_dep (shared parent), and/or an `executed` trigger (under a parallel runner the other
    placeholders are instantiated while the trigger runs); optionally a second creator triggered by a created name"""
    calm = rng.random() < 0.75
    ns = rng.choice([2, 3, 3, 4])
    snames = ['s%d' % i for i in range(ns)]
    names = ['c0%s' % x for x in 'abc'[:rng.choice([2, 2, 3])]]
    with_targets = rng.random() < 0.5
    shared = rng.random() < 0.7
    creators = [dict(fname='d0', cid=0, creates=list(names))]
    second = rng.random() < 0.3
    if second:
        creators.append(dict(fname='d1', cid=1, creates=rng.choice([None, ['c1a'], ['c1a', 'c1b']])))
    placeholders = {c['fname']: (c['creates'] or [c['fname']]) for c in creators}
    statics = []
    for i, nm in enumerate(snames):
        later = snames[i + 1:]
        td = [x for x in rng.sample(later, min(len(later), rng.randrange(0, 3))) if rng.random() < 0.6]
        if i == 0 and shared:
            sub = rng.sample(names, rng.choice([2, len(names)]))
            pos = rng.randrange(0, len(td) + 1)
            td = td[:pos] + sub + td[pos:]
            if second and rng.random() < 0.5:
                td.append(rng.choice(placeholders['d1']))
        statics.append(dict(name=nm, task_dep=td, setup=[x for x in later if rng.random() < 0.1][:1], file_dep=[],
                            targets=['f_%s' % nm] if rng.random() < 0.4 else [], beh=gen_beh(rng, calm)))
    for j, c in enumerate(creators):
        fname = c['fname']
        if j == 0:
            # the trigger must not depend on the shared parent s0
            pool = snames[1:] if shared else snames
            c['executed'] = rng.choice(pool) if (pool and rng.random() < (0.55 if shared else 0.9)) else None
            c['regex'] = ('f_%s_' % fname) if (with_targets and rng.random() < 0.4) else None
            order = list(names)
            if rng.random() < 0.4:
                rng.shuffle(order)
            items = []
            for i, nm in enumerate(order):
                grp = rng.random() < 0.3
                for sub in (['0', '1'][:rng.choice([1, 2])] if grp else [None]):
                    k = len(items)
                    items.append(dict(sub=sub, basename=nm,
                                      task_dep=[x for x in snames[1:] if rng.random() < 0.25][:2], setup=[],
                                      targets=['f_%s_%d' % (fname, k)] if with_targets else [],
                                      file_dep=(['f_%s_%d' % (fname, rng.randrange(0, k))] if (with_targets and k and rng.random() < 0.3) else []),
                                      beh=gen_beh(rng, calm)))
            if rng.random() < 0.2:
                items.append(dict(sub=None, basename='x0_9', task_dep=[], setup=[], targets=[], file_dep=[], beh=gen_beh(rng, calm)))
        else:
            c['executed'] = rng.choice(names + snames[1:] + [None])
            c['regex'] = None
            items = []
            for i, nm in enumerate(placeholders[fname]):
                items.append(dict(sub=None, basename=nm, task_dep=[x for x in names if rng.random() < 0.3][:1], setup=[],
                                  targets=['f_%s_%d' % (fname, i)] if rng.random() < 0.5 else [], file_dep=[], beh=gen_beh(rng, calm)))
        c['shape'] = 'gen'; c['items'] = items
        c['ph_beh'] = {p: dict(DEFAULT_BEH, check=rng.choice(['run', 'run', 'run', 'utd'])) for p in placeholders[fname]}
    r = rng.random()
    if r < 0.3:
        sel = None
    elif r < 0.5 and shared:
        sel = ['s0'] + ([rng.choice(names)] if rng.random() < 0.4 else [])
    elif r < 0.8:
        sel = list(names); rng.shuffle(sel)
        if rng.random() < 0.3:
            sel = sel[:2]
        if rng.random() < 0.3:
            sel.insert(rng.randrange(0, len(sel) + 1), rng.choice(snames))
    elif r < 0.9:
        sel = ['%s:0' % names[1], names[0]] if rng.random() < 0.5 else [names[1], '%s:0' % names[0], names[-1]]
    else:
        sel = [rng.choice(names + snames) for _ in range(rng.choice([1, 2, 3]))]
    return dict(statics=statics, creators=creators, sel=sel, auto=rng.random() < 0.2, cont=rng.random() < 0.5,
                always=rng.random() < 0.1, kind='multi')


# names of calc_dep providers: pairwise distinct slots in the 8-slot table of a small Python set, so that every set of them
# iterates in ascending slot order (PYTHONHASHSEED is fixed by ./check); that order is the model's calc_rank oracle
def _slot(nm):
    return hash(nm) & 7


def provider_names():
    """(static provider names, created provider name per creator id)"""
    used, stat, made = set(), [], {}
    i = 0
    while len(stat) < 2:
        nm = 'k%d' % i; i += 1
        if _slot(nm) not in used:
            used.add(_slot(nm)); stat.append(nm)
    for j in range(2):
        i = 0
        while j not in made:
            nm = 'x%d_k%d' % (j, i); i += 1
            if _slot(nm) not in used:
                used.add(_slot(nm)); made[j] = nm
    return stat, made


def set_order_ok(names):
    import itertools
    for k in range(2, len(names) + 1):
        for sub in itertools.combinations(names, k):
            want = sorted(sub, key=_slot)
            s = set(sub)
            if list(s) != want or list(s.copy()) != want:
                return False
    return True


def gen_calc(rng):
    """created tasks that declare calc_dep (and task_dep / setup): a calc_dep provider is a task whose action returns
    {'task_dep': [...], 'file_dep': [...], 'calc_dep': [...]} (static task k*, or a task x<j>_k* made by the same creator).
    Consumers: the task that takes over the placeholder's node (creator returns ONE dict / yields a plain task named like
    the placeholder / like an entry of `creates`), sub-tasks (also selected by name: `d0:1` placeholder), differently named
    tasks; static consumers as the baseline.  Every placeholder name is yielded, so that the identically defined static
    task set (twin) exists: case['twin'] = True"""
    calm = rng.random() < 0.7
    stat_prov, made_prov = provider_names()
    ns = rng.choice([2, 2, 3])
    snames = ['s%d' % i for i in range(ns)]
    provs = stat_prov[:rng.choice([1, 1, 2])]
    nd = rng.choice([1, 1, 1, 2])
    shared = rng.random() < 0.3            # s0 has placeholder names as task_dep
    creators = []
    for j in range(nd):
        r = rng.random()
        creates = None if r < 0.6 else (['c%da' % j] if r < 0.8 else ['c%da' % j, 'c%db' % j])
        creators.append(dict(fname='d%d' % j, cid=j, creates=creates))
    placeholders = {c['fname']: (c['creates'] or [c['fname']]) for c in creators}
    all_ph = [p for c in creators for p in placeholders[c['fname']]]
    low = snames[1:]                       # what created tasks / computed values may depend on (never s0: no cycles)
    statics = []
    for i, nm in enumerate(snames):
        later = snames[i + 1:]
        td = [x for x in rng.sample(later, min(len(later), rng.randrange(0, 3))) if rng.random() < 0.6]
        if i == 0 and shared:
            td = td + rng.sample(all_ph, rng.choice([1, min(2, len(all_ph))]))
        statics.append(dict(name=nm, task_dep=td, setup=[x for x in later if rng.random() < 0.1][:1], file_dep=[],
                            targets=['f_%s' % nm] if rng.random() < 0.7 else [], beh=gen_beh(rng, calm),
                            calc_dep=[rng.choice(provs)] if (i == 0 and rng.random() < 0.25) else []))
    stargets = [t for s in statics for t in s['targets']]
    low_targets = [t for t in stargets if t != 'f_s0']

    def gen_values(k, more_calc):
        v = dict(task_dep=[x for x in low if rng.random() < 0.4][:2],
                 file_dep=[t for t in low_targets if rng.random() < 0.4][:2] + (['plain_%s.txt' % k] if rng.random() < 0.6 else []),
                 calc_dep=[x for x in more_calc if rng.random() < 0.3][:1])
        if not (v['task_dep'] or v['file_dep'] or v['calc_dep']):
            v['file_dep'] = ['plain_%s.txt' % k]
        return v
    for i, k in enumerate(provs):
        beh = gen_beh(rng, calm or rng.random() < 0.5)
        statics.append(dict(name=k, task_dep=[x for x in low if rng.random() < 0.2][:1], setup=[], file_dep=[], targets=[],
                            beh=beh, calc_dep=[], values=gen_values(k, provs[i + 1:])))
    for j, c in enumerate(creators):
        fname = c['fname']; phs = placeholders[fname]
        pool = low + provs + [p for cc in creators[:j] for p in placeholders[cc['fname']]]
        c['executed'] = rng.choice(pool) if (pool and rng.random() < 0.65) else None
        c['regex'] = ('f_%s_' % fname) if rng.random() < 0.3 else None
        shape = 'ret' if (len(phs) == 1 and rng.random() < 0.4) else 'gen'
        items = []
        own_prov = None
        if shape == 'gen' and rng.random() < 0.35:
            own_prov = made_prov[j]
        avail = provs + ([own_prov] if own_prov else [])

        def consumer(base, sub, p_calc):
            k = len(items)
            cd = []
            if rng.random() < p_calc:
                cd = rng.sample(avail, 1 if (len(avail) == 1 or rng.random() < 0.75) else 2)
            td = [x for x in low if rng.random() < 0.25][:2]
            if j > 0 and rng.random() < 0.15:
                td.append(rng.choice(placeholders['d0']))
            return dict(sub=sub, basename=base, task_dep=td, setup=[x for x in low if rng.random() < 0.1][:1],
                        targets=['f_%s_%d' % (fname, k)] if rng.random() < 0.55 else [],
                        file_dep=([rng.choice(low_targets)] if (low_targets and rng.random() < 0.2) else []) +
                                 ([rng.choice([t for it in items for t in it['targets']])] if (any(it['targets'] for it in items) and rng.random() < 0.2) else []),
                        beh=gen_beh(rng, calm), calc_dep=cd)
        if shape == 'ret':
            # ONE dict: the created task has the name of the placeholder (default basename, or the entry of `creates`)
            items.append(consumer(phs[0] if c['creates'] else None, None, 0.9))
        else:
            if own_prov:
                items.append(dict(sub=None, basename=own_prov, task_dep=[x for x in low if rng.random() < 0.2][:1], setup=[], targets=[], file_dep=[],
                                  beh=gen_beh(rng, calm or rng.random() < 0.5), calc_dep=[], values=gen_values(own_prov, provs)))
            extra = None
            if rng.random() < 0.4:
                extra = 'x%d_0' % j
                items.append(consumer(extra, None, 0.6))
            for p in phs:
                if rng.random() < 0.5:
                    it = consumer(p, None, 0.8)
                    if extra and rng.random() < 0.6:
                        it['task_dep'].append(extra)
                    items.append(it)
                else:
                    for sub in ['0', '1'][:rng.choice([1, 2, 2])]:
                        it = consumer(p, sub, 0.65)
                        if extra and rng.random() < 0.3:
                            it['task_dep'].append(extra)
                        items.append(it)
            if rng.random() < 0.3:
                rng.shuffle(items)
        if rng.random() < 0.03 and items:     # common target with a static task -> InvalidTask at creation time
            items[-1]['targets'] = ['f_%s' % snames[-1]]
        c['shape'] = shape; c['items'] = items
        c['ph_beh'] = {p: dict(DEFAULT_BEH, check=rng.choice(['run', 'run', 'run', 'utd'])) for p in phs}
    # selection: only words that exist once the creators ran
    subs, tgts = [], []
    for c in creators:
        for it in c['items']:
            base = it['basename'] or c['fname']
            if it['sub'] is not None and base in placeholders[c['fname']]:
                subs.append('%s:%s' % (base, it['sub']))
            tgts += [t for t in it['targets'] if t.startswith('f_%s_' % c['fname'])]
    r = rng.random()
    auto = rng.random() < 0.2
    if r < 0.22:
        sel = None
    elif r < 0.5:
        sel = [rng.choice(all_ph)]
    elif r < 0.65 and subs:
        sel = [rng.choice(subs)]
    elif r < 0.75 and shared:
        sel = ['s0']
    elif r < 0.88 and tgts:
        sel = [rng.choice(tgts)]
        cr = [c for c in creators if sel[0].startswith('f_%s_' % c['fname'])][0]
        auto = auto or cr['regex'] is None
    else:
        sel = [rng.choice(all_ph + subs + snames + provs + tgts) for _ in range(rng.choice([2, 2, 3]))]
        auto = auto or any(w in tgts for w in sel)
    return dict(statics=statics, creators=creators, sel=sel, auto=auto, cont=rng.random() < 0.5, always=rng.random() < 0.12,
                kind='calc', twin=True)


def gen_subrx(rng):
    """sub-tasks of a delayed task selected BY NAME (`d0:1`: _filter_tasks makes a placeholder sharing d0's loader object)
    together with words resolved through target_regex / --auto-delayed-regex (targets of created tasks, targets nobody
    produces), in both orders -- the input family of the repaired defect `subtask-placeholder-regex` (/repo 01f48fb).
    Every sub-task word exists once the creator ran and every placeholder name is yielded (case['twin'] = True)"""
    calm = rng.random() < 0.8
    ns = rng.choice([1, 2, 2])
    snames = ['s%d' % i for i in range(ns)]
    statics = []
    for i, nm in enumerate(snames):
        later = snames[i + 1:]
        statics.append(dict(name=nm, task_dep=[x for x in later if rng.random() < 0.4], setup=[], file_dep=[],
                            targets=['f_%s' % nm] if rng.random() < 0.5 else [], beh=gen_beh(rng, calm)))
    nd = rng.choice([1, 1, 2])
    creators = []
    for j in range(nd):
        fname = 'd%d' % j
        r = rng.random()
        creates = None if r < 0.65 else (['c%da' % j] if r < 0.85 else ['c%da' % j, 'c%db' % j])
        c = dict(fname=fname, cid=j, creates=creates)
        phs = creates or [fname]
        c['executed'] = rng.choice(snames) if rng.random() < 0.4 else None
        c['regex'] = ('f_%s_' % fname) if rng.random() < 0.4 else None
        items = []
        for p in phs:
            for sub in ['0', '1', '2'][:rng.choice([2, 2, 3])]:
                k = len(items)
                items.append(dict(sub=sub, basename=p, task_dep=[x for x in snames if rng.random() < 0.15][:1], setup=[],
                                  targets=['f_%s_%d' % (fname, k)] if rng.random() < 0.85 else [],
                                  file_dep=(['f_%s_%d' % (fname, rng.randrange(0, k))] if (k and rng.random() < 0.15 and items[0]['targets']) else []),
                                  beh=gen_beh(rng, calm)))
        for it in items:      # a file_dep must be a target that exists
            made = [t for x in items for t in x['targets']]
            it['file_dep'] = [f for f in it['file_dep'] if f in made and f not in it['targets']]
        c['shape'] = 'gen'; c['items'] = items
        c['ph_beh'] = {p: dict(DEFAULT_BEH, check=rng.choice(['run', 'run', 'run', 'utd'])) for p in phs}
        creators.append(c)
    subs = [item_name(c, it) for c in creators for it in c['items']]
    tgts = [t for c in creators for it in c['items'] for t in it['targets']]
    missing = ['f_%s_9' % c['fname'] for c in creators] + ['nope']
    nsub = rng.choice([1, 1, 2])
    words = rng.sample(subs, min(nsub, len(subs)))
    r = rng.random()
    if r < 0.55 and tgts:
        words += rng.sample(tgts, min(len(tgts), rng.choice([1, 1, 2])))
    elif r < 0.85:
        words.append(rng.choice(missing))
    else:
        words += [rng.choice(tgts + missing), rng.choice(snames + [c['fname'] for c in creators if not c['creates']] + missing)]
    if rng.random() < 0.35:
        rng.shuffle(words)          # default: the sub-task word(s) first (the order that hit the defect)
    auto = rng.random() < 0.7
    return dict(statics=statics, creators=creators, sel=words, auto=auto, cont=rng.random() < 0.5, always=rng.random() < 0.1,
                kind='subrx', twin=True)


RXCAND_VARIANTS = ['auto/other-explicit-miss/producer-none'] * 4 + ['auto/other-explicit-miss/producer-explicit'] * 2 + \
                  ['off/other-explicit-miss/producer-explicit'] * 2 + ['off/other-none/producer-explicit', 'auto/other-none (legit candidate)',
                                                                       'other-explicit-match (legit candidate)']


def gen_rxcand(rng):
    """WHO may be asked for a command-line target.  Two delayed creators: the PRODUCER yields the task whose target is given on
    the command line; the OTHER one cannot produce it by its own declaration and has its OWN `executed=` trigger s0 (with an
    optional dependency s1) that nothing else needs.  Variants (case['rx']['variant'], first word: --auto-delayed-regex on/off):
      auto/other-explicit-miss/producer-none      other: explicit target_regex that does NOT match; producer: no regex (implicit `.*`)
      auto/other-explicit-miss/producer-explicit  other: explicit non-matching; producer: explicit matching
      off/other-explicit-miss/producer-explicit   the dual: only explicit regexes decide
      off/other-none/producer-explicit            other: no regex, option off: never a candidate
      auto/other-none (legit candidate)           other: no regex, option on: candidate by the implicit `.*` (positive control)
      other-explicit-match (legit candidate)      other: explicit regex that matches although it does not produce (positive control)
    Either creator may be defined first (the wrong candidate defined first is asked first); 1-2 names in `creates` or none;
    second word: another target of the producer, a sub-task of the producer by name, an unrelated static task; in ~1/8 of the
    cases the word is a target the producer does not yield either (exit status 3).  case['twin'] = True (every name is yielded)"""
    calm = rng.random() < 0.8
    variant = rng.choice(RXCAND_VARIANTS)
    auto = variant.startswith('auto') or (variant.startswith('other-explicit-match') and rng.random() < 0.5)
    o = rng.choice([0, 0, 0, 1])          # position of the OTHER creator in definition order
    p = 1 - o
    have_s1 = rng.random() < 0.5
    have_s3 = rng.random() < 0.5
    p_trig = rng.random() < 0.6
    snames = ['s0'] + (['s1'] if have_s1 else []) + (['s2'] if p_trig else []) + (['s3'] if have_s3 else [])
    statics = []
    for nm in snames:
        statics.append(dict(name=nm, task_dep=['s1'] if (nm == 's0' and have_s1) else [], setup=[], file_dep=[],
                            targets=['f_%s' % nm] if (nm == 's3' or rng.random() < 0.3) else [], beh=gen_beh(rng, calm)))
    creators = [None, None]
    for j in (0, 1):
        fname = 'd%d' % j
        r = rng.random()
        creates = None if r < 0.65 else (['c%da' % j] if r < 0.85 else ['c%da' % j, 'c%db' % j])
        c = dict(fname=fname, cid=j, creates=creates)
        phs = creates or [fname]
        if j == o:
            c['executed'] = 's0'
            if 'other-explicit-miss' in variant:
                c['regex'] = rng.choice(['f_%s_' % fname, 'f_%s_[0-9]$' % fname, 'g_'])
            elif variant.startswith('other-explicit-match'):
                c['regex'] = rng.choice(['f_d', 'f_d%d_' % p])
            else:
                c['regex'] = None
            pool = ['s0'] + (['s1'] if have_s1 else [])
        else:
            c['executed'] = 's2' if p_trig else None
            if variant.endswith('producer-none'):
                c['regex'] = None
            elif variant.endswith('producer-explicit') or variant.startswith('other-explicit-match'):
                c['regex'] = rng.choice(['f_%s_' % fname, 'f_d'])
            else:
                c['regex'] = rng.choice([None, 'f_%s_' % fname])
            pool = (['s2'] if p_trig else []) + (['s3'] if have_s3 else [])
        items = []
        for ph in phs:
            for sub in ['0', '1', '2'][:rng.choice([1, 2, 2, 3])]:
                k = len(items)
                items.append(dict(sub=sub, basename=ph, task_dep=[x for x in pool if rng.random() < 0.2][:1], setup=[],
                                  targets=['f_%s_%d' % (fname, k)] if (k == 0 or rng.random() < 0.8) else [],
                                  file_dep=(['f_%s_%d' % (fname, rng.randrange(0, k))] if (k and rng.random() < 0.15) else []),
                                  beh=gen_beh(rng, calm)))
        made = [t for x in items for t in x['targets']]
        for it in items:
            it['file_dep'] = [f for f in it['file_dep'] if f in made and f not in it['targets']]
        c['shape'] = 'gen'; c['items'] = items
        c['ph_beh'] = {ph: dict(DEFAULT_BEH, check=rng.choice(['run', 'run', 'run', 'utd'])) for ph in phs}
        creators[j] = c
    P, O = creators[p], creators[o]
    tgts = [t for it in P['items'] for t in it['targets']]
    missing = rng.random() < 0.12
    words = ['f_%s_9' % P['fname'] if missing else rng.choice(tgts)]
    r = rng.random()
    if r < 0.12 and len(tgts) > 1:
        words.append(rng.choice([t for t in tgts if t != words[0]]))
    elif r < 0.2:
        words.append(item_name(P, rng.choice(P['items'])))
    elif r < 0.28 and have_s3:
        words.append(rng.choice(['s3', 'f_s3']))
    if rng.random() < 0.5:
        rng.shuffle(words)
    own = ['s0'] + (['s1'] if have_s1 else []) + list(O['creates'] or [O['fname']]) + [item_name(O, it) for it in O['items']]
    return dict(statics=statics, creators=creators, sel=words, auto=auto, cont=rng.random() < 0.5, always=rng.random() < 0.1,
                kind='rxcand', twin=True, rx=dict(variant=variant, other=o, producer=p, own=own))


def declared_candidate(creator, word, auto):
    """may this creator be asked for the command-line target `word`?  Judged on its DECLARATION only: its own target_regex
    must match; a creator that declares none is a candidate only under --auto-delayed-regex (implicit `.*`)"""
    if creator['regex']:
        return re.match(creator['regex'], word) is not None
    return bool(auto)


# ------------------------------------------------------------------------------------------ namespace
class Ids:
    def __init__(self):
        self.m = {}

    def __call__(self, s):
        if s not in self.m:
            self.m[s] = len(self.m) + 1
        return self.m[s]


def item_dict(it, log, nid, gate):
    beh = it['beh']

    def act(task):                     # doit passes the Task object to a parameter called `task`
        log.append([51, nid(task.name)])
        if gate and gate[0]:
            gate[0]()
        o = beh['outcome']
        if o == 'fail':
            return False
        if o == 'error':
            raise RuntimeError('action error')
        if it.get('values'):           # a calc_dep provider: the returned dict becomes task.values
            return {k: list(v) for k, v in it['values'].items()}
        return True
    d = {'actions': [act], 'task_dep': list(it['task_dep']), 'setup': list(it.get('setup', [])),
         'file_dep': list(it['file_dep']), 'targets': list(it['targets']), 'meta': {'beh': dict(beh)}}
    if it.get('calc_dep'):
        d['calc_dep'] = list(it['calc_dep'])
    if it.get('values'):
        d['meta']['values'] = {k: list(v) for k, v in it['values'].items()}
    if beh['teardown']:
        d['teardown'] = [lambda: None]
    if it.get('sub') is not None:
        d['name'] = it['sub']
    if it.get('basename'):
        d['basename'] = it['basename']
    return d


def build_ns(case, log, nid, quiet=False, gate=None, static=False):
    """namespace of task-creators.  quiet=True: the silent twin (no log entries).  static=True: the same creators
    WITHOUT create_after (the identically defined static task set; default basename = name of the creator)"""
    from doit import create_after
    ns = {}
    lg = [] if quiet else log
    for s in case['statics']:
        def fn(s=s):
            d = item_dict(dict(s, sub=None, basename=None), lg, nid, gate)
            return d
        ns['task_' + s['name']] = fn
    for c in case['creators']:
        if c['shape'] == 'ret':
            def cr(c=c):
                lg.append([50, c['cid']])
                return item_dict(c['items'][0], lg, nid, gate)
        else:
            def cr(c=c):
                lg.append([50, c['cid']])
                for it in c['items']:
                    yield item_dict(it, lg, nid, gate)
        cr._c15_cid = c['cid']
        if not static:
            cr = create_after(executed=c['executed'], target_regex=c['regex'], creates=c['creates'])(cr)
        ns['task_' + c['fname']] = cr
    return ns


# ------------------------------------------------------------------------------------------ fakes
class Reporter:
    def __init__(self, log, nid):
        self.log, self.nid = log, nid

    def _e(self, code, task, *more):
        self.log.append([code, self.nid(task.name)] + list(more))

    def get_status(self, t): self._e(1, t)
    def skip_ignore(self, t): self._e(2, t)
    def skip_uptodate(self, t): self._e(3, t)
    def add_failure(self, t, f):
        self._e(4, t, {'TaskFailed': 0, 'TaskError': 1, 'UnmetDependency': 2, 'DependencyError': 3}.get(f.get_name(), 9))
    def execute_task(self, t):
        self._e(5, t)
    def add_success(self, t): self._e(6, t)
    def teardown_task(self, t): self._e(9, t)
    def cleanup_error(self, e): pass
    def runtime_error(self, m): self.log.append([30])
    def complete_run(self): pass


class Status:
    def __init__(self, status): self.status = status
    def get_error_message(self): return 'fake error'


def beh_of(task, ph):
    if task.meta and 'beh' in task.meta:
        return task.meta['beh']
    return ph.get(task.name, DEFAULT_BEH)


class FakeDep:
    def __init__(self, ph, log, nid, tasks=None):
        self.ph, self.log, self.nid, self.tasks = ph, log, nid, tasks

    def status_is_ignore(self, task):
        return '1' if beh_of(task, self.ph)['dbignore'] else None

    def get_status(self, task, tasks_dict, get_log=False):
        task.dep_changed = []
        return Status({'run': 'run', 'utd': 'up-to-date', 'err': 'error'}[beh_of(task, self.ph)['check']])

    def get_values(self, name):
        # saved values of an up-to-date task (runner.py 156): what its action returns (calc_dep providers)
        t = (self.tasks or {}).get(name)
        v = (t.meta or {}).get('values') if t is not None else None
        return {k: list(x) for k, x in v.items()} if v else {}
    def get_value(self, task_id, key): raise Exception('no value')
    def save_success(self, task, result_hash=None): self.log.append([7, self.nid(task.name)])
    def remove_success(self, task): self.log.append([8, self.nid(task.name)])
    def close(self): self.log.append([10])


# ------------------------------------------------------------------------------------------ model rendering
def nl(xs):
    return '[' + '; '.join(str(x) for x in xs) + ']'


def b(x):
    return 'true' if x else 'false'


def coq_dtask(task, ph, nid, loader_name, targets0=None):
    """targets0: the targets dict TaskControl.__init__ left (producers of the file_dep a calc_dep provider returns; the
    generated providers only name targets of static tasks, so the producer does not depend on when it is looked up)"""
    beh = beh_of(task, ph)
    ld = 'None'
    if task.loader:
        ld = 'Some %d' % nid(loader_name[id(task.loader)])
    vals = (task.meta or {}).get('values') or {}
    return ('{| dt := Build_task %s %s %s %s %s %s false %s %s %s %s; dt_file_dep := %s; dt_targets := %s; dt_loader := %s |}' % (
        nl([nid(x) for x in task.task_dep]), nl([nid(x) for x in task.setup_tasks]), nl([nid(x) for x in sorted(task.calc_dep, key=_slot)]),
        b(beh['teardown'] and bool(task.teardown)), b(beh['dbignore']), CHECK[beh['check']], OUTC[beh['outcome'] if task.actions else 'ok'],
        nl([nid(x) for x in vals.get('task_dep', [])]),
        nl([nid((targets0 or {})[f]) for f in vals.get('file_dep', []) if f in (targets0 or {})]),
        nl([nid(x) for x in vals.get('calc_dep', [])]),
        nl([nid(x) for x in task.file_dep]), nl([nid(x) for x in task.targets]), ld))


def match1(arms, default, var='n'):
    return 'match %s with %s | _ => %s end' % (var, ' '.join('| %d => %s' % (k, v) for k, v in arms), default)


def render(case, snap, wake, nid, sfx, script=None):
    sel = case['sel']
    defs = []
    defs.append('Definition tb%s (n : name) : option dtask := %s.' % (sfx, match1([(k, 'Some (%s)' % v) for k, v in snap['tab']], 'None')))
    defs.append('Definition ld%s (n : name) : loader := %s.' % (sfx, match1(snap['ld'], 'empty_loader')))
    defs.append('Definition tg%s (n : name) : option name := %s.' % (sfx, match1([(k, 'Some %d' % v) for k, v in snap['tg']], 'None')))
    arms = []
    for c, per in snap['creators'].items():
        arms.append((c, match1([(t, lst) for t, lst in per], '[]', 't')))
    defs.append('Definition cr%s (c : N) (t : name) : list (name * dtask) := %s.' % (sfx, match1(arms, '[]', 'c')))
    arms = []
    for p, order in wake.items():
        arms.append((p, match1([(x, pos) for pos, x in enumerate(order)], '99', 'x')))
    defs.append('Definition wk%s (p x : name) : N := %s.' % (sfx, match1(arms, '0', 'p')))
    defs.append('Definition bo%s (n : name) : name := %s.' % (sfx, match1(snap['base_of'], 'n')))
    defs.append('Definition ix%s (n : name) : bool := %s.' % (sfx, match1([(k, 'true') for k in snap['is_rx']], 'false')))
    arms = []
    for T, per in snap['rmatch'].items():
        arms.append((T, match1([(f, b(v)) for f, v in per], 'false', 'f')))
    defs.append('Definition rm%s (T f : name) : bool := %s.' % (sfx, match1(arms, 'false', 'T')))
    arms = []
    for f, per in snap['rx_name'].items():
        arms.append((f, match1(per, '0', 'k')))
    defs.append('Definition rn%s (f k : name) : name := %s.' % (sfx, match1(arms, '0', 'f')))
    selc = 'None' if sel is None else '(Some %s)' % nl([nid(w) for w in sel])
    # iteration order of the calc_dep sets: ascending hash slot of the provider names (see provider_names)
    defs.append('Definition ck%s (x : name) : N := %s.' % (sfx, match1([(k, r) for k, r in snap.get('calc_rank', [])], '50 + x', 'x')))
    fmt = '%s ' + MODEL_VARIANT + ' ' + MODEL_SELVER + ' cr%s wk%s ck%s %s %s bo%s ix%s rm%s rn%s %s FUEL (loaded tb%s ld%s tg%s) %s %s'
    expr = fmt % ('run_cmd' if script is None else 'run_script_wf_cmd',
                  sfx, sfx, sfx, b(case['cont']), b(case['always']), sfx, sfx, sfx, sfx, b(case['auto']), sfx, sfx, sfx,
                  nl(snap['order']), selc)
    expr += ('' if script is None else ' ' + script) + ' %d%%nat' % (len(nid.m) + 2)
    return '\n'.join(defs), expr


# ------------------------------------------------------------------------------------------ the real thing
def creator_outputs(case, nid, to_loads):
    """oracle: what generate_tasks(to_load, creator()) returns, on the silent twin"""
    from doit.loader import generate_tasks
    from doit.exceptions import InvalidTask
    twin = build_ns(case, None, nid, quiet=True)
    res, names = {}, {}
    for c in case['creators']:
        per = []
        fn = twin['task_' + c['fname']]
        for t in to_loads:
            try:
                new = list(generate_tasks(t, fn(), fn.__doc__))
            except InvalidTask:
                return None, None
            per.append((t, new))
            names[(c['cid'], t)] = [x.name for x in new]
        res[c['cid']] = per
    return res, names


class GenProxy:
    """records what the runner sends to / gets from the dispatcher generator"""
    def __init__(self, gen, log, nid):
        self.gen, self.log, self.nid = gen, log, nid

    def send(self, node):
        self.log.append([70, self.nid(node.task.name) if node is not None else 0])
        try:
            r = self.gen.send(node)
        except StopIteration:
            self.log.append([62, 0])
            raise
        self.log.append([61, 0] if isinstance(r, str) else [60, self.nid(r.task.name)])
        return r


class DispProxy:
    def __init__(self, disp, log, nid):
        self._disp = disp
        self.generator = GenProxy(disp.generator, log, nid)

    def __getattr__(self, a):
        return getattr(self._disp, a)


def make_shared(case):
    """ONE namespace of creator functions (the function objects that carry func.doit_create_after) for several runs in this process"""
    sh = dict(nid=Ids(), log=[], gate=[None])
    sh['ns'] = build_ns(case, sh['log'], sh['nid'], gate=sh['gate'])
    return sh


def run_impl(case, flavour='serial', par=None, shared=None):
    """flavour: 'serial' | 'thread' (MThreadRunner, real threads, 2 workers) | 'dthread' (MThreadRunner under the
    deterministic scheduler of harness/runlib.py; par = dict(k=<workers>, sched=[choices])).
    shared (make_shared): load_tasks is called on a namespace that earlier runs of this process were loaded from already
    (the same creator FUNCTION OBJECTS); the log is emptied, everything else (TaskControl, dispatcher, runner, fake
    dependency manager, reporter) is new, as in a second DoitMain.run of one process"""
    import doit.control as C
    import doit.runner as R
    from doit.loader import load_tasks
    from doit.exceptions import InvalidTask, InvalidDodoFile, InvalidCommand
    import runlib
    if shared is None:
        nid = Ids()
        log = []
        gate = [None]
    else:
        nid, log, gate = shared['nid'], shared['log'], shared['gate']
        del log[:]
    try:
        ns = build_ns(case, log, nid, gate=gate) if shared is None else shared['ns']
        task_list = load_tasks(ns, allow_delayed=True)
        tc = C.TaskControl(task_list, auto_delayed_regex=case['auto'])
    except (InvalidTask, InvalidDodoFile) as e:
        return dict(skip='load-error: %s' % str(e)[:60])
    ph = {}
    for c in case['creators']:
        ph.update(c['ph_beh'])
    # ---- snapshot of the loaded state (model input), before process()
    loader_name = {}
    for t in task_list:
        if t.loader:
            loader_name[id(t.loader)] = t.name
    sel = case['sel'] or []
    initial = list(tc.tasks.keys())
    to_loads = list(dict.fromkeys([t.name for t in task_list if t.loader] + [w for w in sel if w not in tc.tasks]))
    couts, cnames = creator_outputs(case, nid, to_loads)
    if couts is None:
        return dict(skip='creator-invalid')
    snap = dict(order=[nid(k) for k in initial])
    targets0 = dict(tc.targets)
    snap['tab'] = [(nid(k), coq_dtask(t, ph, nid, loader_name, targets0)) for k, t in tc.tasks.items()]
    snap['ld'] = []
    cid_of = {}
    for t in task_list:
        if t.loader:
            L = t.loader
            cid = L.creator._c15_cid
            cid_of[id(L)] = cid
            snap['ld'].append((nid(t.name), 'Build_loader %d %s None false %s' % (
                cid, ('(Some %d)' % nid(L.task_dep)) if L.task_dep else 'None', b(bool(L.target_regex)))))
    # LF: what the model input asserts for every run (l_created = false, l_basename = None above: "each run starts from fresh
    #     DelayedLoader copies") read off the real objects load_tasks handed out; judged by oracle()
    stale = []
    for t in task_list:
        if t.loader and (t.loader.created or t.loader.basename is not None):
            stale.append('%s: created=%r basename=%r%s' % (t.name, t.loader.created, t.loader.basename,
                         ' (the DelayedLoader object stored on the creator function itself)' if getattr(t.loader.creator, 'doit_create_after', None) is t.loader else ''))
    on_func = sorted(t.name for t in task_list if t.loader and getattr(t.loader.creator, 'doit_create_after', None) is t.loader)
    snap['tg'] = [(nid(f), nid(k)) for f, k in tc.targets.items()]
    snap['creators'] = {}
    for cid, per in couts.items():
        snap['creators'][cid] = [(nid(t), '[' + '; '.join('(%d, %s)' % (nid(x.name), coq_dtask(x, ph, nid, loader_name, targets0)) for x in new) + ']')
                                 for t, new in per]
    snap['base_of'] = [(nid(w), nid(w.split(':', 1)[0])) for w in dict.fromkeys(sel)]
    cands = list(dict.fromkeys([t.name for t in task_list if t.loader] + sel))
    snap['rx_name'] = {}
    snap['is_rx'] = []
    for w in dict.fromkeys(sel):
        per = []
        for k in cands:
            nm = '_regex_target_%s:%s' % (w, k)
            per.append((nid(k), nid(nm)))
            snap['is_rx'].append(nid(nm))
        snap['rx_name'][nid(w)] = per
    snap['rmatch'] = {}
    for t in task_list:
        if t.loader and t.loader.target_regex:
            snap['rmatch'][nid(t.name)] = [(nid(w), bool(re.match(t.loader.target_regex, w))) for w in dict.fromkeys(sel)]
    init_loader = {t.name: bool(t.loader) for t in task_list}
    provs = [s_['name'] for s_ in case['statics'] if s_.get('values')] + [it['basename'] for c in case['creators'] for it in c['items'] if it.get('values')]
    if provs and not set_order_ok(provs):
        return dict(skip='calc-set-order')
    snap['calc_rank'] = [(nid(k), _slot(k)) for k in provs]
    # ---- seam: generate_tasks as called by _add_task (which creator, through which loader object, for which name)
    orig_gt = C.generate_tasks
    creates_of = {c['cid']: (c['creates'] or [c['fname']]) for c in case['creators']}

    def gt(func_name, gen_result, gen_doc=None):
        # called from TaskDispatcher._add_task: `ref` = the creator, `this_task.loader` = the loader object used
        fl = sys._getframe(1).f_locals
        c = getattr(fl.get('ref'), '_c15_cid', 99)
        l = loader_name.get(id(getattr(fl.get('this_task'), 'loader', None)), '?')
        log.append([14, c, nid(l), nid(func_name)])
        # how many placeholder nodes of this creator exist at the moment of the evaluation (marker for the statistics)
        disp_self = fl.get('self')
        if disp_self is not None and c in creates_of:
            log.append([52, c, sum(1 for nm in creates_of[c] if nm in disp_self.nodes)])
        return orig_gt(func_name, gen_result, gen_doc)
    wake = {}
    orig_uw = C.TaskDispatcher._update_waiting

    def uw(self, processed):
        if processed is not None and processed.run_status != 'run':
            wake[nid(processed.task.name)] = [nid(nd.task.name) for nd in processed.waiting_me]
        return orig_uw(self, processed)
    saved_streams = (sys.stdout, sys.stderr)
    rc = None
    crash = None
    C.generate_tasks = gt
    C.TaskDispatcher._update_waiting = uw
    try:
        try:
            tc.process(case['sel'])
        except InvalidCommand:
            log.append([40])
            rc = 3
        if rc is None:
            dep = FakeDep(ph, log, nid, tc.tasks)
            rep = Reporter(log, nid)
            disp = tc.task_dispatcher()
            if flavour == 'serial':
                runner = R.Runner(dep, rep, continue_=case['cont'], always_execute=case['always'])
            elif flavour == 'thread':
                runner = R.MThreadRunner(dep, rep, continue_=case['cont'], always_execute=case['always'], num_process=2)
            else:
                runlib.S = runlib.Sched(par['sched'], False)
                runlib.S.log = log

                def g():
                    runlib.S.block(threading.current_thread(), ('busy', 0))
                gate[0] = g

                class SRunner(R.MThreadRunner):
                    Queue = staticmethod(runlib.FakeQueue)
                    Child = staticmethod(runlib.FakeChild)

                    def select_task(self, node, tasks_dict):
                        log.append([71, nid(node.task.name)])
                        r = R.MThreadRunner.select_task(self, node, tasks_dict)
                        log.append([63, 1 if r else 0])
                        return r

                    def process_task_result(self, node, base_fail):
                        log.append([72, nid(node.task.name)])
                        return R.MThreadRunner.process_task_result(self, node, base_fail)

                    def finish(self):
                        log.append([73, 0])
                        return R.MThreadRunner.finish(self)
                runner = SRunner(dep, rep, continue_=case['cont'], always_execute=case['always'], num_process=par['k'])
                disp = DispProxy(disp, log, nid)
            try:
                rc = runner.run_all(disp)
            except InvalidCommand as e:
                log.append([15, nid(e.not_found)] if e.not_found else [15, 0])
                rc = 3
            except InvalidDodoFile as e:
                msg = str(e)
                log.append([12] if 'waiting for each other' in msg else ([11] if 'Cyclic/recursive dependencies for task' in msg else [31]))
                rc = 3
            except KeyError as e:
                log.append([16]); rc = 3; crash = repr(e)
            except runlib.Hang:
                rc = 98; crash = 'all workers blocked (hang)'
            except BaseException as e:  # noqa
                log.append([32]); rc = 97; crash = repr(e)
    finally:
        C.generate_tasks = orig_gt
        C.TaskDispatcher._update_waiting = orig_uw
        sys.stdout, sys.stderr = saved_streams
        gate[0] = None
    events = [list(e) for e in log]
    trace = [x for ev in events if ev[0] < 50 for x in ev]
    # deterministic parallel run: the runner's calls (markers 60-73) are part of what is compared
    strace = [x for ev in events if (ev[0] < 50 or 60 <= ev[0] < 80) for x in ev]
    return dict(events=events, trace=trace, strace=strace, rc=rc, snap=snap, wake=wake, nid=nid, tc=tc, initial=initial,
                cnames=cnames, crash=crash, init_loader=init_loader, stale_loaders=stale, loaders_on_function=on_func,
                arity=(list(runlib.S.arity) if (flavour == 'dthread' and runlib.S) else []))


# ------------------------------------------------------------------------------------------ independent oracle
def expected_report(beh, always, has_actions=True):
    """what the runner must report for a task that is reached in a failure-free run: the event codes"""
    if beh['dbignore']:
        return [2]
    if beh['check'] == 'utd' and not always:
        return [3]
    return [5, 6]


def oracle(case, res, out, flavour, par=None):
    """property C15 judged on the observed behaviour only (no model)"""
    ev = res['events']; nid = res['nid']; rc = res['rc']
    inv = {v: k for k, v in nid.m.items()}
    viol = []
    # the complete generated case: `./check C15 --replay <file>` runs it again
    small = dict(case, flavour=flavour, par=par)

    def final_before(name, pos):
        k = nid(name)
        return any(e[0] in FINAL and e[1] == k for e in ev[:pos])
    # O1 creator evaluated at most once
    for c in case['creators']:
        calls = [i for i, e in enumerate(ev) if e[0] == 50 and e[1] == c['cid']]
        if len(calls) > 1:
            # one DelayedLoader copy (own `created` flag) exists per name in `creates`; a copy is retired only when one
            # evaluation of the creator yields a task of that name
            dishonest = bool(c['creates']) and len(c['creates']) > 1 and any(
                nm not in res['cnames'].get((c['cid'], t), []) for t in c['creates'] for nm in c['creates'])
            viol.append(dict(what='creator %s evaluated %d times in one run%s' % (
                c['fname'], len(calls), ' (creates=%s: not every listed name is yielded by one evaluation)' % c['creates'] if dishonest else ''),
                shape='creates-name-not-yielded' if dishonest else 'creator-evaluated-twice', case=small))
        # O2 only after its trigger has been processed
        for p in calls:
            if c['executed'] and not final_before(c['executed'], p):
                viol.append(dict(what='creator %s evaluated before its `executed` task %s was processed' % (c['fname'], c['executed']),
                                 shape='creator-before-trigger', case=small))
        # O1b exactly once: a placeholder name that got a final report was materialised first
        phs = c['creates'] or [c['fname']]
        for nm in phs:
            fin = [i for i, e in enumerate(ev) if e[0] in FINAL and e[1] == nid(nm)]
            if fin and not [p for p in calls if p < fin[0]]:
                viol.append(dict(what='task %s of the delayed creator %s was reported (event %s) but the creator was never evaluated before' % (
                    nm, c['fname'], ev[fin[0]]), shape='placeholder-reported-without-creation', case=small))
        # O6 every created task is executed: failure-free run (exit status 0, so nothing was cut short); for every
        #    name of `creates` that was reported, the task of that name yielded by the (one) evaluation, and the
        #    sub-tasks of that name, are each reported exactly as their own behaviour demands, exactly once
        if rc == 0 and len(calls) == 1:
            used = [e for e in ev if e[0] == 14 and e[1] == c['cid']]
            to_load = inv.get(used[0][3]) if used else None
            yielded = res['cnames'].get((c['cid'], to_load), [])
            by_name = {}
            for it in c['items']:
                base = it['basename'] or to_load
                by_name['%s:%s' % (base, it['sub']) if it['sub'] is not None else base] = it
            for nm in phs:
                if not any(e[0] in FINAL and e[1] == nid(nm) for e in ev):
                    continue
                for y in yielded:
                    if y != nm and not y.startswith(nm + ':'):
                        continue
                    it = by_name.get(y)
                    # a group task made by generate_tasks has no behaviour of its own: the fake dependency manager
                    # answers for it with the behaviour registered for the placeholder of that name
                    want = expected_report(it['beh'] if it else c['ph_beh'].get(y, DEFAULT_BEH), case['always'])
                    # "ignored" propagates along dependencies (and from an ignored trigger to the task that takes over the
                    # node of the placeholder): one skip_ignore report after another task's skip_ignore is accepted instead
                    ign = [i for i, e in enumerate(ev) if e[0] == 2 and e[1] == nid(y)]
                    if len(ign) == 1 and any(e[0] == 2 and e[1] != nid(y) for e in ev[:ign[0]]) and \
                            not any(e[0] in (3, 5, 6) and e[1] == nid(y) for e in ev):
                        continue
                    for code in want:
                        k = sum(1 for e in ev if e[0] == code and e[1] == nid(y))
                        if k != 1:
                            viol.append(dict(what='created task %s (creator %s, creates=%s): expected exactly one event %d, observed %d' % (
                                y, c['fname'], c['creates'], code, k), shape='created-task-not-executed-once', case=small))
                    if it and want == [5, 6] and flavour != 'proc':
                        k = sum(1 for e in ev if e[0] == 51 and e[1] == nid(y))
                        if k != 1:
                            viol.append(dict(what='created task %s: its action ran %d times' % (y, k),
                                             shape='created-task-not-executed-once', case=small))
    # LF every run starts from fresh DelayedLoader copies: what load_tasks handed out says created=False, basename=None (the
    #    hypothesis under which the model is evaluated for EVERY run: run_impl renders l_created = false, l_basename = None)
    for s_ in res.get('stale_loaders', []):
        viol.append(dict(what='load_tasks handed out a DelayedLoader that is not fresh -- %s: state written by an earlier run of this process '
                              '(TaskDispatcher._add_task / _filter_tasks) is visible to this run' % s_, shape='loader-state-leaks-between-runs', case=small))
    # O3 created (and static) tasks: executed at most once, after their task_deps
    deps = {}
    for s in case['statics']:
        deps[s['name']] = s['task_dep'] + s['setup'] + s.get('calc_dep', [])
    for c in case['creators']:
        for it in c['items']:
            if it['basename'] and it['sub'] is None:
                deps[it['basename']] = it['task_dep'] + it['setup'] + it.get('calc_dep', [])
            elif it['basename']:
                deps['%s:%s' % (it['basename'], it['sub'])] = it['task_dep'] + it['setup'] + it.get('calc_dep', [])
            elif case.get('twin'):      # default basename = name of the creator (kind calc: no `creates` without explicit basenames)
                deps[c['fname'] if it['sub'] is None else '%s:%s' % (c['fname'], it['sub'])] = it['task_dep'] + it['setup'] + it.get('calc_dep', [])
    runs = {}
    for i, e in enumerate(ev):
        if e[0] == 51:
            runs.setdefault(e[1], []).append(i)
    for k, poss in runs.items():
        nm = inv.get(k, '?')
        if len(poss) > 1:
            viol.append(dict(what='task %s executed %d times' % (nm, len(poss)), shape='task-executed-twice', case=small))
        for d in deps.get(nm, []):
            if not final_before(d, poss[0]):
                viol.append(dict(what='task %s executed before its dependency %s was processed' % (nm, d),
                                 shape='executed-before-dep', case=small))
    # O4 a word nobody produces is an error
    init_tasks = set(res['initial']); init_targets = res['targets0']
    all_created, all_targets = set(), set()
    for c in case['creators']:
        for (cid, t), names in res['cnames'].items():
            if cid == c['cid'] and t in (c['creates'] or [c['fname']]):
                all_created.update(names)
        for i, it in enumerate(c['items']):
            all_targets.update(it['targets'])
    for w in (case['sel'] or []):
        if w in init_tasks or w in init_targets:
            continue
        base = w.split(':', 1)[0]
        if base in init_tasks:
            if res['has_loader'].get(base):
                if w not in all_created and rc == 0:
                    viol.append(dict(what='`doit run %s`: creator of %s never yields %s, the placeholder ran as an empty task, exit status 0' % (w, base, w),
                                     shape='delayed-subtask-never-created', case=small))
            elif rc == 0:
                viol.append(dict(what='unknown sub-task %s of a non-delayed task accepted' % w, shape='unknown-name-accepted', case=small))
            continue
        if w not in all_targets and w not in all_created and rc == 0:
            viol.append(dict(what='command-line word %s is produced by nobody but the run ended with status 0' % w,
                             shape='unknown-target-accepted', case=small))
    # O5 single regex-resolved target: everything that was processed is in the dependency closure of
    #    the placeholder(s) in the final table; the producer was processed
    sel = case['sel'] or []
    if len(sel) == 1 and rc == 0 and sel[0] not in init_tasks and sel[0] not in init_targets and sel[0].split(':', 1)[0] not in init_tasks:
        tc = res['tc']
        w = sel[0]
        prod = tc.targets.get(w)
        if prod is None:
            viol.append(dict(what='target %s: run succeeded but no task produces it' % w, shape='regex-target-no-producer', case=small))
        else:
            # a delayed task reached as a dependency needs its trigger first: tasks[name] may have been replaced by
            # the created task meanwhile, so the `executed` of every initial placeholder comes from the case itself
            ph_exec = {p: c['executed'] for c in case['creators'] for p in (c['creates'] or [c['fname']])}
            clo, todo = set(), list(tc.selected_tasks)
            while todo:
                x = todo.pop()
                if x in clo or x not in tc.tasks:
                    continue
                clo.add(x)
                t = tc.tasks[x]
                if ph_exec.get(x):
                    todo.append(ph_exec[x])
                todo += list(t.task_dep) + list(t.setup_tasks) + list(t.calc_dep)
                if t.loader and t.loader.task_dep:
                    todo.append(t.loader.task_dep)
            touched = set(inv.get(e[1], '?') for e in ev if e[0] in (1, 5, 51))
            extra = sorted(touched - clo)
            if extra:
                viol.append(dict(what='target %s: tasks %s were processed although neither the producer %s nor the loaders need them' % (w, extra, prod),
                                 shape='regex-target-extra-tasks', case=small))
            if not any(e[0] in FINAL and e[1] == nid(prod) for e in ev):
                viol.append(dict(what='target %s: its producer %s was never processed (exit status 0)' % (w, prod),
                                 shape='regex-target-producer-not-run', case=small))
    # O5b several words: every word that is resolved through target_regex / --auto-delayed-regex and that some task
    #     produces in the end has its producer processed (exit status 0: nothing was cut short)
    if len(sel) > 1 and rc == 0:
        tc = res['tc']
        for w in dict.fromkeys(sel):
            if w in init_tasks or w in init_targets or w.split(':', 1)[0] in init_tasks:
                continue
            prod = tc.targets.get(w)
            if prod is not None and not any(e[0] in FINAL and e[1] == nid(prod) for e in ev):
                viol.append(dict(what='target %s (one of the words %s): its producer %s was never processed (exit status 0)' % (w, sel, prod),
                                 shape='regex-target-producer-not-run', case=small))
    # R1/R2 (repaired defect 01f48fb, shape subtask-placeholder-regex): a placeholder made for a `basename:sub` word shares the
    #    loader of the task `basename`; taken for a task-creator by the target_regex / --auto-delayed-regex loop it overwrote
    #    loader.basename: the creator was evaluated with a `basename:sub` name (tasks basename:sub:x) and, the placeholder being a
    #    member of the RegexGroup, `regex_group.tasks.remove` raised KeyError.  Judged on every run of every kind
    by_name = [w for w in dict.fromkeys(sel) if ':' in w and w not in init_tasks and w not in init_targets and res['has_loader'].get(w.split(':', 1)[0])]
    rx_words = [w for w in dict.fromkeys(sel) if w not in init_tasks and w not in init_targets and w.split(':', 1)[0] not in init_tasks]
    cmd = 'doit run %s%s' % ('--auto-delayed-regex ' if case['auto'] else '', ' '.join(sel))
    if any(e[0] == 16 for e in ev):
        viol.append(dict(what='`%s`: KeyError escaped run_all (%s) instead of a result / the invalid-parameter error' % (cmd, res.get('crash')),
                         shape='subtask-placeholder-regex' if (by_name and rx_words) else 'keyerror-escaped', case=small))
    for e in ev:
        if e[0] == 14 and ':' in inv.get(e[3], ''):
            viol.append(dict(what='`%s`: creator evaluated through generate_tasks(%r, ...): a sub-task name used as the basename of the created tasks' % (
                cmd, inv.get(e[3])), shape='subtask-placeholder-regex' if (by_name and rx_words) else 'creator-evaluated-for-subtask-name', case=small))
    # RC who may be asked for a regex-resolved command-line word (judged on the creators' declarations; no model)
    viol += candidates_oracle(case, res, small, cmd, rx_words)
    # O7 the created tasks behave like the identically defined static tasks (kinds calc, subrx, rxcand)
    if case.get('twin'):
        viol += twin_oracle(case, res, out, small)
    out.violations += viol
    return viol


def candidates_oracle(case, res, small, cmd, rx_words):
    """RC (every kind, every runner; shapes `regex-target-wrong-candidate` / `regex-target-candidate-missing`).  For a command-line
    word w that is no task, no known target and no sub-task of a task (so it is resolved through target_regex / --auto-delayed-regex)
    the delayed creators asked for it -- one `_regex_target_<w>:<name>` task per placeholder name, whose `executed=` trigger is run
    and whose creator is evaluated until somebody produces w -- are exactly those whose DECLARED target_regex matches w, plus,
    only under --auto-delayed-regex, those that declare no target_regex (declared_candidate; the option does not override a
    declared regex).  RC1 wrong candidate: a `_regex_target_<w>:<k>` task exists for a creator that is no candidate by its
    declaration; RC2 missing candidate (selection accepted): a declared candidate got none; RC3 (kind rxcand, behaviour only: no
    task names looked at): when the OTHER creator is no candidate for any word, neither its creator body nor its own trigger, the
    trigger's dependency or any task it would create shows up in the run"""
    viol = []
    nid = res['nid']; ev = res['events']; tc = res['tc']
    inv = {v: k for k, v in nid.m.items()}
    ph_creator = {p: c for c in case['creators'] for p in (c['creates'] or [c['fname']])}
    rejected = any(e[0] == 40 for e in ev)

    def ran_for(c):
        did = []
        if c['executed'] and any(e[0] == 51 and inv.get(e[1]) == c['executed'] for e in ev):
            did.append('its trigger %s was executed' % c['executed'])
        elif c['executed'] and any(e[0] in (1, 2, 3, 4) and inv.get(e[1]) == c['executed'] for e in ev):
            did.append('its trigger %s was processed' % c['executed'])
        if any(e[0] == 50 and e[1] == c['cid'] for e in ev):
            did.append('the creator was evaluated')
        return ', '.join(did) or 'nothing run yet (the producer was found first / the run stopped before)'
    for w in rx_words:
        for k, c in ph_creator.items():
            if not res['has_loader'].get(k):
                continue
            nm = '_regex_target_%s:%s' % (w, k)
            allowed = declared_candidate(c, w, case['auto'])
            if nm in tc.tasks and not allowed:
                why = ('declares target_regex %r, which does not match %r (--auto-delayed-regex gives the implicit `.*` only to creators '
                       'WITHOUT a target_regex)' % (c['regex'], w)) if c['regex'] else 'declares no target_regex and --auto-delayed-regex is off'
                viol.append(dict(what='`%s`: delayed creator %s (executed=%s%s) %s, yet it was made a candidate producer of %s (task %s selected); '
                                      'observed in this run: %s' % (cmd, c['fname'], c['executed'], ', creates=%s' % c['creates'] if c['creates'] else '', why, w, nm, ran_for(c)),
                                 shape='regex-target-wrong-candidate', case=small))
            elif allowed and nm not in tc.tasks and not rejected:
                viol.append(dict(what='`%s`: delayed creator %s (target_regex=%r) is a candidate producer of %s by its declaration but no task %s was selected' % (
                    cmd, c['fname'], c['regex'], w, nm), shape='regex-target-candidate-missing', case=small))
    rx = case.get('rx')
    if rx and rx_words:
        O = case['creators'][rx['other']]
        if not any(declared_candidate(O, w, case['auto']) for w in rx_words):
            seen = sorted(set(inv.get(e[1]) for e in ev if e[0] in (1, 2, 3, 4, 5, 6, 51) and inv.get(e[1]) in rx['own']))
            evald = any(e[0] in (14, 50) and e[1] == O['cid'] for e in ev)
            if seen or evald:
                viol.append(dict(what='`%s` (%s): creator %s (executed=%s, target_regex=%r) cannot produce %s by its own declaration and nothing else needs it, '
                                      'yet %s%s' % (cmd, rx['variant'], O['fname'], O['executed'], O['regex'], rx_words,
                                                    'the creator was evaluated; ' if evald else '', 'these tasks only it needs were processed: %s' % seen if seen else ''),
                                 shape='regex-target-wrong-candidate', case=small))
    return viol


# ------------------------------------------------------------------------------------------ static twin
def item_name(c, it):
    base = it['basename'] or c['fname']
    return base if it['sub'] is None else '%s:%s' % (base, it['sub'])


def run_twin(case, initial):
    """the identically defined STATIC task set: the same creator bodies without create_after (so every task exists when
    TaskControl is built), every task of a creator with `executed=e` having e as an additional task_dep (what
    Task.__init__ does for the placeholder); same selection (None = the names the delayed namespace starts with, in that
    order), same flags, serial Runner, same fake dependency manager.  Returns events + the task objects after the run"""
    import doit.control as C
    import doit.runner as R
    from doit.loader import load_tasks
    from doit.exceptions import InvalidTask, InvalidDodoFile, InvalidCommand
    nid = Ids(); log = []
    try:
        ns = build_ns(case, log, nid, static=True)
        task_list = load_tasks(ns, allow_delayed=True)
        by_name = {t.name: t for t in task_list}
        for c in case['creators']:
            if not c['executed']:
                continue
            mine = set(item_name(c, it) for it in c['items']) | set(item_name(c, it).split(':')[0] for it in c['items'])
            for nm in mine:
                t = by_name.get(nm)
                if t is not None and c['executed'] not in t.task_dep and c['executed'] != nm:
                    t.task_dep.append(c['executed'])
        tc = C.TaskControl(task_list)
    except (InvalidTask, InvalidDodoFile) as e:
        return dict(skip='twin-load-error: %s' % str(e)[:80])
    ph = {}
    for c in case['creators']:
        ph.update(c['ph_beh'])
    sel = case['sel'] if case['sel'] is not None else [k for k in initial if k in tc.tasks]
    saved = (sys.stdout, sys.stderr)
    rc = None
    try:
        try:
            tc.process(list(sel))
        except InvalidCommand as e:
            return dict(skip='twin-selection-error: %s' % str(e)[:80])
        runner = R.Runner(FakeDep(ph, log, nid, tc.tasks), Reporter(log, nid), continue_=case['cont'], always_execute=case['always'])
        try:
            rc = runner.run_all(tc.task_dispatcher())
        except BaseException as e:  # noqa
            return dict(skip='twin-run-error: %r' % e)
    finally:
        sys.stdout, sys.stderr = saved
    inv = {v: k for k, v in nid.m.items()}
    return dict(rc=rc, events=[[e[0]] + [inv.get(e[1], '?')] + list(e[2:]) for e in log if len(e) > 1], tasks=tc.tasks)


def reports_by_name(events):
    """name -> sorted list of (code[, kind]) of the reporter events execute/skip/failure/success"""
    rep = {}
    for e in events:
        if e[0] in (2, 3, 4, 5, 6) and not str(e[1]).startswith('_regex_target'):
            rep.setdefault(e[1], []).append(tuple(x for i, x in enumerate(e) if i != 1))
    return {k: sorted(v) for k, v in rep.items()}


def all_calm(case):
    behs = [s['beh'] for s in case['statics']] + [it['beh'] for c in case['creators'] for it in c['items']] + \
           [bh for c in case['creators'] for bh in c['ph_beh'].values()]
    return all(bh['outcome'] == 'ok' and bh['check'] != 'err' and not bh['dbignore'] for bh in behs)


def twin_oracle(case, res, out, small):
    """differential oracle: delayed run vs the static twin (run_twin).  T1 a task is not selected (get_status) before every
    calc_dep it declares had its final report; T2 (both runs exit 0) the same tasks are reported, with the same reports
    -- the delayed run may additionally process the `executed` triggers of creators reached through target_regex
    placeholders and what those depend on; T3 (both exit 0) every task that exists in both has the same task_dep / calc_dep /
    file_dep in the end (values computed by its calc_dep tasks merged), and is selected only after all of them; T4 failure-
    free behaviours: same exit status"""
    viol = []
    nid = res['nid']; inv = {v: k for k, v in nid.m.items()}
    ev = [[e[0]] + [inv.get(e[1], '?')] + list(e[2:]) for e in res['events'] if len(e) > 1 and e[0] < 50]
    first_sel = {}
    finals = {}
    for i, e in enumerate(ev):
        if e[0] == 1:
            first_sel.setdefault(e[1], i)
        if e[0] in FINAL:
            finals.setdefault(e[1], i)
    declared = {}
    for s in case['statics']:
        declared[s['name']] = list(s.get('calc_dep', []))
    for c in case['creators']:
        for it in c['items']:
            declared[item_name(c, it)] = list(it.get('calc_dep', []))
    # T1
    for y, p in first_sel.items():
        for k in declared.get(y, []):
            if finals.get(k, 10 ** 9) > p:
                viol.append(dict(what='task %s (calc_dep=%s) was selected by the runner %s; as a statically defined task it waits for it' % (
                                     y, declared[y], ('although its calc_dep task %s was never processed' if k not in finals else 'before its calc_dep task %s was processed') % k),
                                 shape='calc-dep-not-before-created-task', case=small))
    tw = run_twin(case, res['initial'])
    if 'skip' in tw:
        out.count('twin:' + tw['skip'][:40])
        # T5 a word that is no task, sub-task or target of the static twin: the delayed run does not end with exit status 0
        #    (exit status 1/2: a failure cut the run short before the word was resolved)
        if tw['skip'].startswith('twin-selection-error') and res['rc'] == 0:
            viol.append(dict(what='`doit run %s`: exit status %s, but with the same tasks defined statically the selection is rejected (%s)' % (
                ' '.join(case['sel'] or []), res['rc'], tw['skip']), shape='unknown-target-accepted', case=small))
        return viol
    out.count('twin:compared rc=%s/%s' % (res['rc'], tw['rc']))
    # a word of the selection that is the target of a CREATED task whose creator is no candidate for it by its own declaration
    # (no target_regex / not matching, no --auto-delayed-regex): the static twin knows the target, the delayed run may only ask
    # the candidates and then rightly reports "nobody produces it" (C15: a target nobody produces is reported as an error) --
    # the two legitimately differ (false alarm of this oracle at thorough seed 2: f_d0_0 produced by a creator without regex,
    # matched by ANOTHER creator's regex)
    init_names = set(res['initial'])
    for w in (case['sel'] or []):
        if w in init_names or w.split(':', 1)[0] in init_names:
            continue
        producers = [c for c in case['creators'] for it in c['items'] if w in it.get('targets', [])]
        if producers and not any(declared_candidate(c, w, case['auto']) for c in producers):
            out.count('twin:not compared (producer of a command-line target is no candidate by its declaration)')
            return viol
    if all_calm(case) and res['rc'] != tw['rc'] and not any(e[0] == 40 for e in res['events']):
        # ([40]: the selection itself was rejected -- a target of a created task is unknown without target_regex / --auto-delayed-regex)
        viol.append(dict(what='failure-free behaviours: exit status %s, the identically defined static task set gives %s' % (res['rc'], tw['rc']),
                         shape='created-tasks-differ-from-static-twin', case=small))
    if res['rc'] != 0 or tw['rc'] != 0:
        return viol
    if any(e[0] == 2 for e in ev) or any(e[0] == 2 for e in tw['events']):
        # "ignored" spreads along task_dep: the twin's extra task_dep on the trigger would spread it differently
        out.count('twin:not compared (ignored tasks)')
        return viol
    # T2
    mine, theirs = reports_by_name(ev), reports_by_name(tw['events'])
    sel = case['sel'] or []
    init_tasks = set(res['initial'])
    extra_ok = set()
    if any(w not in init_tasks and w.split(':', 1)[0] not in init_tasks for w in sel):
        todo = [c['executed'] for c in case['creators'] if c['executed']]
        while todo:
            x = todo.pop()
            if x in extra_ok or x not in tw['tasks']:
                continue
            extra_ok.add(x)
            t = tw['tasks'][x]
            todo += list(t.task_dep) + list(t.setup_tasks) + list(t.calc_dep)
    for nm in sorted(set(mine) | set(theirs)):
        if mine.get(nm) == theirs.get(nm) or (nm not in theirs and nm in extra_ok):
            continue
        viol.append(dict(what='task %s: reports %s, but %s when the same tasks are defined statically (event codes: 2 ignored, 3 up-to-date, '
                              '4 failure, 5 executed, 6 success)' % (nm, mine.get(nm, 'nothing'), theirs.get(nm, 'nothing')),
                         shape='created-tasks-differ-from-static-twin', case=small))
    # T3
    trig = set(c['executed'] for c in case['creators'] if c['executed'])
    real = res['tc'].tasks
    for nm, t in tw['tasks'].items():
        r = real.get(nm)
        if r is None or nm not in mine or nm not in theirs or r.loader:
            continue
        got = (set(r.task_dep) | trig, set(r.calc_dep), set(r.file_dep))
        want = (set(t.task_dep) | trig, set(t.calc_dep), set(t.file_dep))
        if got != want:
            viol.append(dict(what='task %s ends with task_dep=%s calc_dep=%s file_dep=%s, the statically defined one with task_dep=%s calc_dep=%s '
                                  'file_dep=%s (dependencies computed by calc_dep tasks not merged?)' % (
                                      nm, sorted(r.task_dep), sorted(r.calc_dep), sorted(r.file_dep), sorted(t.task_dep), sorted(t.calc_dep), sorted(t.file_dep)),
                             shape='created-task-deps-differ-from-static-twin', case=small))
        if nm in first_sel:
            for d in list(t.task_dep) + list(t.calc_dep):
                if finals.get(d, 10 ** 9) > first_sel[nm]:
                    viol.append(dict(what='task %s selected before %s was processed (a dependency of the statically defined task, declared or computed)' % (nm, d),
                                     shape='created-task-before-static-twin-dep', case=small))
    return viol


# ------------------------------------------------------------------------------------------ DoitMain end to end
def run_main(ctx, case, idx, shared=None, names=False):
    """the same namespace through DoitMain.run(['run', ...]) with the real dependency manager (shared: see run_impl; a new
    DoitMain / ModuleTaskLoader, DB file and output file per call, the namespace dict and its functions are the same)"""
    from doit.doit_cmd import DoitMain
    from doit.cmd_base import ModuleTaskLoader
    if shared is None:
        nid = Ids(); log = []
        ns = build_ns(case, log, nid)
    else:
        nid, log, ns = shared['nid'], shared['log'], shared['ns']
        del log[:]
    d = ctx.subdir('main%s' % idx)
    ns['DOIT_CONFIG'] = {'dep_file': os.path.join(d, 'db'), 'verbosity': 0, 'backend': 'json'}
    args = ['run', '-o', os.path.join(d, 'out.txt')] + (['--auto-delayed-regex'] if case['auto'] else []) + (['--continue'] if case['cont'] else []) + list(case['sel'] or [])
    saved = (sys.stdout, sys.stderr)
    sys.stdout, sys.stderr = io.StringIO(), io.StringIO()
    cwd = os.getcwd()
    try:
        os.chdir(d)
        try:
            rc = DoitMain(ModuleTaskLoader(ns)).run(args)
        except BaseException as e:  # noqa
            rc = 98
        err = sys.stderr.getvalue()
    finally:
        os.chdir(cwd)
        sys.stdout, sys.stderr = saved
    if names:      # events by name: the ids of two namespaces differ
        inv = {v: k for k, v in nid.m.items()}
        return rc, [(e[0], inv.get(e[1], '?') if e[0] == 51 else e[1]) for e in log], err
    return rc, log, err


def strip_files(case):
    """variant without file_dep (the real dependency manager would fail on missing files)"""
    import copy
    c = copy.deepcopy(case)
    for s in c['statics']:
        s['file_dep'] = []; s['beh'] = dict(DEFAULT_BEH)
    for cr in c['creators']:
        for it in cr['items']:
            it['file_dep'] = []; it['beh'] = dict(DEFAULT_BEH)
    for x in c['statics'] + [it for cr in c['creators'] for it in cr['items']]:
        if x.get('values'):
            x['values'] = dict(x['values'], file_dep=[])
            if not (x['values']['task_dep'] or x['values']['calc_dep']):
                x['values'] = None
    c['twin'] = False
    return c


# ------------------------------------------------------------------------------------------ end-to-end family
E2E_DODO = """
import os
from doit import create_after
HERE = os.path.dirname(os.path.abspath(__file__))
LOG = os.path.join(HERE, 'log.txt')
DOIT_CONFIG = {'dep_file': os.path.join(HERE, 'db'), 'verbosity': 0, 'backend': 'json'}
NAMES = %(names)r

def rec(what):
    return "echo %%s >> %%s" %% (what, LOG)

def task_pre():
    return {'actions': [rec('run:pre')]}

%(top)s

@create_after(%(deco)s)
def task_gen():
    with open(LOG, 'a') as fobj:
        fobj.write('EVAL\\n')
    for name in NAMES:
        task = {'basename': name, 'actions': [rec('run:' + name)]}
        if %(targets)r:
            out = os.path.join(HERE, name + '.out')
            task['actions'] = ["echo x > %%s && %%s" %% (out, rec('run:' + name))]
            task['targets'] = [out]
        yield task
"""
E2E_TOP = """
def task_top():
    return {'actions': [rec('run:top')], 'task_dep': NAMES}
"""


def e2e_family(ctx, out):
    """fixed family through the command line in a child interpreter: `doit run [-n 2 -P thread|process]` on a dodo file
    with ONE creator of 2-3 names (executed=pre and/or a shared parent, with/without targets): the creator body must
    run exactly once, after pre; every created task exactly once; exit status 0"""
    import subprocess
    shapes = []
    for names in (['a', 'b'], ['a', 'b', 'c']):
        for trig, top in ((True, False), (False, True), (True, True)):
            for targets in (False, True):
                shapes.append((names, trig, top, targets))
    runners = [[], ['-n', '2', '-P', 'thread'], ['-n', '2', '-P', 'process']]
    combos = [(sh, r) for sh in shapes for r in runners]
    if ctx.quick:   # every shape once, the runner rotating; plus the (2 names, trigger) shapes on every runner
        combos = [(sh, runners[i % 3]) for i, sh in enumerate(shapes)] + [(shapes[0], r) for r in runners[1:]] + [(shapes[1], runners[2])]
    n = 0
    for j, ((names, trig, top, targets), rargs) in enumerate(combos):
        d = ctx.subdir('e2e%d' % j)
        deco = ', '.join((["executed='pre'"] if trig else []) + ['creates=NAMES'])
        with open(os.path.join(d, 'dodo.py'), 'w') as f:
            f.write(E2E_DODO % dict(names=names, top=E2E_TOP if top else '', deco=deco, targets=targets))
        argv = ['run'] + rargs + (['top'] if (top and not trig) else [])
        try:
            p = subprocess.run([common.PY, '-m', 'doit', '-f', os.path.join(d, 'dodo.py')] + argv, cwd=d, env=common.impl_env(),
                               stdout=subprocess.PIPE, stderr=subprocess.PIPE, text=True, timeout=120)
            rc, err = p.returncode, p.stderr
        except subprocess.TimeoutExpired:
            rc, err = 124, 'timeout'
        lines = open(os.path.join(d, 'log.txt')).read().split() if os.path.exists(os.path.join(d, 'log.txt')) else []
        n += 1
        case = dict(e2e=True, names=names, executed='pre' if trig else None, shared_parent=top, targets=targets, argv=argv)
        out.count('e2e:%s' % (' '.join(rargs[2:]) or 'serial'))
        out.nontrivial.add(('e2e', tuple(names), trig, top, targets, tuple(rargs)))
        k = lines.count('EVAL')
        if k != 1:
            out.violations.append(dict(what='`doit %s`: creator with creates=%s evaluated %d times (log %s; stderr %s)' % (
                ' '.join(argv), names, k, lines, err.strip().splitlines()[-1:]), shape='creator-evaluated-twice' if k > 1 else 'creator-not-evaluated', case=case))
        if rc != 0:
            out.violations.append(dict(what='`doit %s`: exit status %s (stderr %s)' % (' '.join(argv), rc, err.strip().splitlines()[-1:]),
                                       shape='e2e-exit-status', case=case))
        if 'EVAL' in lines and 'run:pre' in lines and trig and lines.index('EVAL') < lines.index('run:pre'):
            out.violations.append(dict(what='`doit %s`: creator evaluated before pre' % ' '.join(argv), shape='creator-before-trigger', case=case))
        for nm in names:
            if lines.count('run:' + nm) != 1:
                out.violations.append(dict(what='`doit %s`: created task %s executed %d times' % (' '.join(argv), nm, lines.count('run:' + nm)),
                                           shape='created-task-not-executed-once', case=case))
    return n


# ------------------------------------------------------------------------------------------ end-to-end family: calc_dep
E2E_CALC_DODO = """
import os
from doit import create_after
HERE = os.path.dirname(os.path.abspath(__file__))
LOG = os.path.join(HERE, 'log.txt')
DOIT_CONFIG = {'verbosity': 0, 'backend': 'json'}

def rec(msg):
    with open(LOG, 'a') as fobj:
        fobj.write(msg + '\\n')

def find_deps():
    rec('run:find_deps')
    return {'file_dep': [os.path.join(HERE, 'extra.txt')], 'task_dep': ['helper']}

def build(dependencies):
    rec('run:T:deps=' + ','.join(sorted(os.path.basename(d) for d in dependencies)))

def task_pre():
    return {'actions': [(rec, ['run:pre'])]}

def task_helper():
    return {'actions': [(rec, ['run:helper'])]}

def task_find_deps():
    return {'actions': [find_deps]}

def mk(**more):
    return dict({'actions': [build], 'file_dep': [os.path.join(HERE, 'base.txt')], 'calc_dep': ['find_deps']}, **more)

# statically defined
def task_sbuild():
    return mk()

def task_sgrp():
    for n in 'ab':
        yield mk(name=n)

def task_smaker():
    yield mk(basename='smade')

# the same definitions behind create_after
@create_after(executed='pre')
def task_build():
    rec('EVAL')
    return mk()

@create_after(executed='pre')
def task_grp():
    rec('EVAL')
    for n in 'ab':
        yield mk(name=n)

@create_after(executed='pre', creates=['made'])
def task_maker():
    rec('EVAL')
    yield mk(basename='made')
"""
E2E_CALC_PAIRS = [('build', 'sbuild', 'creator returns one dict: task named like its creator'),
                  ('grp:a', 'sgrp:a', 'sub-task selected by name'),
                  ('made', 'smade', 'plain task named like the entry of creates')]
E2E_RUNNERS = [[], ['-n', '2', '-P', 'thread'], ['-n', '2', '-P', 'process']]


def e2e_calc_one(ctx, pair, rargs, tag):
    """`doit run <delayed task>` vs `doit run <the statically defined twin>` (own DB file each), three invocations: first run,
    nothing changed, the file named by the calc_dep task modified.  Returns (violations, logs)"""
    import subprocess
    delayed, static, what = pair
    d = ctx.subdir('e2ecalc_%s' % tag)
    with open(os.path.join(d, 'dodo.py'), 'w') as f:
        f.write(E2E_CALC_DODO)
    logs = {}
    viol = []
    case = dict(e2e=True, e2e_calc=True, pair=list(pair), runner=rargs)
    for task in (static, delayed):
        for fn in ('base.txt', 'extra.txt'):
            with open(os.path.join(d, fn), 'w') as f:
                f.write('v1 of ' + fn)
        steps = []
        for step in ('first run', 'nothing changed', 'computed file_dep modified'):
            if step == 'computed file_dep modified':
                with open(os.path.join(d, 'extra.txt'), 'w') as f:
                    f.write('version two of extra.txt, longer')
            if os.path.exists(os.path.join(d, 'log.txt')):
                os.remove(os.path.join(d, 'log.txt'))
            argv = ['run', '--db-file', os.path.join(d, 'db_' + task.replace(':', '_'))] + rargs + [task]
            try:
                p = subprocess.run([common.PY, '-m', 'doit', '-f', os.path.join(d, 'dodo.py')] + argv, cwd=d, env=common.impl_env(),
                                   stdout=subprocess.PIPE, stderr=subprocess.PIPE, text=True, timeout=120)
                rc, err = p.returncode, p.stderr
            except subprocess.TimeoutExpired:
                rc, err = 124, 'timeout'
            lines = open(os.path.join(d, 'log.txt')).read().split() if os.path.exists(os.path.join(d, 'log.txt')) else []
            steps.append((step, rc, lines, err))
            cmd = '`doit %s`' % ' '.join(['run'] + rargs + [task])
            if rc != 0:
                viol.append(dict(what='%s (%s): exit status %s (stderr %s)' % (cmd, step, rc, err.strip().splitlines()[-1:]),
                                 shape='e2e-exit-status', case=case))
            if task == delayed:
                if lines.count('EVAL') != 1:
                    viol.append(dict(what='%s (%s): creator evaluated %d times (log %s)' % (cmd, step, lines.count('EVAL'), lines),
                                     shape='creator-evaluated-twice' if lines.count('EVAL') > 1 else 'creator-not-evaluated', case=case))
                elif 'run:pre' in lines and lines.index('EVAL') < lines.index('run:pre'):
                    viol.append(dict(what='%s (%s): creator evaluated before pre' % (cmd, step), shape='creator-before-trigger', case=case))
            t_pos = [i for i, l in enumerate(lines) if l.startswith('run:T')]
            for need in ('run:find_deps', 'run:helper'):
                if t_pos and (need not in lines or lines.index(need) > t_pos[0]):
                    viol.append(dict(what='%s (%s, %s): the task ran %s (log %s)' % (
                        cmd, what, step, ('although %s never ran' if need not in lines else 'before %s') % need[4:], lines),
                        shape='calc-dep-not-before-created-task', case=case))
        logs[task] = steps
    norm = {t: [(st, rc, sorted(l for l in lines if l not in ('run:pre', 'EVAL'))) for st, rc, lines, _ in logs[t]] for t in logs}
    for (st, rc_s, ls), (_, rc_d, ld) in zip(norm[static], norm[delayed]):
        if (rc_s, ls) != (rc_d, ld):
            viol.append(dict(what='`doit run %s %s` (%s; %s): exit status %s, executed %s -- the statically defined twin %s: exit status %s, executed %s' % (
                ' '.join(rargs), delayed, what, st, rc_d, ld, static, rc_s, ls), shape='created-tasks-differ-from-static-twin', case=case))
    want = [['run:T:deps=base.txt,extra.txt', 'run:find_deps', 'run:helper'], ['run:find_deps', 'run:helper'],
            ['run:T:deps=base.txt,extra.txt', 'run:find_deps', 'run:helper']]
    for (st, rc_s, ls), w in zip(norm[static], want):
        if ls != w:     # the static baseline itself is not what the documentation of calc_dep says
            viol.append(dict(what='`doit run %s %s` (statically defined, %s): executed %s, expected %s' % (' '.join(rargs), static, st, ls, w),
                             shape='e2e-static-calc-dep-baseline', case=case))
    return viol, norm


def e2e_calc_family(ctx, out):
    combos = [(pr, r) for pr in E2E_CALC_PAIRS for r in E2E_RUNNERS]
    if ctx.quick:    # every pair once, the runner rotating
        combos = [(pr, E2E_RUNNERS[i % 3]) for i, pr in enumerate(E2E_CALC_PAIRS)]
    n = 0
    for j, (pr, rargs) in enumerate(combos):
        viol, _ = e2e_calc_one(ctx, pr, rargs, str(j))
        out.violations += viol
        out.count('e2e-calc:%s' % (' '.join(rargs[2:]) or 'serial'))
        out.nontrivial.add(('e2e-calc', pr[0], tuple(rargs)))
        n += 6
    return n



# ------------------------------------------------------------------------------------------ end-to-end: sub-task by name + regex target
E2E_SUBRX_DODO = """
import os
from doit import create_after
HERE = os.path.dirname(os.path.abspath(__file__))
LOG = os.path.join(HERE, 'log.txt')
DOIT_CONFIG = {'dep_file': os.path.join(HERE, 'db'), 'verbosity': 0, 'backend': 'json'}

def rec(task):
    with open(LOG, 'a') as fobj:
        fobj.write('run:' + task.name + '\\n')
    for t in task.targets:
        with open(t, 'w') as fobj:
            fobj.write('x')

@create_after()
def task_c():
    yield {'name': '1', 'actions': [rec], 'targets': [os.path.join(HERE, 'one.txt')]}
    yield {'name': '2', 'actions': [rec], 'targets': [os.path.join(HERE, 'two.txt')]}
"""
# (words, expected exit status, tasks that must have run, exactly)
E2E_SUBRX_CMDS = [(['c:1', 'nothing.txt'], 3, ['c:1']), (['c:1', 'two.txt'], 0, ['c:1', 'c:2']),
                  (['two.txt', 'c:1'], 0, ['c:1', 'c:2']), (['c:2', 'c:1', 'one.txt'], 0, ['c:1', 'c:2'])]


def e2e_subrx_one(ctx, words, want_rc, want_run, rargs, tag):
    """`doit run --auto-delayed-regex <sub-task by name> <target>` (the two commands of the repaired defect 01f48fb and two variations)"""
    import subprocess
    d = ctx.subdir('e2esubrx_%s' % tag)
    for fn in ('log.txt', 'db', 'one.txt', 'two.txt'):
        if os.path.exists(os.path.join(d, fn)):
            os.remove(os.path.join(d, fn))
    with open(os.path.join(d, 'dodo.py'), 'w') as f:
        f.write(E2E_SUBRX_DODO)
    argv = ['run', '--auto-delayed-regex'] + rargs + [os.path.join(d, w) if w.endswith('.txt') else w for w in words]
    try:
        p = subprocess.run([common.PY, '-m', 'doit', '-f', os.path.join(d, 'dodo.py')] + argv, cwd=d, env=common.impl_env(),
                           stdout=subprocess.PIPE, stderr=subprocess.PIPE, text=True, timeout=120)
        rc, err = p.returncode, p.stderr
    except subprocess.TimeoutExpired:
        rc, err = 124, 'timeout'
    lines = sorted(l[4:] for l in (open(os.path.join(d, 'log.txt')).read().split() if os.path.exists(os.path.join(d, 'log.txt')) else []))
    cmd = '`doit run --auto-delayed-regex %s`' % ' '.join(rargs + words)
    case = dict(e2e=True, e2e_subrx=True, words=words, want_rc=want_rc, want_run=want_run, runner=rargs)
    viol = []
    if 'Traceback' in err or 'KeyError' in err:
        viol.append(dict(what='%s: traceback (%s)' % (cmd, err.strip().splitlines()[-1:]), shape='subtask-placeholder-regex', case=case))
    if rc != want_rc:
        viol.append(dict(what='%s: exit status %s, expected %s%s' % (cmd, rc, want_rc, ' (invalid parameter error)' if want_rc == 3 else ''),
                         shape='subtask-placeholder-regex', case=case))
    # (thread runner: a python-action running in a worker replaces sys.stderr of the whole process meanwhile, the message of
    #  the main thread can end up in that task's captured output: only judged when something was printed)
    if want_rc == 3 and 'nothing.txt' not in err and (err.strip() or 'thread' not in rargs):
        viol.append(dict(what='%s: the unknown target is not named in the error output (%s)' % (cmd, err.strip().splitlines()[-2:]),
                         shape='subtask-placeholder-regex', case=case))
    # with an unknown target the run may stop before the selected sub-task was executed (process runner)
    if (lines != sorted(want_run)) if want_rc == 0 else (not set(lines) <= set(want_run) or len(set(lines)) != len(lines)):
        viol.append(dict(what='%s: tasks executed %s, expected %s %s' % (cmd, lines, 'exactly' if want_rc == 0 else 'nothing but', sorted(want_run)),
                         shape='subtask-placeholder-regex', case=case))
    return viol, (rc, lines, err)


def e2e_subrx_family(ctx, out):
    n = 0
    for i, (words, want_rc, want_run) in enumerate(E2E_SUBRX_CMDS):
        for j, rargs in enumerate(E2E_RUNNERS):
            if ctx.quick and i >= 2 and j != i % 3:
                continue
            viol, _ = e2e_subrx_one(ctx, words, want_rc, want_run, rargs, '%d_%d' % (i, j))
            out.violations += viol
            out.count('e2e-subrx:%s' % (' '.join(rargs[2:]) or 'serial'))
            out.nontrivial.add(('e2e-subrx', tuple(words), tuple(rargs)))
            n += 1
    return n


# ------------------------------------------------------------------------------------------ end-to-end: who is asked for a target
E2E_RXCAND_DODO = """
import os
from doit import create_after
HERE = os.path.dirname(os.path.abspath(__file__))
LOG = os.path.join(HERE, 'log.txt')
DOIT_CONFIG = {'dep_file': os.path.join(HERE, 'db'), 'verbosity': 0, 'backend': 'json'}

def rec(msg):
    with open(LOG, 'a') as fobj:
        fobj.write(msg + '\\n')

def make(task):
    rec('run:' + task.name)
    for t in task.targets:
        if os.path.dirname(t) and not os.path.isdir(os.path.dirname(t)):
            os.makedirs(os.path.dirname(t))
        with open(t, 'w') as fobj:
            fobj.write('x')

def task_prep_a():
    return {'actions': [(rec, ['run:prep_a'])]}

def task_prep_b():
    return {'actions': [(rec, ['run:prep_b'])]}

# explicit regex: everything this creator produces is under gen_a/
@create_after(executed='prep_a', target_regex=r'gen_a/.*')
def task_a():
    rec('EVAL:a')
    yield {'name': 'x', 'actions': [make], 'targets': ['gen_a/x.txt']}

# no regex: reachable by target only with --auto-delayed-regex
@create_after(executed='prep_b')
def task_b():
    rec('EVAL:b')
    yield {'name': 'y', 'actions': [make], 'targets': ['out_b.txt']}
"""
A_RAN = ['run:prep_a', 'EVAL:a', 'run:a:x']
B_RAN = ['run:prep_b', 'EVAL:b', 'run:b:y']
# (--auto-delayed-regex, word, expected exit status, lines that must be logged, lines that may additionally be logged under the
#  serial runner / under a parallel runner, what the command shows)
E2E_RXCAND_CMDS = [
    (True, 'out_b.txt', 0, B_RAN, [], [], 'creator a declares a target_regex that does not match: the option does not make it a candidate'),
    (False, 'gen_a/x.txt', 0, A_RAN, [], [], 'explicit regex matches, option off: creator b (no regex) is no candidate'),
    # b (no regex, option on) is a legitimate second candidate: with two workers its trigger is dispatched while prep_a runs
    (True, 'gen_a/x.txt', 0, A_RAN, [], ['run:prep_b', 'EVAL:b'], 'explicit regex matches, option on: a (defined first) produces it'),
    (False, 'out_b.txt', 3, [], [], [], 'no regex and option off: nobody is a candidate, invalid-parameter error, nothing runs'),
    # (a parallel run may be stopped by the error before / while prep_b runs: `may`, not `must`)
    (True, 'nothing.txt', 3, [], ['run:prep_b', 'EVAL:b'], ['run:prep_b', 'EVAL:b'], 'nobody produces it: only b may be asked'),
]


def e2e_rxcand_one(ctx, cmd_index, rargs, tag):
    """`doit run [--auto-delayed-regex] <target>` on a dodo file with creator a (executed=prep_a, target_regex='gen_a/.*') and
    creator b (executed=prep_b, no regex): exit status and EXACTLY which triggers ran / creators were evaluated / tasks ran"""
    import subprocess
    auto, word, want_rc, must, may_ser, may_par, shows = E2E_RXCAND_CMDS[cmd_index]
    d = ctx.subdir('e2erxcand_%s' % tag)
    import shutil
    for fn in os.listdir(d):
        fp = os.path.join(d, fn)
        shutil.rmtree(fp) if os.path.isdir(fp) else os.remove(fp)
    with open(os.path.join(d, 'dodo.py'), 'w') as f:
        f.write(E2E_RXCAND_DODO)
    argv = ['run'] + (['--auto-delayed-regex'] if auto else []) + rargs + [word]
    try:
        p = subprocess.run([common.PY, '-m', 'doit', '-f', os.path.join(d, 'dodo.py')] + argv, cwd=d, env=common.impl_env(),
                           stdout=subprocess.PIPE, stderr=subprocess.PIPE, text=True, timeout=120)
        rc, err = p.returncode, p.stderr
    except subprocess.TimeoutExpired:
        rc, err = 124, 'timeout'
    lines = open(os.path.join(d, 'log.txt')).read().split() if os.path.exists(os.path.join(d, 'log.txt')) else []
    cmd = '`doit %s`' % ' '.join(argv)
    case = dict(e2e=True, e2e_rxcand=True, cmd_index=cmd_index, word=word, auto=auto, runner=rargs)
    viol = []
    may = may_par if rargs else may_ser
    wrong = [l for l in lines if l not in must and l not in may]
    if wrong:
        a_side = [l for l in wrong if l in A_RAN]
        viol.append(dict(what='%s (%s): %s happened although %s; log %s, expected exactly %s%s' % (
            cmd, shows, wrong, ('creator a (target_regex gen_a/.*) cannot produce %s by its own declaration' % word) if a_side else
            'nothing asks for it', lines, must, (' (optionally %s)' % may) if may else ''), shape='regex-target-wrong-candidate', case=case))
    if rc != want_rc:
        viol.append(dict(what='%s (%s): exit status %s, expected %s (stderr %s)' % (cmd, shows, rc, want_rc, err.strip().splitlines()[-1:]),
                         shape='regex-target-e2e-exit-status', case=case))
    if rc == want_rc == 0 and ([l for l in lines if l in must] != must or len(set(lines)) != len(lines)):
        viol.append(dict(what='%s (%s): log %s, expected %s in this order, each once' % (cmd, shows, lines, must),
                         shape='regex-target-producer-not-run', case=case))
    return viol, (rc, lines, err)


def e2e_rxcand_family(ctx, out):
    n = 0
    for i in range(len(E2E_RXCAND_CMDS)):
        for j, rargs in enumerate(E2E_RUNNERS):
            if ctx.quick and i >= 1 and j != i % 3:
                continue
            viol, _ = e2e_rxcand_one(ctx, i, rargs, '%d_%d' % (i, j))
            out.violations += viol
            out.count('e2e-rxcand:%s' % (' '.join(rargs[2:]) or 'serial'))
            out.nontrivial.add(('e2e-rxcand', i, tuple(rargs)))
            n += 1
    return n


# ------------------------------------------------------------------------------------------ several runs in ONE process
RERUN_KINDS = ['subrx', 'calc', 'rxcand', 'regex', 'auto', None, 'multi', 'subrx', 'calc', 'k3', None, 'regex']


def rerun_words(case):
    """(placeholder names, sub-tasks of placeholder names that exist once the creator ran, (created target, creator) pairs)"""
    phs, subs, tgts = [], [], []
    for c in case['creators']:
        names = c['creates'] or [c['fname']]
        phs += names
        for it in c['items']:
            if (it['basename'] or not c['creates']) and it['sub'] is not None and item_name(c, it).split(':')[0] in names:
                subs.append(item_name(c, it))
            tgts += [(t, c) for t in it['targets']]
    return phs, subs, tgts


def gen_rerun(rng):
    """a case of one of the kinds above + 2-3 RUNS over it in one process: each run its own selection (everything / a placeholder
    name / a sub-task of a delayed task by name / a target of a created task, resolved by target_regex or --auto-delayed-regex /
    the case's own words / two random words) and its own runner (serial Runner; MThreadRunner under a drawn schedule)"""
    case = gen_case(rng, rng.choice(RERUN_KINDS))
    case.pop('rx', None)       # (oracle RC3 of kind rxcand speaks about the one selection gen_rxcand drew)
    phs, subs, tgts = rerun_words(case)
    # a created target can be asked for when its creator's DECLARATION allows it: its target_regex matches, or it declares none
    # (then with --auto-delayed-regex); kind rxcand has creators whose regex misses their own targets on purpose
    tgts = [(t, c) for t, c in tgts if not c['regex'] or re.match(c['regex'], t)]
    snames = [s['name'] for s in case['statics']]

    def one():
        r = rng.random()
        auto = case['auto']
        if r < 0.25:
            return None, auto, 'all'
        if r < 0.40:
            return [rng.choice(phs)], auto, 'placeholder'
        if r < 0.60 and subs:
            return [rng.choice(subs)], auto, 'sub-task by name'
        if r < 0.82 and tgts:
            t, c = rng.choice(tgts)
            return [t], (auto or not c['regex']), 'created target'
        if r < 0.9:
            return case['sel'], auto, 'own'
        pool = phs + subs + [t for t, _ in tgts] + snames + ['nope']
        return [rng.choice(pool) for _ in range(2)], auto or rng.random() < 0.5, 'two words'
    runs = []
    for i in range(rng.choice([2, 2, 3])):
        sel, auto, how = (case['sel'], case['auto'], 'own') if (i == 0 and rng.random() < 0.4) else one()
        fl = 'serial' if rng.random() < 0.7 else 'dthread'
        runs.append(dict(sel=sel, auto=auto, how=how, flavour=fl,
                         par=dict(k=rng.choice([2, 2, 3]), sched=[rng.randrange(0, 60) for _ in range(40)]) if fl == 'dthread' else None))
    return case, runs


def ev_names(res):
    """events with names instead of ids (two namespaces number their strings differently)"""
    inv = {v: k for k, v in res['nid'].m.items()}
    evs = []
    for e in res['events']:
        c = e[0]
        if c in (1, 2, 3, 5, 6, 7, 8, 9, 51, 60, 71, 72):
            evs.append((c, inv.get(e[1], '?')))
        elif c == 4:
            evs.append((c, inv.get(e[1], '?'), e[2]))
        elif c == 14:
            evs.append((c, e[1], inv.get(e[2], '?'), inv.get(e[3], '?')))
        elif c in (15, 70):
            evs.append((c, inv.get(e[1], '?') if e[1] else None))
        else:
            evs.append(tuple(e))
    return evs


def names_fixed(case):
    """the names of the created tasks do not depend on WHICH placeholder's loader evaluates the creator (an item without basename
    takes the name generate_tasks is called with: with several names in `creates` that is the placeholder reached first)"""
    return all(it['basename'] or not c['creates'] or len(c['creates']) == 1 for c in case['creators'] for it in c['items'])


def wake_names(res):
    inv = {v: k for k, v in res['nid'].m.items()}
    return {inv.get(p_, '?'): [inv.get(x, '?') for x in order] for p_, order in res['wake'].items()}


def cmd_of(r):
    return 'doit run %s%s%s' % ('--auto-delayed-regex ' if r['auto'] else '', '-n %d -P thread ' % r['par']['k'] if r.get('par') else '', ' '.join(r['sel'] or []))


def run_sequence(case, runs, out, cases=None, metas=None, sfx='r0', verbose=False):
    """runs[i] = dict(sel, auto, flavour, par): all of them IN THIS PROCESS over ONE namespace (make_shared: the creator function
    objects, hence the DelayedLoader objects create_after stored on them, are the same for every run; load_tasks, TaskControl,
    dispatcher, runner, reporter and dependency manager are new for every run).  EVERY run is judged on its own:
      - oracle(): all of O1-O7, R, RC, LF exactly as for a single run (creator evaluated at most once, after its trigger; a reported
        placeholder name was materialised first; created tasks executed as their behaviour demands; static twin);
      - RR (shape run-depends-on-earlier-run-in-process): the run is repeated on a freshly built, identically defined namespace (what a
        new process would load): same exit status and the same events, one by one (serial Runner and drawn schedules are deterministic);
      - the model: the run is rendered like any single run -- loaders fresh (l_created = false, l_basename = None) -- and compared
        with Delayed.run_cmd / run_script_cmd.
    Returns None (namespace does not load) or a list of dict(res, viol) per run"""
    from doit.exceptions import InvalidTask, InvalidDodoFile
    try:
        sh = make_shared(case)
    except (InvalidTask, InvalidDodoFile):
        return None
    results = []
    for i, r in enumerate(runs):
        ci = dict(case, sel=r['sel'], auto=r['auto'], rerun=dict(runs=runs, index=i))
        fl, par = r['flavour'], r.get('par')
        where = 'run %d of %d in one process over the same creator functions (%s)' % (i + 1, len(runs), '; then '.join('`%s`' % cmd_of(x) for x in runs[:i + 1]))
        try:
            res = run_impl(ci, fl, par, shared=sh)
        except BaseException as e:  # noqa
            v = dict(what='%s: the run failed in the harness: %r' % (where, e), shape='rerun-crash', case=dict(ci, flavour=fl, par=par))
            out.violations.append(v)
            results.append(dict(res=None, viol=[v]))
            continue
        if 'skip' in res:
            if i == 0:
                return None
            if not res['skip'].startswith('load-error'):     # (generate_tasks rejects a word of THIS selection as a basename: outside the model)
                out.count('rerun: run skipped (%s)' % res['skip'].split(':')[0])
                results.append(dict(res=None, viol=[]))
                continue
            v = dict(what='%s: %s, although the first run of the sequence loaded the same namespace' % (where, res['skip']),
                     shape='run-depends-on-earlier-run-in-process', case=dict(ci, flavour=fl, par=par))
            out.violations.append(v)
            results.append(dict(res=None, viol=[v]))
            continue
        prepare(res, ci)
        viol = oracle(ci, res, out, fl, par)
        mine = ev_names(res)
        evald = sorted(e[1] for e in res['events'] if e[0] == 50)
        # RR: the same command where it is the first thing the process does
        if fl in ('serial', 'dthread') and res['rc'] not in (97, 98):
            try:
                ref = run_impl(ci, fl, par)
            except BaseException as e:  # noqa
                ref = dict(skip='harness crash %r' % e)
            if 'skip' not in ref:
                theirs = ev_names(ref)
                # ExecNode.waiting_me is a set of objects hashed by address: the order in which the waiters of a processed node are
                # woken is the one input that two identical runs do not share (recorded: wake_names).  Same orders: the runs are equal
                # event by event.  Otherwise: both exit 0 or neither; both 0 (nothing cut short): the same events as a multiset
                same_wake = all(ref_w == wake_names(res).get(k_, ref_w) for k_, ref_w in wake_names(ref).items())
                if same_wake:
                    differ = (res['rc'], mine) != (ref['rc'], theirs)
                elif res['rc'] == 0 and ref['rc'] == 0:
                    # (which placeholder's loader evaluates the creator, how often the runner polls: order-dependent; dropped)
                    def bag(evs):
                        return sorted(str(e[:2] if e[0] == 14 else e) for e in evs if e[0] < 52 and (names_fixed(case) or e[0] in (14, 50)))
                    differ = bag(mine) != bag(theirs)
                else:
                    differ = (res['rc'] == 0) != (ref['rc'] == 0)
                out.count('rerun: compared with a fresh namespace (%s)' % ('same wake orders: event by event' if same_wake else 'other wake order: exit status / multiset'))
                if differ:
                    k = next((j for j, (a, b_) in enumerate(zip(mine, theirs)) if a != b_), min(len(mine), len(theirs)))
                    fnames = {c['cid']: c['fname'] for c in case['creators']}
                    only_here = [e for e in mine if e[0] < 52 and e not in theirs][:6]
                    only_there = [e for e in theirs if e[0] < 52 and e not in mine][:6]
                    v = dict(what='%s: exit status %s, creators evaluated %s -- the same command as the first run of a process: exit status %s, creators '
                                  'evaluated %s; first difference at event %d: %s here, %s there; events only here %s, only there %s (codes: 1 selected, 3 up-to-date, '
                                  '5 executed, 6 success, 14 creator evaluated, 40 selection rejected, 15 target not found)' % (
                                      where, res['rc'], [fnames.get(c, c) for c in evald], ref['rc'],
                                      [fnames.get(e[1], e[1]) for e in ref['events'] if e[0] == 50], k,
                                      mine[k] if k < len(mine) else 'end of run', theirs[k] if k < len(theirs) else 'end of run', only_here, only_there),
                             shape='run-depends-on-earlier-run-in-process', case=dict(ci, flavour=fl, par=par))
                    viol.append(v)
                    out.violations.append(v)
        if verbose:
            print('%s\n  exit status %s; creators evaluated %s\n  events %s' % (where, res['rc'], evald, mine))
            if res.get('loaders_on_function'):
                print('  placeholders whose loader IS the object stored on the creator function: %s' % res['loaders_on_function'])
        if res['rc'] in (97, 98):
            v = dict(what='%s: thread runner (deterministic scheduler) crashed: %s' % (where, res['crash']), shape='thread-runner-crash',
                     case=dict(ci, flavour=fl, par=par))
            viol.append(v)
            out.violations.append(v)
        elif cases is not None and (fl == 'serial' or SCRIPT_MODEL):
            s_ = '%sx%d' % (sfx, i)
            if fl == 'serial':
                defs, expr = render(ci, res['snap'], res['wake'], res['nid'], s_)
                tr = res['trace']
            else:
                defs, expr = render(ci, res['snap'], res['wake'], res['nid'], s_, script=ops_of(res))
                tr = res['strace']
            cases.append(dict(defs=defs, model=expr, expected=tr + [-1, res['rc']] + ([] if tr[:1] == [40] else [-2, 1]) + ([] if fl == 'serial' or tr[:1] == [40] else WF_OK),
                              desc=dict(sel=ci['sel'], auto=ci['auto'], kind=case['kind'], flavour=fl, par=par,
                                        run_in_process='%d of %d' % (i + 1, len(runs)), earlier=[cmd_of(x) for x in runs[:i]])))
            metas.append((ci, res))
        results.append(dict(res=res, viol=viol))
    return results


def run_main_sequence(ctx, case, runs, out, tag, verbose=False):
    """the same through DoitMain(ModuleTaskLoader(namespace)).run([...]) several times in this process: one namespace dict, a new
    DoitMain, DB file and output file per run (real dependency manager; every task without file_dep: always executed).
      MD (shape run-depends-on-earlier-run-in-process): exit status and the sequence of creator evaluations / executed actions equal
         those of the same command on a freshly built namespace; M1 no creator evaluated twice in a run; M3 `doit run` (everything)
         with exit status 0 evaluates every creator exactly once"""
    c2 = strip_files(case)
    sh = dict(nid=Ids(), log=[])
    sh['ns'] = build_ns(c2, sh['log'], sh['nid'])
    viol = []
    fnames = {c['cid']: c['fname'] for c in case['creators']}
    for i, r in enumerate(runs):
        ci = dict(c2, sel=r['sel'], auto=r['auto'], flavour='doitmain', rerun=dict(runs=runs, index=i, main=True))
        where = 'DoitMain run %d of %d in one process over the same namespace (%s)' % (i + 1, len(runs), '; then '.join('`%s`' % cmd_of(dict(x, par=None)) for x in runs[:i + 1]))
        rc, evs, err = run_main(ctx, ci, '%s_%d' % (tag, i), shared=sh, names=True)
        rc_f, evs_f, err_f = run_main(ctx, ci, '%s_%df' % (tag, i), names=True)
        out.count('rerun-doitmain-rc:%s' % rc)
        ev_c = [fnames.get(e[1], e[1]) for e in evs if e[0] == 50]
        if verbose:
            print('%s\n  exit status %s; events %s\n  first run of a process: exit status %s; events %s' % (where, rc, evs, rc_f, evs_f))
        # (no wake orders to look at here: both exit 0 or neither; both 0: the same evaluations and executions as a multiset)
        def bag(es):
            return sorted(str(e) for e in es if names_fixed(case) or e[0] == 50)
        if (rc == 0) != (rc_f == 0) or (rc == 0 and bag(evs) != bag(evs_f)):
            viol.append(dict(what='%s: exit status %s, creators evaluated %s, actions executed %s -- the same command as the first run of a process: exit status %s, '
                                  'creators evaluated %s, actions executed %s%s' % (
                                      where, rc, ev_c, [e[1] for e in evs if e[0] == 51], rc_f, [fnames.get(e[1], e[1]) for e in evs_f if e[0] == 50],
                                      [e[1] for e in evs_f if e[0] == 51], ('; stderr: ' + err.strip().splitlines()[-1][:160]) if err.strip() else ''),
                             shape='run-depends-on-earlier-run-in-process', case=ci))
        for c in case['creators']:
            k = ev_c.count(c['fname'])
            if k > 1:
                viol.append(dict(what='%s: creator %s evaluated %d times' % (where, c['fname'], k), shape='creator-evaluated-twice', case=ci))
            if k != 1 and r['sel'] is None and rc == 0:
                viol.append(dict(what='%s: everything selected, exit status 0, but creator %s was evaluated %d times: the tasks it defines are missing from the run' % (
                    where, c['fname'], k), shape='creator-not-evaluated', case=ci))
    out.violations += viol
    return viol


def replay_rerun(ctx, case):
    base = {k: v for k, v in case.items() if k not in ('rerun', 'flavour', 'par')}
    runs = case['rerun']['runs'][:case['rerun']['index'] + 1]
    out = Outcome()
    if case['rerun'].get('main'):
        viol = run_main_sequence(ctx, base, runs, out, 'replay', verbose=True)
    else:
        done = run_sequence(base, runs, out, verbose=True)
        if done is None:
            print('case skipped: the namespace does not load')
            return 0
        viol = [v for d in done for v in d['viol']]
    for v in viol:
        print('VIOLATION-REPRODUCED shape=%s: %s' % (v['shape'], v['what']))
    return 1 if viol else 0


# ------------------------------------------------------------------------------------------ driver
def prepare(res, case):
    res['targets0'] = set()
    for s in case['statics']:
        res['targets0'].update(s['targets'])
    res['has_loader'] = res['init_loader']


def calc_stats(case, res, out, flavour):
    """distribution only: which created calc_dep consumers were reached, and through what kind of node"""
    if case.get('kind') != 'calc':
        return
    nid = res['nid']
    selected = set(e[1] for e in res['events'] if e[0] == 1)
    taken = set(p for c in case['creators'] for p in (c['creates'] or [c['fname']])) | set(w for w in (case['sel'] or []) if ':' in w)
    for c in case['creators']:
        for it in c['items']:
            nm = item_name(c, it)
            if it.get('calc_dep') and nid(nm) in selected:
                how = 'takes over the node of its placeholder (reset_task)' if nm in taken else ('sub-task' if it['sub'] is not None else 'other name') + ' (new node)'
                out.count('calc/%s: created task with calc_dep reached, %s' % (flavour, how))
                if len(it['calc_dep']) > 1:
                    out.count('calc/%s: created task with two calc_dep' % flavour)
    for s in case['statics']:
        if s.get('calc_dep') and nid(s['name']) in selected:
            out.count('calc/%s: static task with calc_dep reached' % flavour)


def prenodes(res):
    """largest number of placeholder nodes of one creator that existed when that creator was evaluated"""
    return max([e[2] for e in res['events'] if e[0] == 52] or [0])


def ops_of(res):
    """the runner's calls of a deterministic parallel run as a Coq list of Delayed.sop (script of the run)"""
    ops = []
    evs = res['events']
    hold = any(e[0] == 12 for e in evs)
    for e in evs:
        if e[0] == 70:
            ops.append('OSend %s' % ('None' if e[1] == 0 else '(Some %d)' % e[1]))
        elif e[0] == 71:
            ops.append('OSelect %d' % e[1])
        elif e[0] == 5:
            ops.append('OExec %d' % e[1])
        elif e[0] == 72:
            ops.append('OResult %d' % e[1])
        elif e[0] == 73:
            if hold:
                ops.append('OHoldErr')
            ops.append('OFinish')
    return nl(ops)


def run_parallel(ctx, case, out, idx, par, cases, metas, tag):
    """one run under the deterministic scheduler: oracle + (model) the same script on Delayed.run_script"""
    try:
        res_p = run_impl(case, 'dthread', par)
    except BaseException as e:  # noqa
        out.violations.append(dict(what='deterministic thread run failed in the harness: %r' % e, shape='thread-runner-crash', case=dict(case, par=par)))
        return None
    if 'skip' in res_p:
        return None
    prepare(res_p, case)
    oracle(case, res_p, out, 'dthread', par)
    if res_p['rc'] in (97, 98):
        out.violations.append(dict(what='thread runner (deterministic scheduler, %d workers) crashed: %s' % (par['k'], res_p['crash']),
                                   shape='thread-runner-crash', case=dict(case, flavour='dthread', par=par)))
        return res_p
    if not SCRIPT_MODEL:
        return res_p
    sfx = '%sp%d' % (idx, tag)
    defs, expr = render(case, res_p['snap'], res_p['wake'], res_p['nid'], sfx, script=ops_of(res_p))
    expected = res_p['strace'] + [-1, res_p['rc']] + ([] if res_p['strace'][:1] == [40] else [-2, 1] + WF_OK)
    cases.append(dict(defs=defs, model=expr, expected=expected,
                      desc=dict(sel=case['sel'], auto=case['auto'], kind=case['kind'], flavour='dthread', par=par)))
    metas.append((case, res_p))
    return res_p


def run(ctx):
    out = Outcome()
    out.rule = ('random namespaces: 1-4 static tasks (task_dep/setup/file_dep/targets) + 1-3 create_after creators (executed = none/'
                'static/other placeholder, creates = none/1-3 names honest or not, target_regex = none/own prefix/shared prefix; body = '
                'generator of sub-tasks with default or explicit basename / plain basename tasks / single dict / empty) x selection '
                '(none, task, placeholder, basename:sub existing or not, created target, target nobody produces, unknown word; 1-3 words) x '
                '--auto-delayed-regex x --continue x --always; kind `multi`: one creator with 2-3 names in creates, all yielded (plain or '
                'groups, with/without targets), a static task with several of them as task_dep (shared parent) and/or an executed= trigger, '
                'optionally a second creator triggered by a created name; kind `calc`: created tasks with calc_dep / task_dep / setup (taking over the '
                'placeholder node: one dict, plain task named like the creator or an entry of creates, sub-task selected by name; sub-tasks; other '
                'names), providers static or created, returning task_dep / file_dep on static targets / calc_dep, compared with the static twin; kind `subrx`: sub-tasks selected by name + words resolved by target_regex / --auto-delayed-regex '
                '(existing targets, targets nobody produces), both orders, compared with the static twin; kind `rxcand` (own phase, %d cases): two creators, the producer of the '
                'command-line target and another one with its own executed= trigger that is / is not a candidate by its declared target_regex x --auto-delayed-regex, '
                'either defined first (oracle RC: the creators asked are exactly the declared candidates).  Runners: serial Runner (trace compared with Delayed.run_cmd); '
                'MThreadRunner with 2-3 workers under the deterministic scheduler of runlib (every call of the runner into the dispatcher '
                'recorded as a script and compared with Delayed.run_script_cmd; all multi cases, every 4th other case); MThreadRunner with '
                'real threads; `python -m doit run [-n 2 -P thread|process]` on four fixed dodo families (several names in creates; created tasks with calc_dep vs static twins; sub-task by name + regex-resolved target; who is asked for a target).  non-trivial = distinct case in which a '
                'creator was evaluated or the selection/run ended with an error.  Phase 3 (%d sequences): 2-3 runs in ONE process over the same creator function objects '
                '(load_tasks on the same namespace dict each time; selections: everything / placeholder / sub-task by name / regex-resolved created target / two words; '
                'serial Runner or a drawn schedule; every third sequence also through DoitMain twice or three times), every run judged by all oracles, compared with the model '
                '(fresh loaders per run) and with the same command on a freshly built namespace; non-trivial = sequence in which one creator was evaluated in >= 2 runs') % (
                    ctx.n(30, 330), ctx.n(45, 450))
    rng = ctx.rng
    n = ctx.n(330, 3630)
    kinds = [None] * 5 + ['k3', 'creates', 'regex', 'auto', 'unknown'] + ['multi'] * 4 + ['calc'] * 4 + ['subrx'] * 2
    cases, metas = [], []
    n_serial = 0
    n_thread = 0
    n_dthread = 0
    n_main = 0
    skipped = 0
    # phase 1: the random kinds (the generator stream of this phase does not depend on phase 2); phase 2: kind `rxcand`,
    # systematically: who may be asked for a command-line target (gen_rxcand), same runners
    n_rx = ctx.n(30, 330)
    for target, kinds_ in ((n, kinds), (n + n_rx, ['rxcand'])):
        i = 0
        while n_serial < target and i < 3 * target:
            kind = kinds_[i % len(kinds_)]
            i += 1
            case = gen_case(rng, kind)
            try:
                res = run_impl(case)
            except BaseException as e:  # noqa
                res = dict(skip='harness-crash %r' % e)
                out.mismatches.append(dict(case=str(case)[:2000], impl='harness crash %r' % e, model=None))
            if 'skip' in res:
                skipped += 1
                out.count('skipped:' + res['skip'].split(':')[0])
                continue
            prepare(res, case)
            idx = n_serial
            n_serial += 1
            defs, expr = render(case, res['snap'], res['wake'], res['nid'], str(idx))
            expected = res['trace'] + [-1, res['rc']] + ([] if res['trace'][:1] == [40] else [-2, 1])
            cases.append(dict(defs=defs, model=expr, expected=expected, desc=dict(sel=case['sel'], auto=case['auto'], kind=case['kind'])))
            metas.append((case, res))
            out.count('kind:' + case['kind'])
            if case.get('rx'):
                out.count('rxcand:%s' % case['rx']['variant'])
                out.count('rxcand: the other creator defined %s' % ('first' if case['rx']['other'] == 0 else 'second'))
            out.count('sel:' + ('all' if case['sel'] is None else str(len(case['sel'])) + 'w'))
            ncreate = sum(1 for e in res['events'] if e[0] == 14)
            out.count('creations:%d' % min(ncreate, 3))
            out.count('rc:%s' % res['rc'])
            if prenodes(res) >= 2:
                out.count('serial: >=2 placeholder nodes of one creator before its evaluation')
            for e in res['events']:
                if e[0] in (15, 16, 30, 40, 11, 12):
                    out.count('error-event:%d' % e[0])
            if ncreate or res['rc'] == 3:
                out.nontrivial.add((str(case['sel']), tuple(res['trace'])))
            oracle(case, res, out, 'serial')
            calc_stats(case, res, out, 'serial')
            if len(out.samples) < 3 and ncreate and case['sel']:
                inv = {v: k for k, v in res['nid'].m.items()}
                out.samples.append(dict(selection=case['sel'], creators=[dict(fname=c['fname'], executed=c['executed'], creates=c['creates'],
                                                                              regex=c['regex']) for c in case['creators']],
                                        names=inv, observed=expected))
            # the same case on the thread runner under the deterministic scheduler: oracle + script compared with the model
            if res['trace'][:1] != [40] and (case['kind'] in ('multi', 'calc', 'subrx', 'rxcand') or idx % 4 == 0):
                for tag in range(2 if (case['kind'] in ('multi', 'calc', 'subrx', 'rxcand') or not ctx.quick) else 1):
                    par = dict(k=rng.choice([2, 2, 3]), sched=[rng.randrange(0, 60) for _ in range(40)])
                    res_p = run_parallel(ctx, case, out, idx, par, cases, metas, tag)
                    if res_p is not None:
                        n_dthread += 1
                        out.count('dthread-k:%d' % par['k'])
                        if prenodes(res_p) >= 2:
                            out.count('dthread: >=2 placeholder nodes of one creator before its evaluation')
                        calc_stats(case, res_p, out, 'dthread')
                        if sum(1 for e in res_p['events'] if e[0] == 14):
                            out.nontrivial.add((str(case['sel']), 'dthread', tuple(res_p['strace'])))
            # the same case on the thread runner (real threads): oracle only
            if idx % (6 if ctx.quick else 3) == 0:
                try:
                    res_t = run_impl(case, 'thread')
                    if 'skip' not in res_t:
                        prepare(res_t, case)
                        oracle(case, res_t, out, 'thread')
                        n_thread += 1
                        if res_t['rc'] in (97, 98):
                            out.violations.append(dict(what='thread runner crashed: %s' % res_t['crash'], shape='thread-runner-crash',
                                                       case=dict(case, flavour='thread')))
                except BaseException as e:  # noqa
                    out.violations.append(dict(what='thread runner run failed in the harness: %r' % e, shape='thread-runner-crash', case=dict(case, flavour='thread')))
            # DoitMain end to end (real dependency manager, json DB in a temp dir): exit status and creator count
            if idx % (10 if ctx.quick else 6) == 0:
                c2 = strip_files(case)
                rc_m, log_m, err_m = run_main(ctx, c2, idx)
                n_main += 1
                out.count('doitmain-rc:%s' % rc_m)
                for c in c2['creators']:
                    k = sum(1 for e in log_m if e[0] == 50 and e[1] == c['cid'])
                    if k > 1:
                        out.violations.append(dict(what='DoitMain run: creator %s evaluated %d times' % (c['fname'], k), shape='creator-evaluated-twice',
                                                   case=dict(c2, flavour='doitmain')))
                res2 = None
                try:
                    res2 = run_impl(c2)
                except BaseException:  # noqa
                    pass
                if res2 and 'skip' not in res2:
                    want3 = res2['rc'] == 3
                    if want3 != (rc_m == 3):
                        out.violations.append(dict(what='DoitMain exit status %s but the runner-level run of the same namespace gave %s (%s)' % (
                            rc_m, res2['rc'], err_m[-200:]), shape='doitmain-exit-status', case=dict(sel=case['sel'], auto=case['auto'])))
    # phase 3 (after the others: their generator stream is untouched): several runs in ONE process over the same creator functions
    n_rr = ctx.n(45, 450)
    rr_seq = rr_runs = rr_main = rr_main_runs = 0
    j = 0
    while rr_seq < n_rr and j < 3 * n_rr:
        j += 1
        case, runs = gen_rerun(rng)
        before = len(cases)
        done = run_sequence(case, runs, out, cases, metas, 'r%d' % j)
        if done is None:
            skipped += 1
            out.count('skipped:rerun-load-error')
            continue
        rr_seq += 1
        rr_runs += len(runs)
        out.count('kind:rerun(%s)' % case['kind'])
        out.count('rerun: %d runs in the process' % len(runs))
        for r in runs:
            out.count('rerun-selection:%s' % r['how'])
            out.count('rerun-runner:%s' % r['flavour'])
        per_creator = {}
        plain_twice = False
        for d in done:
            if d['res']:
                for c in set(e[1] for e in d['res']['events'] if e[0] == 50):
                    per_creator[c] = per_creator.get(c, 0) + 1
        for c in case['creators']:
            if per_creator.get(c['cid'], 0) >= 2:
                out.count('rerun: creator evaluated in >=2 runs of one process (%s)' % ('creates=' if c['creates'] else 'plain function'))
                plain_twice = plain_twice or not c['creates']
        if any(v >= 2 for v in per_creator.values()):
            out.nontrivial.add(('rerun', str([(r['sel'], r['flavour']) for r in runs]), tuple(tuple(d['res']['trace']) for d in done if d['res'])))
        if len(out.samples) < 4 and plain_twice and all(d['res'] and d['res']['rc'] == 0 for d in done):
            out.samples.append(dict(runs_in_one_process=[cmd_of(r) for r in runs], creators=[dict(fname=c['fname'], executed=c['executed'], creates=c['creates'],
                                                                                                   regex=c['regex']) for c in case['creators']],
                                    creators_evaluated_per_run=[sorted(e[1] for e in d['res']['events'] if e[0] == 50) for d in done]))
        if rr_seq % 3 == 0:
            run_main_sequence(ctx, case, runs, out, 'rr%d' % j)
            rr_main += 1
            rr_main_runs += len(runs)
    out.extra['sequences_of_runs_in_one_process'] = rr_seq
    out.extra['runs_in_sequences_compared_with_model'] = len(cases) - sum(1 for c_ in cases if 'run_in_process' not in c_['desc'])
    out.extra['doitmain_sequences_in_one_process'] = rr_main
    out.extra['doitmain_runs_in_sequences'] = 2 * rr_main_runs
    n_e2e = e2e_family(ctx, out)
    n_e2e += e2e_calc_family(ctx, out)
    n_e2e += e2e_subrx_family(ctx, out)
    n_e2e += e2e_rxcand_family(ctx, out)
    out.evaluations = len(cases) + n_e2e + 2 * rr_main_runs
    out.extra['serial_runs_compared_with_model'] = n_serial
    out.extra['deterministic_thread_runs_compared_with_model'] = n_dthread
    out.extra['thread_runner_runs_real_threads_oracle_only'] = n_thread
    out.extra['doitmain_runs'] = n_main
    out.extra['e2e_command_line_runs'] = n_e2e
    out.extra['skipped_cases'] = skipped
    bad = common.compare_with_model(ctx, PRE, cases)
    out.traces_validated = len(cases)
    for i, m in bad:
        out.mismatches.append(dict(case=cases[i]['desc'], impl=cases[i]['expected'], model=m,
                                   names={v: k for k, v in metas[i][1]['nid'].m.items()}))
    out.assumptions = ['several runs in one process: the model is applied to each run separately, from freshly loaded loaders (l_created = false, l_basename = None); that the real '
                       'load_tasks hands out such loaders in every run is checked on the objects (oracle LF) and proved for the model of load_tasks\' copies '
                       '(C15_every_load_hands_out_fresh_copies); process-level state of doit outside the DelayedLoader objects is covered by the differential oracle RR only',
                       'creators are data: generate_tasks(to_load, creator()) is an oracle (its result on a silent twin of the creator is the model input)',
                       'Dependency (status_is_ignore/get_status/save_success) is an oracle per task object',
                       'string operations of _filter_tasks (split, startswith, re.match, placeholder names) are oracles given as tables',
                       'iteration order of ExecNode.waiting_me is recorded from the run (wake_rank)',
                       'iteration order of calc_dep sets = ascending hash slot of the (at most 4) provider names, chosen with distinct slots (calc_rank); '
                       'file_dep returned by a calc_dep provider only names targets of static tasks, so its producer (t_calc_new_impl) does not depend on when it is looked up',
                       'reset_task is covered by the model (Delayed.nd_reset incl. the calc_dep lists; C15_reset_node_as_static); the static-twin oracle O7 is '
                       'implementation-side only (the model has no second, static run to compare with)',
                       'parallel runners: the runner (MRunner.run_tasks/get_next_job: which result is consumed when, how many jobs are requested) is '
                       'NOT modelled; its calls into the dispatcher and its own select_task/process_task_result/finish calls are recorded as a '
                       'script, the model replays that script (Delayed.run_script) and must reproduce every yield, event and the exit status; '
                       'the theorems on run_script hold for EVERY script.  Process runner and real threads: independent oracle only']
    out.extra['trusted_base'] = ['harness/c15.py: rendering of the loaded TaskControl state and of the creator outputs as Coq terms',
                                 'harness/runlib.py Sched/FakeQueue/FakeChild: deterministic scheduler under MThreadRunner']
    return out


def replay(ctx, payload):
    """re-run the case of a replay file (written for a violation of the independent oracle) and judge it again"""
    case = payload.get('case') or {}
    if case.get('rerun'):
        return replay_rerun(ctx, case)
    if case.get('e2e_calc'):
        viol, norm = e2e_calc_one(ctx, tuple(case['pair']), list(case['runner']), 'replay')
        for t, steps in norm.items():
            for st, rc, lines in steps:
                print('doit run %s %s  [%s]: exit status %s, executed %s' % (' '.join(case['runner']), t, st, rc, lines))
        for v in viol:
            print('VIOLATION-REPRODUCED shape=%s: %s' % (v['shape'], v['what']))
        return 1 if viol else 0
    if case.get('e2e_subrx'):
        viol, (rc, lines, err) = e2e_subrx_one(ctx, list(case['words']), case['want_rc'], list(case['want_run']), list(case['runner']), 'replay')
        print('doit run --auto-delayed-regex %s: exit status %s, executed %s\n%s' % (' '.join(case['runner'] + case['words']), rc, lines, err.strip()[-600:]))
        for v in viol:
            print('VIOLATION-REPRODUCED shape=%s: %s' % (v['shape'], v['what']))
        return 1 if viol else 0
    if case.get('e2e_rxcand'):
        viol, (rc, lines, err) = e2e_rxcand_one(ctx, case['cmd_index'], list(case['runner']), 'replay')
        print('doit run %s%s: exit status %s, log %s\n%s' % ('--auto-delayed-regex ' if case['auto'] else '', ' '.join(case['runner'] + [case['word']]), rc, lines, err.strip()[-600:]))
        for v in viol:
            print('VIOLATION-REPRODUCED shape=%s: %s' % (v['shape'], v['what']))
        return 1 if viol else 0
    if case.get('e2e') or 'creators' not in case:
        print(json.dumps(payload, indent=1, default=str))
        return 0
    flavour = case.get('flavour') or 'serial'
    par = case.get('par')
    out = Outcome()
    if flavour == 'doitmain':
        rc_m, log_m, err_m = run_main(ctx, case, 0)
        bad = [c['fname'] for c in case['creators'] if sum(1 for e in log_m if e[0] == 50 and e[1] == c['cid']) > 1]
        print('DoitMain exit status %s; creators evaluated more than once: %s' % (rc_m, bad))
        return 1 if bad else 0
    res = run_impl(case, flavour, par)
    if 'skip' in res:
        print('case skipped: %s' % res['skip'])
        return 0
    prepare(res, case)
    inv = {v: k for k, v in res['nid'].m.items()}
    print('flavour=%s selection=%s exit status=%s' % (flavour, case['sel'], res['rc']))
    print('events (names: %s)' % inv)
    print(res['events'])
    viol = oracle(case, res, out, flavour, par)
    for v in viol:
        print('VIOLATION-REPRODUCED shape=%s: %s' % (v['shape'], v['what']))
    return 1 if viol else 0
