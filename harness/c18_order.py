"""C18, definition order -- dodo modules generated as SOURCE TEXT (helper of harness/c18.py).

load_tasks orders the task-creators of a namespace by `inspect.getsourcelines(ref)[1]` (loader.py 150, 275).
What inspect sees depends on how the creator was written, so the cases are real python files:

  plain `def task_x`, stacks of decorators (functools.wraps / a hand-set __wrapped__ / no wraps at all;
  the decorator defined at the top of the dodo file, in its middle, or in another module of the case),
  @create_after, @task_params, a `create_doit_tasks` attribute (set by a decorator, by assignment with a
  `basename`, a method of an instance, a staticmethod of a class), lambdas (one line, continuation line,
  parenthesised, passed through a decorator, two on one line), functools.partial objects and ints called
  task_x (not task-creators), aliases, creators and plain functions imported from the other module.

The harness wrote the files, so it knows on which line everything is.  It evaluates the decorators
symbolically (class Obj: a wrapper made with functools.wraps / __wrapped__ is transparent for inspect and,
with wraps, copies the attributes; one made without hides what is below; @create_after / @task_params /
make_task only set an attribute) and hands Model/Loader.v, per object of the namespace, the facts
_get_task_creators asks for -- is it a function, has it a create_doit_tasks attribute (with a basename), on
which line is the callable defined, what does calling it give, its create_after annotation.  It never asks
inspect.  The model selects and names the creators, sorts them (stable) by line and loads them.

Independent oracle (shape `definition-order`): the creators whose definition is a `def` / lambda of the
dodo file itself that inspect can reach (not hidden by a wrapper without wraps, not imported, line not
shared with another creator) must be loaded in the order in which they were written.
"""
import importlib, os, sys

A = ('actions', ('none',))
IDS = list('abcdefghijkmnpqsuvwxyz')
DEC_KINDS = ('wraps', 'wrapped', 'nowraps')


# ------------------------------------------------------------------ source files
class Src:
    """a file being written: add() returns the (1-based) line number of the first line it appends"""
    def __init__(self, modname):
        self.modname = modname
        self.lines = []

    def add(self, *lines):
        at = len(self.lines) + 1
        self.lines.extend(lines)
        return at

    def text(self):
        return '\n'.join(self.lines) + '\n'


class Obj:
    """what the harness knows about a python object of the generated module"""
    def __init__(self, kind, line=0, result=('none',), wrapped=None, attrs=None, mod=None, index=None):
        self.kind = kind            # func | wrapper | instance | class | partial | int | module | task_params
        self.line = line            # co_firstlineno as written: the first decorator line / the def / the lambda
        self.result = result        # what calling it gives (wrappers pass the call through)
        self.wrapped = wrapped      # __wrapped__
        self.attrs = attrs if attrs is not None else {}
        self.mod = mod              # module the def was written in
        self.index = index          # position among the definitions written in the dodo file

    @property
    def isfunc(self):
        return self.kind in ('func', 'wrapper', 'task_params')


def root(o):
    """inspect.unwrap"""
    while o.wrapped is not None:
        o = o.wrapped
    return o


def apply_dec(dec, o):
    k = dec[0]
    if k == 'w':                                     # ('w', name, kind, wrapper line, module)
        _, _, kind, wline, mod = dec
        if kind == 'wraps':                          # functools.wraps: __dict__ copied, __wrapped__ set
            return Obj('wrapper', wline, o.result, wrapped=o, attrs=dict(o.attrs), mod=mod)
        if kind == 'wrapped':                        # wrapper.__wrapped__ = f, nothing copied
            return Obj('wrapper', wline, o.result, wrapped=o, mod=mod)
        return Obj('wrapper', wline, o.result, mod=mod)
    if k == 'after':
        o.attrs['delayed'] = (dec[1], list(dec[2]))
    elif k == 'params':
        o.attrs['params'] = True
    elif k == 'make':
        o.attrs['create'] = o
    return o


def src_val(v):
    t = v[0]
    if t == 'str': return repr(v[1])
    if t == 'list': return '[' + ', '.join(src_val(x) for x in v[1]) + ']'
    if t == 'tuple': return '(' + ''.join(src_val(x) + ', ' for x in v[1]) + ')'
    if t == 'none': return 'None'
    if t == 'true': return 'True'
    if t == 'false': return 'False'
    if t == 'int': return repr(v[1])
    raise ValueError(v)


def src_dict(it):
    return '{' + ', '.join('%r: %s' % (k, src_val(v)) for k, v in it[1]) + '}'


def body_lines(result, style=0):
    t = result[0]
    if t == 'dict':
        return ['d = ' + src_dict(result), 'return d'] if style else ['return ' + src_dict(result)]
    if t == 'gen':
        return ['yield ' + src_dict(x) for x in result[1]] or ['return', 'yield']
    if t == 'none':
        return ['return None'] if style else ['pass']
    return ['return 42']


def lambda_expr(result):
    t = result[0]
    if t == 'dict': return src_dict(result)
    if t == 'gen': return '(d for d in [%s])' % ', '.join(src_dict(x) for x in result[1])
    if t == 'none': return 'None'
    return '42'


def dec_lines(name, kind, doc):
    head = ['def %s(f):' % name] + (['    """project-local decorator for task-creators"""'] if doc else [])
    if kind == 'wraps':
        return head + ['    @functools.wraps(f)', '    def wrapper(*a, **k):', '        return f(*a, **k)', '    return wrapper'], len(head)
    if kind == 'wrapped':
        return head + ['    def wrapper(*a, **k):', '        return f(*a, **k)', '    wrapper.__wrapped__ = f', '    return wrapper'], len(head)
    return head + ['    def wrapper(*a, **k):', '        return f(*a, **k)', '    return wrapper'], len(head)


def write_dec(src, name, kind, doc=False):
    lines, off = dec_lines(name, kind, doc)
    at = src.add(*lines)
    src.add('')
    return ('w', name, kind, at + off, src.modname)


def fill(src, n):
    for i in range(n):
        src.add('' if i % 2 == 0 else '# ' + '-' * 20)


def write_def(src, name, stack, result, doc=False, style=0, comment=False, indent='', extra_dec=None, selfarg=False):
    """a (decorated) def; -> the function Obj before decoration (line = first decorator line)"""
    first = None
    for d in stack:
        if d[0] == 'w': text = '@' + d[1]
        elif d[0] == 'after': text = '@create_after(executed=%r, creates=%r)' % (d[1], list(d[2]))
        elif d[0] == 'params': text = "@task_params([{'name': 'p', 'default': 'd', 'long': 'p_%s'}])" % name
        else: text = '@make_task'
        at = src.add(indent + text)
        first = first or at
    if extra_dec:
        at = src.add(indent + extra_dec)
        first = first or at
    if comment and first:
        src.add(indent + '# the creator itself')
    params = any(d[0] == 'params' for d in stack)
    at = src.add(indent + 'def %s(%s):' % (name, 'self' if selfarg else ("p='d'" if params else '')))
    first = first or at
    if doc:
        src.add(indent + '    """creator %s"""' % name)
    for l in body_lines(result, style):
        src.add(indent + '    ' + l)
    return first


# ------------------------------------------------------------------ building a case from a spec
def build(spec, tag):
    """spec -> case: files, the objects of the namespace (binding order), per creator what the oracle needs"""
    hname, dname = 'c18h_' + tag, 'c18d_' + tag
    helper, dodo = Src(hname), Src(dname)
    hobj = {}                                   # objects of the helper module by name
    decs = {}                                   # decorators by name
    hs = spec.get('helper')
    if hs:
        fill(helper, hs.get('pad', 0))
        helper.add('import functools', '')
        for name, kind in hs['decs']:
            decs[name] = write_dec(helper, name, kind, doc=hs.get('doc', False))
        for item in hs['defs']:
            fill(helper, item.get('fill', 0))
            stack = [decs[n] for n in item.get('stack', [])]
            line = write_def(helper, item['name'], stack, item['result'])
            o = Obj('func', line, item['result'], mod=hname)
            for d in reversed(stack):
                o = apply_dec(d, o)
            hobj[item['name']] = o
            helper.add('')
    ns = {}
    counter = [0]

    def newfunc(line, result):
        counter[0] += 1
        return Obj('func', line, result, mod=dname, index=counter[0])

    fill(dodo, spec.get('pad', 0))
    dodo.add('import functools', 'from doit import create_after, task_params')
    ns['functools'] = Obj('module')
    ns['create_after'] = Obj('func', 0, mod='doit')
    ns['task_params'] = Obj('task_params', 0, mod='doit')
    if hs:
        dodo.add('import %s' % hname)
        ns[hname] = Obj('module')
        if hs['decs']:
            dodo.add('from %s import %s' % (hname, ', '.join(n for n, _ in hs['decs'])))
            for n, _ in hs['decs']:
                ns[n] = Obj('func', 0, mod=hname)
    dodo.add('')
    for name, kind in spec.get('top_decs', []):
        decs[name] = write_dec(dodo, name, kind, doc=spec.get('doc', False))
        ns[name] = Obj('func', 0, mod=dname)
    dodo.add('def make_task(f):', '    f.create_doit_tasks = f', '    return f', '')
    ns['make_task'] = Obj('func', 0, mod=dname)

    for pos, df in enumerate(spec['defs']):
        if pos == spec.get('mid_at', -1):
            for name, kind in spec.get('mid_decs', []):
                decs[name] = write_dec(dodo, name, kind)
                ns[name] = Obj('func', 0, mod=dname)
        fill(dodo, df.get('fill', 0))
        form = df['form']
        if form == 'def':
            stack = [decs[d[1]] if d[0] == 'w' else d for d in df['stack']]
            line = write_def(dodo, df['name'], stack, df['result'], df.get('doc', False), df.get('style', 0), df.get('comment', False))
            o = newfunc(line, df['result'])
            for d in reversed(stack):
                o = apply_dec(d, o)
            ns[df['name']] = o
        elif form == 'lambda':
            e = lambda_expr(df['result'])
            v, name = df.get('variant', 0), df['name']
            if v == 1:
                dodo.add('%s = \\' % name)
                line = dodo.add('    lambda: %s' % e)
            elif v == 2:
                line = dodo.add('%s = (lambda:' % name)
                dodo.add('    %s)' % e)
            elif v == 3:
                line = dodo.add('%s = %s(lambda: %s)' % (name, df['dec'], e))
            else:
                line = dodo.add('%s = lambda: %s' % (name, e))
            o = newfunc(line, df['result'])
            if v == 3:
                o = apply_dec(decs[df['dec']], o)
            ns[name] = o
        elif form == 'sameline':
            (n1, r1), (n2, r2) = df['pair']
            line = dodo.add('%s = lambda: %s; %s = lambda: %s' % (n1, lambda_expr(r1), n2, lambda_expr(r2)))
            ns[n1] = newfunc(line, r1)
            ns[n2] = newfunc(line, r2)
        elif form == 'alias':
            dodo.add('%s = %s' % (df['name'], df['target']))
            ns[df['name']] = ns[df['target']]
        elif form == 'partial':
            line = write_def(dodo, 'impl_' + df['id'], [], df['result'])
            ns['impl_' + df['id']] = newfunc(line, df['result'])
            dodo.add('%s = functools.partial(impl_%s)' % (df['name'], df['id']))
            ns[df['name']] = Obj('partial')
        elif form == 'instance':
            cls = 'K' + df['id']
            dodo.add('class %s:' % cls)
            if df.get('doc'):
                dodo.add('    """tasks of %s"""' % cls)
            if df.get('static'):
                line = write_def(dodo, 'create_doit_tasks', [], df['result'], indent='    ', extra_dec='@staticmethod')
            else:
                line = write_def(dodo, 'create_doit_tasks', [], df['result'], indent='    ', selfarg=True)
            meth = newfunc(line, df['result'])
            if df.get('static'):
                ns[cls] = Obj('class', attrs={'create': meth})
            if df.get('instance', True):
                dodo.add('%s = %s()' % (df['name'], cls))
                ns[df['name']] = Obj('instance', attrs={'create': meth})
            if not df.get('static'):
                dodo.add('del %s' % cls)
        elif form == 'attr':
            line = write_def(dodo, df['name'], [], df['result'])
            o = newfunc(line, df['result'])
            dodo.add('%s.create_doit_tasks = %s' % (df['name'], df['name']))
            o.attrs['create'] = o
            if df.get('basename'):
                dodo.add('%s.basename = %r' % (df['name'], df['basename']))
                o.attrs['basename'] = df['basename']
            ns[df['name']] = o
        elif form == 'import':
            src_name = df['source']
            if df.get('fn'):                     # a plain function of the helper module, perhaps through a decorator
                if df.get('dec'):
                    dodo.add('%s = %s(%s.%s)' % (df['name'], df['dec'], hname, src_name))
                    ns[df['name']] = apply_dec(decs[df['dec']], hobj[src_name])
                else:
                    dodo.add('%s = %s.%s' % (df['name'], hname, src_name))
                    ns[df['name']] = hobj[src_name]
            else:
                if df['name'] != src_name:
                    dodo.add('from %s import %s as %s' % (hname, src_name, df['name']))
                else:
                    dodo.add('from %s import %s' % (hname, src_name))
                ns[df['name']] = hobj[src_name]
        elif form == 'noise':
            if df.get('util'):
                line = write_def(dodo, df['name'], [], ('dict', [A]))
                ns[df['name']] = newfunc(line, ('dict', [A]))
            else:
                dodo.add('%s = 5' % df['name'])
                ns[df['name']] = Obj('int')
        else:
            raise ValueError(form)
        dodo.add('')
    files = {dname + '.py': dodo.text()}
    if hs:
        files[hname + '.py'] = helper.text()
    mode = spec.get('ns_mode', 'members')
    names = sorted(ns) if mode == 'members' else list(ns)
    case = dict(kind='order', label=spec.get('label', tag), files=files, dodo=dname, ns_mode=mode, allow=spec.get('allow', False),
                forms=sorted({df['form'] for df in spec['defs']}))
    case['_entries'] = [(n, ns[n]) for n in names]
    # what the oracle needs (its own reading of the namespace: which objects are creators, their task name)
    creators = []
    for n, o in case['_entries']:
        if o.kind == 'task_params':
            continue
        if o.isfunc and n.startswith('task_'):
            cname, call = n[5:], o
        elif 'create' in o.attrs:
            call = o.attrs['create']
            cname = call.attrs.get('basename', n)
        else:
            continue
        creators.append((cname, call))
    keys = [(root(c).line, root(c).mod) for _, c in creators]
    expected = []
    for (cname, call), k in zip(creators, keys):
        r = root(call)
        if r.kind != 'func' or r.mod != dname or [x[0] for x in keys].count(k[0]) != 1:
            continue
        m = marker(cname, call, case['allow'])
        if m is not None:
            expected.append((r.index, m))
    case['expected'] = [m for _, m in sorted(expected)]
    case['n_creators'] = len(creators)
    case['n_keys'] = len({k[0] for k in keys})
    case['hidden'] = sum(1 for _, c in creators if root(c).kind == 'wrapper')
    case['through_wraps'] = sum(1 for _, c in creators if c.wrapped is not None)
    return case


def marker(cname, call, allow):
    """name of the first task a creator gives (None: it gives none)"""
    delayed = call.attrs.get('delayed')
    if delayed and delayed[1]:
        return delayed[1][0]
    if delayed and allow:
        return cname
    r = call.result
    if r[0] == 'dict':
        b = dict(r[1]).get('basename')
        return b[1] if b else cname
    if r[0] == 'gen':
        return cname
    return None


# ------------------------------------------------------------------ the model's input
def entries_coq(case):
    import c18

    def ci(o):
        d = o.attrs.get('delayed')
        ds = 'None' if d is None else '(Some (%s, [%s]))' % ('None' if d[0] is None else '(Some %s)' % c18.cstr(d[0]),
                                                            '; '.join(c18.cstr(x) for x in d[1]))
        return '(CI %d %s %s)' % (root(o).line, c18.item_coq(o.result), ds)
    out = []
    for n, o in case['_entries']:
        cr = 'None'
        if 'create' in o.attrs:
            call = o.attrs['create']
            b = call.attrs.get('basename')
            cr = '(Some (%s, %s))' % ('None' if b is None else '(Some %s)' % c18.cstr(b), ci(call))
        out.append('EN %s %s %s %s %s' % (c18.cstr(n), 'true' if o.kind == 'task_params' else 'false',
                                          'true' if o.isfunc else 'false', ci(o), cr))
    return '[' + ';\n  '.join(out) + ']'


# ------------------------------------------------------------------ observing the implementation
def load_namespace(d, case):
    """write the files of the case into d, import the dodo module -> the namespace as the task loaders build it"""
    import inspect
    for fn, text in case['files'].items():
        with open(os.path.join(d, fn), 'w') as f:
            f.write(text)
    old = sys.dont_write_bytecode
    sys.dont_write_bytecode = True
    sys.path.insert(0, d)
    try:
        importlib.invalidate_caches()
        mod = importlib.import_module(case['dodo'])
    finally:
        sys.path.remove(d)
        sys.dont_write_bytecode = old
    if case['ns_mode'] == 'members':
        return mod, dict(inspect.getmembers(mod))       # DodoTaskLoader, ModuleTaskLoader(module)
    return mod, dict(mod.__dict__)                      # ModuleTaskLoader(globals())


def forget(d, case):
    import linecache
    for fn in case['files']:
        sys.modules.pop(fn[:-3], None)
        linecache.cache.pop(os.path.join(d, fn), None)
        try:
            os.remove(os.path.join(d, fn))
        except OSError:
            pass


def order_violation(case, names):
    """the independent oracle: names = the loaded task names, in order"""
    pos = [names.index(m) if m in names else None for m in case['expected']]
    if None in pos:
        missing = [m for m, p in zip(case['expected'], pos) if p is None]
        return 'tasks %s of the creators were not loaded (loaded: %s)' % (missing, names)
    if pos != sorted(pos):
        got = [m for _, m in sorted(zip(pos, case['expected']))]
        return 'creators written in the order %s were loaded in the order %s (all tasks: %s)' % (case['expected'], got, names)
    return None


def public(case):
    return {k: v for k, v in case.items() if not k.startswith('_')}


# ------------------------------------------------------------------ specs
def res_dict(*more):
    return ('dict', [A] + list(more))


def res_gen(*subs):
    return ('gen', [('dict', [A, ('name', ('str', s))]) for s in subs])


def directed_specs():
    """the same four creators (written z, m, g, a) under every kind of decorator in every place, both namespaces"""
    specs = []
    for place in ('top', 'mid', 'ext'):
        for kind in DEC_KINDS:
            for mode in ('members', 'dict'):
                dn = '%s_%s' % (place, kind)
                sp = dict(label=('directed', place, kind, mode), ns_mode=mode, doc=True, defs=[
                    dict(form='def', name='task_z', stack=[('w', dn)], result=res_dict(), doc=True),
                    dict(form='def', name='task_m', stack=[], result=res_dict(), doc=True),
                    dict(form='def', name='task_g', stack=[('w', dn)], result=res_gen('b', 'a'), doc=True),
                    dict(form='def', name='task_a', stack=[('w', dn)], result=res_dict())])
                if place == 'top':
                    sp['top_decs'] = [(dn, kind)]
                elif place == 'mid':
                    sp['mid_decs'], sp['mid_at'] = [(dn, kind)], 0
                    sp['defs'].insert(0, dict(form='def', name='task_y', stack=[], result=res_dict()))
                else:
                    sp['helper'] = dict(decs=[(dn, kind)], defs=[], pad=3)
                specs.append(sp)
    # the forms one by one, each between two plain creators written in reverse alphabetical order
    def around(label, *defs, **kw):
        sp = dict(label=('directed',) + label, top_decs=[('top_wraps', 'wraps'), ('top_nowraps', 'nowraps')],
                  defs=[dict(form='def', name='task_y', stack=[], result=res_dict())] + list(defs) +
                       [dict(form='def', name='task_b', stack=[], result=res_dict())])
        sp.update(kw)
        specs.append(sp)
    hs = dict(decs=[('ext_wraps', 'wraps'), ('ext_nowraps', 'nowraps')], pad=2, defs=[
        dict(name='task_q', result=res_dict(), fill=40), dict(name='task_h', stack=['ext_wraps'], result=res_dict()),
        dict(name='fn_k', result=res_gen('x'))])
    around(('create_after', 'under-wraps'), dict(form='def', name='task_k', stack=[('w', 'top_wraps'), ('after', None, ['c1', 'c2'])], result=res_dict()))
    around(('create_after', 'under-nowraps'), dict(form='def', name='task_k', stack=[('w', 'top_nowraps'), ('after', None, ['c1'])], result=res_dict()))
    around(('create_after', 'over-nowraps'), dict(form='def', name='task_k', stack=[('after', 'y', ['c1']), ('w', 'top_nowraps')], result=res_dict()))
    around(('create_after', 'executed', 'allowed'), dict(form='def', name='task_k', stack=[('after', 'y', [])], result=res_dict()), allow=True)
    around(('task_params',), dict(form='def', name='task_k', stack=[('params',)], result=res_dict()),
           dict(form='def', name='task_e', stack=[('w', 'top_wraps'), ('params',)], result=res_gen('x')),
           dict(form='def', name='task_c', stack=[('w', 'top_nowraps'), ('params',)], result=res_dict()))
    around(('make_task', 'doc-sample'), dict(form='def', name='sample', stack=[('make',)], result=res_dict()),
           dict(form='def', name='task_k', stack=[('make',)], result=res_dict()),
           dict(form='def', name='other', stack=[('w', 'top_wraps'), ('make',)], result=res_dict()),
           dict(form='def', name='lost', stack=[('w', 'top_nowraps'), ('make',)], result=res_dict()))
    around(('attr', 'basename'), dict(form='attr', name='mk_k', basename='named', result=res_dict()),
           dict(form='attr', name='mk_c', result=res_gen('x', 'y')))
    around(('instance',), dict(form='instance', id='k', name='obj_k', result=res_dict(), doc=True),
           dict(form='instance', id='c', name='obj_c', static=True, result=res_gen('x')),
           dict(form='instance', id='e', name='obj_e', static=True, instance=False, result=res_dict()))
    for v in range(4):
        around(('lambda', v), dict(form='lambda', name='task_k', variant=v, dec='top_wraps', result=res_dict()),
               dict(form='lambda', name='task_c', variant=v, dec='top_nowraps', result=res_gen('x')))
    around(('sameline',), dict(form='sameline', pair=[('task_k', res_dict()), ('task_c', res_dict())]))
    around(('partial', 'int'), dict(form='partial', id='k', name='task_k', result=res_dict()), dict(form='noise', name='task_c'),
           dict(form='noise', name='util_c', util=True))
    around(('alias',), dict(form='def', name='task_k', stack=[('w', 'top_wraps')], result=res_dict()),
           dict(form='def', name='task_e', stack=[], result=res_gen('x')), dict(form='alias', name='task_c', target='task_k'),
           dict(form='alias', name='task_z', target='task_e'))
    for mode in ('members', 'dict'):
        around(('import', mode), dict(form='import', name='task_q', source='task_q'), dict(form='import', name='task_k', source='task_h'),
               dict(form='import', name='task_c', source='fn_k', fn=True), dict(form='import', name='task_e', source='fn_k', fn=True, dec='top_wraps'),
               dict(form='import', name='task_s', source='fn_k', fn=True, dec='ext_nowraps'), helper=hs, ns_mode=mode, pad=12)
    around(('stack',), dict(form='def', name='task_k', stack=[('w', 'top_wraps'), ('w', 'top_wraps')], result=res_dict(), comment=True),
           dict(form='def', name='task_e', stack=[('w', 'top_wraps'), ('w', 'top_nowraps')], result=res_dict()),
           dict(form='def', name='task_c', stack=[('w', 'top_nowraps'), ('w', 'top_wraps')], result=res_dict()))
    return specs


def rand_result(rng, cid, ids, expr_only=False):
    r = rng.random()
    if r < 0.55:
        more = []
        if rng.random() < 0.10:
            more.append(('basename', ('str', 'b' + cid)))
        if rng.random() < 0.10:
            more.append(('task_dep', ('list', [('str', rng.choice(ids))])))
        return res_dict(*more)
    if r < 0.84:
        return res_gen(*rng.sample(['x', 'y', 'z'], rng.choice([1, 2, 2, 3])))
    if r < 0.91:
        return ('gen', [])
    if r < 0.98:
        return ('none',)
    return ('other',)


def rand_spec(rng, label):
    ids = rng.sample(IDS, rng.choice([3, 4, 5, 6, 7, 8]))
    spec = dict(label=label, ns_mode=rng.choice(['members', 'members', 'dict']), allow=rng.random() < 0.2,
                pad=rng.choice([0, 0, 2, 9]), doc=rng.random() < 0.5, defs=[])
    avail = []
    spec['top_decs'] = [('top_' + k, k) for k in DEC_KINDS if rng.random() < 0.6]
    avail += [n for n, _ in spec['top_decs']]
    hs = None
    if rng.random() < 0.6:
        hs = dict(decs=[('ext_' + k, k) for k in DEC_KINDS if rng.random() < 0.5], pad=rng.choice([0, 3, 15, 40]),
                  doc=rng.random() < 0.5, defs=[])
        hdecs = [n for n, _ in hs['decs']]
        for i in range(rng.choice([1, 2, 3])):
            hid = 'h%d' % i
            fn = rng.random() < 0.4
            hs['defs'].append(dict(name=('fn_' if fn else 'task_') + hid, result=rand_result(rng, hid, ids), fill=rng.choice([0, 1, 6, 25]),
                                   stack=[rng.choice(hdecs)] if hdecs and rng.random() < 0.3 else []))
        spec['helper'] = hs
        avail += hdecs
    spec['mid_decs'] = [('mid_' + k, k) for k in DEC_KINDS if rng.random() < 0.4]
    spec['mid_at'] = rng.randrange(0, len(ids))
    himport = list(hs['defs']) if hs else []
    rng.shuffle(himport)
    bound = []                                  # task_ names bound to a function so far (targets of aliases)

    def wrappers(pos):
        return avail + ([n for n, _ in spec['mid_decs']] if pos >= spec['mid_at'] else [])

    for pos, cid in enumerate(ids):
        ws = wrappers(pos)
        r = rng.random()
        df = None
        if r < 0.50:
            n = rng.choice([0, 1, 1, 1, 2, 2, 3])
            stack, used = [], set()
            for _ in range(n):
                k = rng.random()
                if ws and k < 0.62:
                    stack.append(('w', rng.choice(ws)))
                elif k < 0.76 and 'after' not in used:
                    used.add('after')
                    stack.append(('after', rng.choice([None, None, rng.choice(ids)]), rng.choice([[], [], ['c' + cid], ['c' + cid, 'd' + cid]])))
                elif k < 0.88 and 'params' not in used:
                    used.add('params')
                    stack.append(('params',))
                elif 'make' not in used:
                    used.add('make')
                    stack.append(('make',))
            name = 'task_' + cid
            if 'make' in used and rng.random() < 0.6:
                name = 'obj_' + cid
            df = dict(form='def', name=name, stack=stack, result=rand_result(rng, cid, ids), doc=rng.random() < 0.4,
                      style=rng.randrange(2), comment=rng.random() < 0.2)
            if name.startswith('task_'):
                bound.append(name)
        elif r < 0.62:
            v = rng.randrange(4 if ws else 3)
            df = dict(form='lambda', name='task_' + cid, variant=v, dec=rng.choice(ws) if ws else None, result=rand_result(rng, cid, ids))
            bound.append(df['name'])
        elif r < 0.66:
            c2 = cid + cid
            df = dict(form='sameline', pair=[('task_' + cid, rand_result(rng, cid, ids)), ('task_' + rng.choice(IDS) + c2, rand_result(rng, c2, ids))])
        elif r < 0.73 and bound:
            df = dict(form='alias', name='task_' + cid, target=rng.choice(bound))
        elif r < 0.77:
            df = dict(form='partial', id=cid, name='task_' + cid, result=rand_result(rng, cid, ids))
        elif r < 0.84:
            df = dict(form='instance', id=cid, name='obj_' + cid, static=rng.random() < 0.4, instance=rng.random() < 0.8,
                      result=rand_result(rng, cid, ids), doc=rng.random() < 0.5)
        elif r < 0.89:
            df = dict(form='attr', name='mk_' + cid, basename=rng.choice([None, 'n' + cid]), result=rand_result(rng, cid, ids))
        elif r < 0.97 and himport:
            h = himport.pop()
            if h['name'].startswith('fn_'):
                df = dict(form='import', name='task_' + cid, source=h['name'], fn=True, dec=rng.choice([None, rng.choice(ws)]) if ws else None)
            else:
                df = dict(form='import', name=rng.choice([h['name'], 'task_' + cid]), source=h['name'])
            bound.append(df['name'])
        else:
            df = dict(form='noise', name='task_' + cid, util=rng.random() < 0.3)
            if df['util']:
                df['name'] = 'util_' + cid
        df['fill'] = rng.choice([0, 0, 1, 2, 5])
        spec['defs'].append(df)
    return spec
