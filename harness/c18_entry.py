"""C18, the ENTRY POINT through which the namespace of task-creators is loaded.

The property quantifies over namespaces of task-creators; it does not say "when loaded by `doit list`".  Every way doit
offers to load a namespace must apply the same validation, the command-name check included (a creator `task_<x>` where
<x> is the name of a doit command -- a core one or one added by a COMMAND plugin -- is an invalid dodo file):

  entry point          how the namespace reaches loader.load_tasks
  main-dict            DoitMain(ModuleTaskLoader(<dict>)).run(argv)                            in-process
  main-module          DoitMain(ModuleTaskLoader(<module object>)).run(argv)                   in-process
  doit-run             doit.run(<dict>)   (sys.argv, sys.exit)                                 in-process
  run-tasks            doit.api.run_tasks(ModuleTaskLoader(<dict>), {task: opts})              in-process; re-raises the user errors
  dodo-file            DoitMain().run(['-f', dodo.py] + argv)   (DodoTaskLoader)               in-process
  plugin-nsloader      DoitMain().run(argv), [GLOBAL] loader = a LOADER plugin (NamespaceTaskLoader subclass)
  plugin-rawloader     the same, the plugin is a TaskLoader2 that calls loader.load_tasks(ns, self.cmd_names, ..) itself
  sub-dodo             python -m doit -f dodo.py argv                                          real command line
  sub-script           python script.py argv   (script ends with doit.run(globals()))         real command line
  sub-plugin-loader    python -m doit argv with the LOADER plugin in doit.cfg                  real command line

x the command (list, list --all, run, clean --dry-run, info, forget, ignore, a COMMAND plugin built on DoitCmdBase)
x how the configuration (plugins) is given (doit.cfg in the working directory | extra_config of the API)
x the namespace: valid ones (with names that only LOOK like commands), a creator named like a core command / like a plugin
  command (static or create_after), a creator result that is not a task definition (unknown field, no actions, wrong type,
  not a dict, yielded dict without a name), faults of the whole task set (dangling task_dep / setup, duplicate target).

One source text per case (c18_values.dodo_text) is used for all entry points: imported as a module for the in-process
ones, written as dodo.py / script.py for the others.

Oracle (declared input only): the case SAYS which fault it contains (and c18_values.oracle_invalid, the oracle of the
property text for result values, must agree for the result faults -- asserted when the case is built).  The set of command
names is the documented list of doit commands (doc/cmd_*.rst) plus the plugin commands the case declares -- not what
get_cmds() answers.
  invalid  -> command-line-like entry points: exit code 3, stderr `ERROR: ...`, no traceback, no task executed;
              run_tasks: raises InvalidDodoFile / InvalidTask (its documented way to report user errors), no task executed
  valid    -> exit code 0 (info: 0 or 1) / run_tasks returns 0; `run` executes exactly the declared tasks; the plugin command
              prints the declared task names in definition order
  faults of the whole task set are checked by TaskControl: demanded of the commands that build the task graph (run, clean).

Model: Model/LoaderEntry.v [entry_report] = cli-mapping of Loader.load / load_tasks on the command names the entry point
hands to the loader; compared for the commands list / run / clean / plugin command.
"""
import io, os, subprocess, sys, tempfile, importlib, importlib.util
import common
import c18 as B
import c18_values as V

S, Ls, Tp, Dc, I, NONE = B.S, B.Ls, B.Tp, B.Dc, B.I, B.NONE

# doc/cmd-run.rst, doc/cmd-other.rst: the commands of doit (`auto` is a separate plugin package since 0.36, doc/changes.rst)
DOCUMENTED_CMDS = ['clean', 'dumpdb', 'forget', 'help', 'ignore', 'info', 'list', 'reset-dep', 'run', 'strace', 'tabcompletion']
CLASH_NAMES = [c for c in DOCUMENTED_CMDS if c.isidentifier()]          # `def task_reset-dep` cannot be written
LOOKALIKE = ['lists', 'runx', 'my_run', 'Help', 'cleaner', 'deployer', 'list_', 'auto']        # NOT command names (auto: not installed)
PLUGIN_CMDS = ['deploy', 'audit']

IN_PROCESS = ['main-dict', 'main-module', 'doit-run', 'run-tasks', 'dodo-file', 'plugin-nsloader', 'plugin-rawloader']
SUBPROCESS = ['sub-dodo', 'sub-script', 'sub-plugin-loader']
ENTRIES = IN_PROCESS + SUBPROCESS
ECOQ = {'main-dict': 'EMainRun', 'main-module': 'EMainRun', 'doit-run': 'EDoitRun', 'run-tasks': 'ERunTasks', 'dodo-file': 'EDodoLoader',
        'plugin-nsloader': 'EPluginLoader', 'plugin-rawloader': 'EPluginLoader', 'sub-dodo': 'EDodoLoader', 'sub-script': 'EDoitRun',
        'sub-plugin-loader': 'EPluginLoader'}
EXTRA_OK = ['main-dict', 'main-module', 'run-tasks', 'dodo-file', 'plugin-nsloader', 'plugin-rawloader']    # accept extra_config
CONTROL_CMDS = ('run', 'clean')          # build the task graph (TaskControl)
MODELLED_CMDS = ('list', 'run', 'clean') + tuple(PLUGIN_CMDS)

PRE_ENTRY = r'''
From DoitV Require Import LoaderEntry.
(* [exit code; traceback] of an entry point: control = the command builds a TaskControl *)
Definition ER (e : entry) (control : bool) (core plugin : list string) (allow : bool) (cs : list pcreator) : list Z :=
  entry_report e (if control then entry_load fmt0 fnmatch_star L2 e core plugin allow (map creator_of cs)
                  else entry_load_tasks fmt0 L2 e core plugin allow (map creator_of cs)).
'''

CMD_PLUGIN = '''from doit.cmd_base import DoitCmdBase
class Show(DoitCmdBase):
    """a command added by a plugin: prints the names of the loaded tasks"""
    doc_purpose = 'print task names'
    doc_usage = ''
    doc_description = None
    cmd_options = ()
    def _execute(self):
        for t in self.task_list:
            self.outstream.write(t.name + '\\n')
        return 0
'''

LOADER_PLUGIN = '''from doit.cmd_base import NamespaceTaskLoader, TaskLoader2
from doit import loader as _loader
def _namespace():
    import NSMOD
    return dict(vars(NSMOD))
class NsLoader(NamespaceTaskLoader):
    def setup(self, opt_values):
        self.namespace = _namespace()
class RawLoader(TaskLoader2):
    def setup(self, opt_values):
        self.ns = _namespace()
    def load_doit_config(self):
        return _loader.load_doit_config(self.ns)
    def load_tasks(self, cmd, pos_args):
        return _loader.load_tasks(self.ns, self.cmd_names, allow_delayed=cmd.execute_tasks, args=pos_args,
                                  config=self.config, task_opts=self.task_opts)
'''

SCRIPT_TAIL = '''
if __name__ == '__main__':
    import doit
    doit.run(globals())
'''


# ------------------------------------------------------------------ cases
def ok(name, *more):
    return ('val', V.act(name, *more))


def two_subs(name, *more):
    return ('gen', [V.sub(name, 'x', *more), V.sub(name, 'y', *more)])


RESULT_FAULTS = {          # the creator result is not a task definition: rejected by load_tasks itself
    'unknown-field': lambda n: ok(n, (S('colour'), I(1))),
    'no-actions': lambda n: ('val', Dc((S('doc'), S('text')))),
    'wrong-type': lambda n: ok(n, (S('file_dep'), S('abc'))),
    'not-a-dict': lambda n: ('val', I(42)),
    'yield-without-name': lambda n: ('gen', [V.sub(n, 'x'), ok(n)]),
}
SET_FAULTS = {             # the task set is inconsistent: rejected when the task graph is built
    'dangling-task_dep': lambda n: ok(n, (S('task_dep'), Ls(S('ghost')))),
    'dangling-setup': lambda n: ok(n, (S('setup'), Ls(S('ghost')))),
    'duplicate-target': lambda n: two_subs(n, (S('targets'), Ls(S('out.txt')))),
}
FAULT_KINDS = ['cmd-clash', 'cmd-clash-plugin', 'cmd-clash-delayed'] + sorted(RESULT_FAULTS) + sorted(SET_FAULTS)
VALID_KINDS = ['valid', 'valid-subtasks', 'valid-lookalike']


def build(rng, label, entry, kind, argv=None, clash=None, cfg_via=None, plugins=None):
    """one case; everything the oracle uses is declared here"""
    if plugins is None:
        plugins = rng.choice([[], ['deploy'], ['deploy', 'audit']])
    if kind == 'cmd-clash-plugin' and not plugins:
        plugins = ['deploy']
    name, delayed, fault = 'sub', None, None
    if kind in ('cmd-clash', 'cmd-clash-delayed'):
        name = clash or rng.choice(CLASH_NAMES)
        res = rng.choice([ok, two_subs])(name)
        delayed = ('good', []) if kind == 'cmd-clash-delayed' else None
        fault = dict(kind=kind, level='load', cls='cmd-clash', why='task_%s is named like the doit command %r' % (name, name))
    elif kind == 'cmd-clash-plugin':
        name = clash if clash in plugins else rng.choice(plugins)
        res = rng.choice([ok, two_subs])(name)
        fault = dict(kind=kind, level='load', cls='cmd-clash', why='task_%s is named like the plugin command %r' % (name, name))
    elif kind in RESULT_FAULTS:
        res = RESULT_FAULTS[kind]('sub')
        why = V.oracle_invalid(res)          # the oracle of the property text for result values: must agree where it has a say
        if kind == 'unknown-field':
            assert why is None
            why = 'returns a dict with the unknown field colour'
        elif kind == 'wrong-type':
            assert why is None and not B.documented_ok('file_dep', S('abc'))
            why = 'returns a dict whose file_dep is a str'
        assert why, (kind, res)
        fault = dict(kind=kind, level='load', cls='result', why='task_sub ' + why)
    elif kind in SET_FAULTS:
        res = SET_FAULTS[kind]('sub')
        assert V.oracle_invalid(res) is None
        fault = dict(kind=kind, level='control', cls='task-set', why='task_sub: ' + kind)
    elif kind == 'valid-lookalike':
        name = clash or rng.choice(LOOKALIKE)
        res = rng.choice([ok, two_subs])(name)
    elif kind == 'valid-subtasks':
        res = two_subs('sub')
    else:
        res = ok('sub')
    cs = [dict(name='good', result=ok('good'), delayed=None)]
    for i in range(rng.choice([0, 0, 1, 2])):
        w = 'w%d' % i
        cs.append(dict(name=w, result=rng.choice([ok(w), two_subs(w), ('val', NONE), ('gen', [])]), delayed=None))
    cs.insert(rng.randrange(len(cs) + 1), dict(name=name, result=res, delayed=delayed))
    if entry == 'run-tasks':
        argv = ['run']
    elif argv is None:
        pool = [['list'], ['list', '--all'], ['run'], ['clean', '--dry-run'], ['info', 'good'], ['forget', 'good'], ['ignore', 'good']]
        pool += [[p] for p in plugins]
        if fault and fault['level'] == 'control':
            pool = [['run'], ['clean', '--dry-run']] * 3 + pool
        argv = rng.choice(pool)
    if argv[0] in PLUGIN_CMDS and argv[0] not in plugins:
        plugins = plugins + [argv[0]]
    if cfg_via is None:
        cfg_via = rng.choice(['file', 'extra']) if entry in EXTRA_OK else 'file'
    select = rng.choice([[], [], ['good']]) if argv[0] == 'run' else []
    return dict(label=label, entry=entry, kind=kind, creators=cs, plugins=list(plugins), fault=fault, argv=list(argv), cfg_via=cfg_via,
                select=select)


def gen_cases(ctx):
    rng = ctx.rng
    cases = []
    for e in IN_PROCESS:
        # every command name (core and plugin) as a creator name, through every entry point
        for nm in CLASH_NAMES:
            cases.append(build(rng, ('clash', e, nm), e, 'cmd-clash', clash=nm))
        for nm in PLUGIN_CMDS:
            cases.append(build(rng, ('clash-plugin', e, nm), e, 'cmd-clash-plugin', clash=nm, plugins=list(PLUGIN_CMDS)))
        for via in (['file', 'extra'] if e in EXTRA_OK else ['file']):
            cases.append(build(rng, ('clash-plugin', e, via), e, 'cmd-clash-plugin', cfg_via=via))
        cases.append(build(rng, ('clash-delayed', e), e, 'cmd-clash-delayed'))
        for k in sorted(RESULT_FAULTS):
            cases.append(build(rng, ('result', e, k), e, k))
        for k in sorted(SET_FAULTS):
            for argv in (['run'], ['clean', '--dry-run']):
                cases.append(build(rng, ('task-set', e, k, argv[0]), e, k, argv=argv))
        for k in VALID_KINDS:
            for argv in (['run'], ['list', '--all'], ['deploy']):
                cases.append(build(rng, (k, e, argv[0]), e, k, argv=argv))
        for nm in LOOKALIKE:
            cases.append(build(rng, ('lookalike', e, nm), e, 'valid-lookalike', clash=nm))
    for e in SUBPROCESS:
        for nm in (CLASH_NAMES if not ctx.quick else rng.sample(CLASH_NAMES, 3)):
            cases.append(build(rng, ('clash', e, nm), e, 'cmd-clash', clash=nm))
        cases.append(build(rng, ('clash-plugin', e), e, 'cmd-clash-plugin'))
        for k in (sorted(RESULT_FAULTS) if not ctx.quick else rng.sample(sorted(RESULT_FAULTS), 2)):
            cases.append(build(rng, ('result', e, k), e, k))
        cases.append(build(rng, ('task-set', e), e, rng.choice(sorted(SET_FAULTS)), argv=['run']))
        for k in VALID_KINDS:
            cases.append(build(rng, (k, e), e, k, argv=rng.choice([['run'], ['list', '--all'], ['deploy']])))
    for i in range(ctx.n(250, 4000)):
        e = rng.choice(IN_PROCESS if rng.random() < (0.97 if ctx.quick else 0.9) else SUBPROCESS)
        kind = rng.choice(FAULT_KINDS + FAULT_KINDS[:3] * 2 + VALID_KINDS * 2)
        cases.append(build(rng, ('random', i), e, kind))
    return cases


# ------------------------------------------------------------------ the oracle (declared input only)
def command_names(case):
    return sorted(set(DOCUMENTED_CMDS) | set(case['plugins']))


def expected_invalid(case):
    f = case['fault']
    return bool(f) and (f['level'] == 'load' or case['argv'][0] in CONTROL_CMDS)


def declared_names(case):
    names = []
    for c in case['creators']:
        names += V.oracle_names(c['result'], c['name'])
    return names


def declared_marks(case):
    if case['select']:
        return sorted(case['select'])            # the valid task sets of this part have no dependencies
    return sorted(m for c in case['creators'] for m in V.markers(c['result']))


# ------------------------------------------------------------------ realising a case
_UID = [0]


def files_of(case, uid):
    text = V.dodo_text(case['creators'])
    cfg = {'GLOBAL': {'outfile': 'report.txt'}}
    if case['plugins']:
        cfg['COMMAND'] = {p: 'c18cmd_%s:Show' % uid for p in case['plugins']}
    if 'plugin' in case['entry']:
        cls = 'RawLoader' if case['entry'] == 'plugin-rawloader' else 'NsLoader'
        if case['entry'] == 'sub-plugin-loader':
            cls = ['NsLoader', 'RawLoader'][len(case['creators']) % 2]
        cfg['GLOBAL']['loader'] = 'mine'
        cfg['LOADER'] = {'mine': 'c18ldr_%s:%s' % (uid, cls)}
    files = {'ns_%s.py' % uid: text, 'dodo.py': text, 'dodo_%s.py' % uid: text, 'script.py': text + SCRIPT_TAIL,
             'c18cmd_%s.py' % uid: CMD_PLUGIN, 'c18ldr_%s.py' % uid: LOADER_PLUGIN.replace('NSMOD', 'ns_%s' % uid)}
    ini = ''.join('[%s]\n%s\n' % (sec, ''.join('%s = %s\n' % kv for kv in sorted(vals.items()))) for sec, vals in sorted(cfg.items()))
    return files, cfg, ini


def read_marks(d):
    p = os.path.join(d, 'log.txt')
    return open(p).read().split('\n')[:-1] if os.path.exists(p) else []


def observe(ctx, case):
    """-> dict(rc, so, se, marks, raised): raised = name of the exception run_tasks re-raised"""
    _UID[0] += 1
    uid = 'k%d_%d' % (os.getpid(), _UID[0])
    d = tempfile.mkdtemp(prefix='c18e_', dir=ctx.subdir('entry'))
    files, cfg, ini = files_of(case, uid)
    for fn, text in files.items():
        with open(os.path.join(d, fn), 'w') as fh:
            fh.write(text)
    via_file = case['cfg_via'] == 'file'
    if via_file:
        with open(os.path.join(d, 'doit.cfg'), 'w') as fh:
            fh.write(ini)
    if case['entry'] in SUBPROCESS:
        return observe_subprocess(case, d)
    argv = case['argv'] + case['select']
    r = dict(rc=None, so='', se='', marks=[], raised=None)
    real = (sys.stdout, sys.stderr, sys.argv, list(sys.path), os.getcwd())
    before = set(sys.modules)
    out, err = io.StringIO(), io.StringIO()
    try:
        os.chdir(d)
        sys.path.insert(0, d)
        importlib.invalidate_caches()
        sys.stdout, sys.stderr = out, err
        try:
            r['rc'] = run_entry(case, d, uid, argv, None if via_file else cfg)
        except SystemExit as e:
            r['rc'] = 98 if case['entry'] != 'doit-run' else (0 if e.code is None else e.code)
        except BaseException as e:  # noqa
            from doit.exceptions import InvalidTask, InvalidDodoFile, InvalidCommand
            from doit.cmdparse import CmdParseError
            if case['entry'] == 'run-tasks' and isinstance(e, (InvalidTask, InvalidDodoFile, InvalidCommand, CmdParseError)):
                r['raised'], r['rc'] = type(e).__name__, 3
                err.write('ERROR: %s\n' % e)
            else:
                r['rc'] = 98
                err.write('Traceback (harness): %s: %s at %s' % (type(e).__name__, e, B.crash_site(e.__traceback__)))
        if r['rc'] is None:
            r['rc'] = 0
    finally:
        sys.stdout, sys.stderr, sys.argv = real[0], real[1], real[2]
        sys.path[:] = real[3]
        os.chdir(real[4])
        V.close_db()
        for m in set(sys.modules) - before:
            if m.startswith(('ns_k', 'c18cmd_k', 'c18ldr_k', 'dodo_k')):
                del sys.modules[m]
    r['so'], r['se'] = out.getvalue(), err.getvalue()
    rep = os.path.join(d, 'report.txt')
    if os.path.exists(rep):
        r['so'] += open(rep).read()
    r['marks'] = read_marks(d)
    return r


def import_ns(d, uid):
    name = 'ns_%s' % uid
    spec = importlib.util.spec_from_file_location(name, os.path.join(d, name + '.py'))
    mod = importlib.util.module_from_spec(spec)
    sys.modules[name] = mod
    spec.loader.exec_module(mod)
    return mod


def run_entry(case, d, uid, argv, extra):
    import doit
    from doit.doit_cmd import DoitMain
    from doit.cmd_base import ModuleTaskLoader
    from doit.api import run_tasks
    e = case['entry']
    kw = dict(extra_config=extra) if extra else {}
    if e == 'main-dict':
        return DoitMain(ModuleTaskLoader(dict(vars(import_ns(d, uid)))), **kw).run(argv)
    if e == 'main-module':
        return DoitMain(ModuleTaskLoader(import_ns(d, uid)), **kw).run(argv)
    if e == 'doit-run':
        sys.argv = ['script.py'] + argv
        return doit.run(dict(vars(import_ns(d, uid))))
    if e == 'run-tasks':
        return run_tasks(ModuleTaskLoader(dict(vars(import_ns(d, uid)))), {t: {} for t in case['select']}, **kw)
    if e == 'dodo-file':
        # a name of its own: loader.get_module imports the dodo file by module name (sys.modules)
        return DoitMain(**kw).run(['-f', os.path.join(d, 'dodo_%s.py' % uid)] + argv)
    if e in ('plugin-nsloader', 'plugin-rawloader'):
        return DoitMain(**kw).run(argv)
    raise KeyError(e)


def subprocess_argv(case):
    argv = case['argv'] + case['select']
    if case['entry'] == 'sub-dodo':
        return [sys.executable, '-m', 'doit', '-f', 'dodo.py'] + argv
    if case['entry'] == 'sub-script':
        return [sys.executable, 'script.py'] + argv
    return [sys.executable, '-m', 'doit'] + argv


def observe_subprocess(case, d):
    try:
        p = subprocess.run(subprocess_argv(case), cwd=d, env=common.impl_env(), capture_output=True, text=True, timeout=60)
        rc, so, se = p.returncode, p.stdout, p.stderr
    except subprocess.TimeoutExpired:
        rc, so, se = 98, '', 'timeout'
    rep = os.path.join(d, 'report.txt')
    if os.path.exists(rep):
        so += open(rep).read()
    return dict(rc=rc, so=so, se=se, marks=read_marks(d), raised=None)


# ------------------------------------------------------------------ judging
def public(case, r=None):
    files, cfg, ini = files_of(case, 'kN')
    desc = dict(part='entry-point', label=list(case['label']), entry=case['entry'], kind=case['kind'], argv=case['argv'], select=case['select'],
                plugins=case['plugins'], cfg_via=case['cfg_via'], fault=case['fault'], creators=case['creators'],
                config=ini.split('\n'), dodo=files['dodo.py'].split('\n')[len(V.DODO_HEAD.split('\n')) - 1:])
    if r is not None:
        desc.update(exit=r['rc'], raised=r['raised'], stdout=r['so'][-400:], stderr=r['se'][-600:], executed=r['marks'])
    return desc


def how(case):
    e = case['entry']
    a = ' '.join(case['argv'] + case['select'])
    return {'main-dict': 'DoitMain(ModuleTaskLoader(<dict>)).run(%r)' % a, 'main-module': 'DoitMain(ModuleTaskLoader(<module>)).run(%r)' % a,
            'doit-run': 'doit.run(<dict>) with argv %r' % a, 'run-tasks': 'doit.api.run_tasks(ModuleTaskLoader(<dict>), %r)' % case['select'],
            'dodo-file': 'DoitMain().run(-f dodo.py %s)' % a, 'plugin-nsloader': 'DoitMain().run(%r) with a NamespaceTaskLoader plugin' % a,
            'plugin-rawloader': 'DoitMain().run(%r) with a TaskLoader2 plugin' % a, 'sub-dodo': '`python -m doit -f dodo.py %s`' % a,
            'sub-script': '`python script.py %s` (doit.run(globals()))' % a, 'sub-plugin-loader': '`python -m doit %s` with a LOADER plugin' % a}[e]


def judge(case, r):
    viol = []
    desc = public(case, r)
    e, f, cmd = case['entry'], case['fault'], case['argv'][0]
    txt = r['so'] + r['se']
    if 'Traceback' in txt or r['rc'] == 98:
        viol.append(dict(what='%s: internal traceback / crash (exit %s)%s' % (how(case), r['rc'], ': ' + f['why'] if f else ' on a valid namespace'),
                         shape='c18:entry-point:traceback', case=desc))
        return viol
    if expected_invalid(case):
        if e == 'run-tasks':
            good = r['raised'] in ('InvalidDodoFile', 'InvalidTask') and not r['marks']
            got = ('raised %s' % r['raised']) if r['raised'] else 'returned %s' % r['rc']
            want = 'InvalidDodoFile / InvalidTask raised'
        else:
            good = r['rc'] == 3 and 'ERROR:' in r['se'] and not r['marks']
            got = 'exit code %s, stderr %r' % (r['rc'], r['se'][:120])
            want = '`ERROR: ...` and exit code 3'
        if not good:
            viol.append(dict(what='%s: %s -- expected %s and no task executed; got %s, executed %s' % (how(case), f['why'], want, got, r['marks']),
                             shape='c18:entry-point:%s-accepted:%s' % (f['cls'], e), case=desc))
        return viol
    if f:
        return viol              # a fault of the task set and a command that does not build the task graph: no traceback is all that is asked
    ok_rc = (0, 1) if cmd == 'info' else (0,)
    if r['rc'] not in ok_rc or r['raised']:
        viol.append(dict(what='%s: valid namespace (creators %s), got %s: %s' % (how(case), [c['name'] for c in case['creators']],
                                                                                 r['raised'] or 'exit code %s' % r['rc'], r['se'][:200]),
                         shape='c18:entry-point:valid-rejected', case=desc))
        return viol
    if cmd == 'run' and sorted(r['marks']) != declared_marks(case):
        viol.append(dict(what='%s: expected the execution of %s, executed %s' % (how(case), declared_marks(case), sorted(r['marks'])),
                         shape='c18:entry-point:valid-wrong-tasks', case=desc))
    if cmd in PLUGIN_CMDS:
        got = [l for l in r['so'].split('\n') if l.strip()]
        if got != declared_names(case):
            viol.append(dict(what='%s: the plugin command printed the tasks %s, the creators define %s in this order' % (how(case), got, declared_names(case)),
                             shape='c18:entry-point:valid-wrong-tasks', case=desc))
    if cmd == 'list' and '--all' in case['argv']:
        got = sorted(l.split()[0] for l in r['so'].split('\n') if l.strip())
        if got != sorted(declared_names(case)):
            viol.append(dict(what='%s: printed %s, the creators define %s' % (how(case), got, sorted(declared_names(case))),
                             shape='c18:entry-point:valid-wrong-tasks', case=desc))
    return viol


def model_case(case, r):
    cmd = case['argv'][0]
    if cmd not in MODELLED_CMDS:
        return None
    core = '[' + '; '.join(B.cstr(x) for x in DOCUMENTED_CMDS) + ']'
    plug = '[' + '; '.join(B.cstr(x) for x in case['plugins']) + ']'
    model = 'ER %s %s %s %s %s %s' % (ECOQ[case['entry']], 'true' if cmd in CONTROL_CMDS else 'false', core, plug,
                                      'true' if cmd == 'run' else 'false', V.creators_coq(case['creators']))
    tb = 1 if ('Traceback' in r['so'] + r['se'] or r['rc'] == 98) else 0
    return dict(model=model, expected=[3 if r['rc'] == 98 else r['rc'], tb], desc=('entry-point', case['label']))


# ------------------------------------------------------------------ run
def run_part(ctx, out, model_cases):
    with V.cached_entry_points():
        return _run_part(ctx, out, model_cases)


def _run_part(ctx, out, model_cases):
    # the documented command list is an input of the oracle: say so loudly when the code has another one
    from doit.doit_cmd import DoitMain
    have = sorted(DoitMain(config_filenames=()).get_cmds().keys())
    if have != sorted(DOCUMENTED_CMDS):
        out.violations.append(dict(what='the core commands of doit are %s, the documentation lists %s' % (have, sorted(DOCUMENTED_CMDS)),
                                   shape='c18:entry-point:command-list', case=dict(part='entry-point-commands', have=have)))
    cases = gen_cases(ctx)
    inproc = [c for c in cases if c['entry'] in IN_PROCESS]
    sub = [c for c in cases if c['entry'] in SUBPROCESS]
    results = [(c, observe(ctx, c)) for c in inproc]
    from concurrent.futures import ThreadPoolExecutor
    with ThreadPoolExecutor(max_workers=max(2, min(8, common.NCPU // 2))) as ex:
        results += list(zip(sub, ex.map(lambda c: observe(ctx, c), sub)))
    stats = dict(cases=len(cases), in_process=len(inproc), command_line=len(sub), expected_invalid=0, expected_valid=0, compared_with_model=0)
    for c, r in results:
        out.violations.extend(judge(c, r))
        m = model_case(c, r)
        if m:
            model_cases.append(m)
            stats['compared_with_model'] += 1
        inv = expected_invalid(c)
        stats['expected_invalid' if inv else 'expected_valid'] += 1
        out.count('entry:%s:%s' % (c['entry'], (c['fault']['cls'] if c['fault'] else 'valid')))
        out.count('entry-cmd:%s:exit%s' % (c['argv'][0], r['rc']))
        out.count('entry-config:%s:%d-plugin-commands' % (c['cfg_via'], len(c['plugins'])))
        out.nontrivial.add(('entry-point', str(c['label'])))
    out.extra['entry_points'] = stats
    for c, r in results[:1] + [x for x in results if x[0]['label'][0] == 'random'][:1]:
        out.samples.append(public(c, r))
    return cases


# ------------------------------------------------------------------ replay
def replay(ctx, case):
    if case.get('part') == 'entry-point-commands':
        print('core commands of the code:', case['have'], 'documented:', sorted(DOCUMENTED_CMDS))
        return 1
    c = dict(label=tuple(case['label']), entry=case['entry'], kind=case['kind'], argv=list(case['argv']), select=list(case['select']),
             plugins=list(case['plugins']), cfg_via=case['cfg_via'], fault=case['fault'],
             creators=[dict(name=x['name'], result=V._tup(x['result']), delayed=V._tup_delayed(x.get('delayed'))) for x in case['creators']])
    print('----- namespace (dodo.py / script.py / the module given to ModuleTaskLoader)')
    print('\n'.join(case.get('dodo') or []))
    print('----- configuration (%s)' % ('doit.cfg' if c['cfg_via'] == 'file' else 'extra_config'))
    print('\n'.join(case.get('config') or []))
    print('----- entry point:', how(c))
    print('declared fault:', c['fault']['why'] if c['fault'] else 'none (valid namespace)')
    with V.cached_entry_points():
        r = observe(ctx, c)
    print('observed: exit %s%s, executed %s, stderr %r' % (r['rc'], ' (raised %s)' % r['raised'] if r['raised'] else '', r['marks'], r['se'][:300]))
    viol = judge(c, r)
    for v in viol:
        print('VIOLATED:', v['what'])
    if not viol:
        print('no violation: the property holds on this input')
    return 1 if viol else 0
