"""C03 -- a stale task is never skipped (up-to-date soundness over histories).
(C04, the converse, shares everything here: harness/c04.py imports this module.)

Correspondence: a history over the operation alphabet of Model/History.v
    Write f c | Touch f | WriteAt f c m | TouchAt f m | Delete f | WriteSameMtime f c | SetDef t def | SetChecker c | SaveOk t |
    Remove t | Ignore t | ResetDep t | ForgetAll | Check t | CheckLog t        (+ Reopen: harness only)
is executed against the REAL doit.dependency.Dependency on each backend (JsonDB, DbmDB, SqliteDB)
in a temp dir, with real doit.task.Task objects rebuilt for every operation, files written with
mtimes taken from the harness clock (os.utime, in quarters of a second, so that different mtimes can share a whole second) -- and inside Coq with
`observe [0;1;2] [0;1;2] (run md5 size_of current ops)`.

  Check t     = dep.get_status(task, tasks).status + task.dep_changed
  SaveOk t    = the real Runner.process_task_result(node, None)  (save_extra_values, save_success,
                FileNotFoundError -> remove_success) after the uptodate items were evaluated once on
                that Task object, as Runner.select_task always does (that registers the value-savers)
  Remove t    = dep.remove_success(task);  Ignore t = dep.ignore(task);  ForgetAll = dep.remove_all()
  ResetDep t  = the real ResetDep._execute([t]) (cmd_resetdep.py) on this dep manager
  SetChecker  = close the DB, open it again with the other checker class (a new doit process)
  Reopen      = close the DB and open it again (not an operation of the model: backends are maps)

Encoding (list of ints, identical on both sides; see obs_z / rec_z / observe in History.v):
  per logged operation: Check [1; t; status; mask(dep_changed)]  (status 0 up-to-date, 1 run, 2 error, 98 TypeError)
                        CheckLog [2; t; status; mask(dep_changed); #uptodate_false; no_deps; mask(missing_target);
                                  10*prev+cur checker or 0; mask(added) or -1; mask(removed) or -1;
                                  mask(missing_file_dep); mask(changed_file_dep)]
                                 (the status of CheckLog is the one the FIRST reason decided -- the repaired DependencyStatus,
                                  fixL of Model/Status.v --: the verdict `Check` gives on the same state, C03_get_log_agrees_every_verdict)
                        SaveOk [3; t; 0 | 10+f (missing file f) | 98]      ResetDep [4; t; 0 failed | 1 skip | 2 processed | 98]
  then -7, then for each task the logical DB record read back after close/re-open:
      [0] | [1; mask(deps) or -1; len(deps) or -1; checker 0/1/2; result id or -1; ignore] ++ 4 ints per file
      (0,0,0,0 none | 1,mtime,size,digest id | 2,mtime,0,0) ++ one int per value key (-2 absent, -1 None, n)
  then -7 and the crash flag.  mtimes are harness-clock numbers (BASE subtracted); sets are bit masks.

Independent oracles (no use of the model): a Python shadow remembers, per task, what the last
successful SaveOk / processed ResetDep observed (definition, checker, (mtime,size,content) of each
file dep) and evaluates the conditions of C03 (and, for C04, their converse) on the live state.

Histories: scripted + random over the whole alphabet + the family `utd-flip` (gen_flip: file deps AND uptodate
items whose truth changes between runs; an edit of a file dep before a run in which an item is false -- get_status
then leaves before it compares any file -- and afterwards the file put back to a version an EARLIER successful
execution saw: stale, or rewritten/left so that the checker calls it unmodified w.r.t. the LAST one: unchanged),
at the level of the operations on the three backends and as whole `doit run` command lines (explore_e2e).
The first oracle finding of each shape is shrunk (shrink: greedy removal of operations, then of items of a definition).

Family `session` (harness/c03_session.py, run from run() below; object model: coq/Model/ItemObj.v): everything above creates its Task and
uptodate item objects anew for every operation / command line, as a `doit` process does.  There the dodo namespace OUTLIVES one run:
several DoitMain.run / doit.api.run_tasks calls, commands and process restarts over one namespace whose configuration dicts, flags,
result sources and DOIT_CONFIG are edited IN PLACE between the runs, with item instances created once per process (shared by tasks),
once per load, or detached; judged by a shadow of the items' declared inputs, compared with run_task of History.v and, for one real
config_changed instance, with cc_life of ItemObj.v.
"""
import io, os, sys, hashlib, json
import common
from common import Outcome

PRE = ('From DoitV Require Import Base Status History.\nOpen Scope Z_scope.\n'
       'Definition md5o (c : N) : N := c.\n'
       'Definition sizeo (c : N) : Z := match c with 0%N => 4 | 1%N => 4 | 2%N => 2 | 3%N => 4 | 4%N => 0 | _ => 7 end.\n'
       'Definition obsv (ops : list op) : list Z := observe [0;1;2]%N [0;1;2]%N (run md5o sizeo current ops).\n')
BASE = 1600000000
CONTENT = {0: b'aaaa', 1: b'bbbb', 2: b'cc', 3: b'dddd', 4: b''}
DIGEST = {hashlib.md5(b).hexdigest(): c for c, b in CONTENT.items()}
NT, NF = 3, 3
RESULT_MD5 = {hashlib.md5(('res%d' % i).encode()).hexdigest(): i for i in range(8)}
VKEYS = ['run-once', '_config_changed', 'u0', 'u1', 'u2', '_result:T0', '_result:T1', '_result:T2']
CK_NAME = {'md5': 'MD5Checker', 'ts': 'TimestampChecker'}
CK_Z = {'MD5Checker': 1, 'TimestampChecker': 2, None: 0}
STATUS_Z = {'up-to-date': 0, 'run': 1, 'error': 2}
CFG_DIGEST = {}     # md5 of a configuration dict -> content id (filled by c03_session.py, which uses dict configurations)


def mask(xs):
    m = 0
    for x in xs:
        m |= 1 << x
    return m


# ------------------------------------------------------------------ the operations in Coq syntax
def utd_coq(u):
    k = u[0]
    if k == 'bool':
        return 'UBool %s' % ('true' if u[1] else 'false')
    if k == 'none':
        return 'UNone'
    if k in ('call', 'cmd'):
        return 'UOpaque %s' % {True: '(Some true)', False: '(Some false)', None: 'None'}[u[1]]
    if k == 'run_once':
        return 'URunOnce'
    if k == 'config':
        return 'UConfig %d' % u[1]
    if k == 'result_dep':
        return 'UResultDep %d' % u[1]
    raise ValueError(u)


def def_coq(d):
    vals = '; '.join('(%d, %s)' % (2 * k + 2, 'None' if x is None else 'Some %d' % x) for k, x in d['values'])
    return ('{| file_dep := [%s]; targets := [%s]; uptodate := [%s]; act_values := [%s]; act_result := %s |}' % (
        '; '.join(map(str, d['file_dep'])), '; '.join(map(str, d['targets'])),
        '; '.join(utd_coq(u) for u in d['uptodate']), vals,
        'None' if d['result'] is None else 'Some %d' % d['result']))


def op_coq(o):
    k = o[0]
    if k in ('Write', 'WriteSameMtime'):
        return '%s %d %d' % (k, o[1], o[2])
    if k == 'WriteAt':
        return 'WriteAt %d %d %s' % (o[1], o[2], '(%d)' % o[3] if o[3] < 0 else o[3])
    if k == 'TouchAt':
        return 'TouchAt %d %s' % (o[1], '(%d)' % o[2] if o[2] < 0 else o[2])
    if k in ('Touch', 'Delete', 'SaveOk', 'Remove', 'Ignore', 'ResetDep', 'Check', 'CheckLog'):
        return '%s %d' % (k, o[1])
    if k == 'SetDef':
        return 'SetDef %d %s' % (o[1], def_coq(o[2]))
    if k == 'SetChecker':
        return 'SetChecker %s' % ('MD5' if o[1] == 'md5' else 'TS')
    if k == 'ForgetAll':
        return 'ForgetAll'
    raise ValueError(o)


def model_expr(history):
    ops = [op_coq(o) for o in history if o[0] != 'Reopen']
    return 'obsv ([%s]%%N)' % '; '.join(ops)


# ------------------------------------------------------------------ the real thing
class NullReporter:
    def add_success(self, task):
        pass

    def add_failure(self, task, fail):
        pass


class World:
    """one history on one backend"""
    def __init__(self, ctx, backend, tag):
        from doit import dependency as D
        self.D = D
        self.dir = ctx.subdir('w')          # one directory for every run: the path strings fix the set order
        for f in os.listdir(self.dir):
            os.remove(os.path.join(self.dir, f))
        self.backend = backend
        self.db_class = {'json': D.JsonDB, 'dbm': D.DbmDB, 'sqlite': D.SqliteDB}[backend]
        self.dbpath = os.path.join(self.dir, 'deps.' + backend)
        self.ck = 'md5'
        self.dep = None
        self.clock = 1
        self.defs = {t: dict(file_dep=[], targets=[], uptodate=[], values=[], result=None) for t in range(NT)}
        self.fsview = {}            # shadow file system: f -> (mtime, size, content id)
        self.seen = {}              # (f, mtime) -> (size, content id): every version a file ever had
        self.not_fresh = False      # some file carried one mtime with two different contents (FS-fresh broken)
        self.open()

    def path(self, f):
        return os.path.join(self.dir, 'f%d' % f)

    def fileno(self, p):
        return int(os.path.basename(p)[1:])

    def open(self):
        cls = self.D.MD5Checker if self.ck == 'md5' else self.D.TimestampChecker
        self.dep = self.D.Dependency(self.db_class, self.dbpath, cls)

    def reopen(self):
        self.dep.close()
        self.open()

    # ---- task objects
    def make_utd(self, u):
        from doit import tools, task as T
        k = u[0]
        if k == 'bool':
            return u[1]
        if k == 'none':
            return None
        if k == 'call':
            r = u[1]
            return lambda: r
        if k == 'cmd':
            return 'true' if u[1] else 'false'
        if k == 'run_once':
            return tools.run_once
        if k == 'config':
            return tools.config_changed('cfg%d' % u[1])
        if k == 'result_dep':
            return T.result_dep('T%d' % u[1])
        raise ValueError(u)

    def task(self, t):
        from doit.task import Task
        d = self.defs[t]
        return Task('T%d' % t, None, file_dep=[self.path(f) for f in sorted(d['file_dep'])],   # canonical insertion order, see fix_orders
                    targets=[self.path(f) for f in d['targets']],
                    uptodate=[self.make_utd(u) for u in d['uptodate']])

    def tasks(self):
        ts = [self.task(t) for t in range(NT)]
        return {x.name: x for x in ts}

    def dep_order(self, t):
        """iteration order of the real set task.file_dep (the model's file_dep list)"""
        return [self.fileno(p) for p in self.task(t).file_dep]

    def eval_items(self, t):
        """truth values of the uptodate items, obtained from the real item objects exactly as
        get_status calls them (dependency.py 627-661); no DB mutation"""
        import inspect, subprocess
        from doit.dependency import UptodateCalculator
        from doit.task import result_dep
        tasks = self.tasks()
        task = tasks['T%d' % t]
        res = []
        for utd, args, kwargs in task.uptodate:
            if hasattr(utd, '__call__'):
                if isinstance(utd, UptodateCalculator):
                    utd.setup(self.dep, tasks)
                spec = list(inspect.signature(utd).parameters.keys())
                magic = []
                for i, nm in enumerate(spec):
                    if i == 0 and nm == 'task':
                        magic.append(task)
                    elif i == 1 and nm == 'values':
                        magic.append(self.dep.get_values(task.name))
                r = utd(*(magic + args), **kwargs)
                if isinstance(utd, result_dep) and not getattr(tasks.get(utd.dep_name), 'has_subtask', False):
                    # the oracle's own reading of what result_dep means (documented rule): true iff the result
                    # recorded at this task's last successful execution exists and equals the other task's saved
                    # result now -- not whatever the item object answers
                    last = self.dep.get_values(task.name).get('_result:%s' % utd.dep_name)
                    r = last is not None and last == self.dep.get_result(utd.dep_name)
            elif isinstance(utd, str):
                r = subprocess.call(utd, shell=True, stderr=subprocess.DEVNULL, stdout=subprocess.DEVNULL) == 0
            else:
                r = utd
            res.append(None if r is None else bool(r))
        return res

    # ---- operations; each returns the ints it logs
    def apply(self, o):
        k = o[0]
        try:
            return getattr(self, 'op_' + k)(*o[1:])
        except Exception as e:  # noqa -- machinery/implementation failure becomes an observable
            return [97, len(type(e).__name__)]

    def _write(self, f, c, m):
        p = self.path(f)
        with open(p, 'wb') as fh:
            fh.write(CONTENT[c])
        # harness-clock unit = a quarter of a second: distinct mtimes may fall into the same whole second
        ns = BASE * 10 ** 9 + m * 250000000
        os.utime(p, ns=(ns, ns))
        self.fsview[f] = (m, len(CONTENT[c]), c)
        if self.seen.setdefault((f, m), (len(CONTENT[c]), c)) != (len(CONTENT[c]), c):
            self.not_fresh = True
            self.seen[(f, m)] = (len(CONTENT[c]), c)

    def op_WriteAt(self, f, c, m):
        self._write(f, c, m)
        return []

    def op_TouchAt(self, f, m):
        if f in self.fsview:
            self._write(f, self.fsview[f][2], m)
        return []

    def op_Write(self, f, c):
        self._write(f, c, self.clock)
        self.clock += 1
        return []

    def op_Touch(self, f):
        if f in self.fsview:
            self._write(f, self.fsview[f][2], self.clock)
        self.clock += 1
        return []

    def op_Delete(self, f):
        if f in self.fsview:
            os.remove(self.path(f))
            del self.fsview[f]
        return []

    def op_WriteSameMtime(self, f, c):
        if f in self.fsview:
            m, sz, _ = self.fsview[f]
            if len(CONTENT[c]) != sz:
                # only generated with equal sizes (the model keeps the size); anything else is a harness bug
                raise AssertionError('WriteSameMtime with another size')
            self._write(f, c, m)
        return []

    def op_SetDef(self, t, d):
        self.defs[t] = d
        return []

    def op_SetChecker(self, c):
        self.dep.close()
        self.ck = c
        self.open()
        return []

    def op_Reopen(self):
        self.reopen()
        return []

    def _status(self, t, get_log):
        tasks = self.tasks()
        task = tasks['T%d' % t]
        try:
            res = self.dep.get_status(task, tasks, get_log=get_log)
            st = STATUS_Z.get(res.status, 96)
        except TypeError:
            res, st = None, 98
        ch = mask(self.fileno(p) for p in (task.dep_changed or []))
        return res, st, ch

    def op_Check(self, t):
        res, st, ch = self._status(t, False)
        self.last_check = st
        return [1, t, st, ch]

    def op_CheckLog(self, t):
        res, st, ch = self._status(t, True)
        out = [2, t, st, ch]
        if res is None:
            return out + [0, 0, 0, 0, -1, -1, 0, 0]
        rs = res.reasons
        fm = lambda key: mask(self.fileno(p) for p in rs[key]) if key in rs else 0
        fo = lambda key: mask(self.fileno(p) for p in rs[key]) if key in rs else -1
        cc = 0
        if 'checker_changed' in rs:
            cc = 10 * CK_Z[rs['checker_changed'][0]] + CK_Z[rs['checker_changed'][1]]
        return out + [len(rs['uptodate_false']) if 'uptodate_false' in rs else 0,
                      1 if rs.get('has_no_dependencies') else 0, fm('missing_target'), cc,
                      fo('added_file_dep'), fo('removed_file_dep'), fm('missing_file_dep'), fm('changed_file_dep')]

    def op_SaveOk(self, t):
        from doit.runner import Runner
        from doit.control import ExecNode
        tasks = self.tasks()
        task = tasks['T%d' % t]
        # evaluate the uptodate items on this Task object (registers run_once/result_dep savers,
        # computes config_changed's digest) the way select_task's get_status call does -- with the
        # one DB mutation of get_status (record removal on checker change) disabled, because the
        # operation `SaveOk` is the recording step only
        real_remove = self.dep.remove
        self.dep.remove = lambda name: None
        try:
            try:
                self.dep.get_status(task, tasks)
            except TypeError:
                pass
        finally:
            self.dep.remove = real_remove
        d = self.defs[t]
        task.values = {('u%d' % k): x for k, x in d['values']}
        task.result = None if d['result'] is None else 'res%d' % d['result']
        runner = Runner(self.dep, NullReporter())
        node = ExecNode(task, None)
        missing = [f for f in self.dep_order(t) if f not in self.fsview]
        try:
            runner.process_task_result(node, None)
        except TypeError:
            return [3, t, 98]
        if node.run_status == 'successful':
            return [3, t, 0]
        return [3, t, 10 + (missing[0] if missing else 55)]

    def op_Remove(self, t):
        self.dep.remove_success(self.task(t))
        return []

    def op_Ignore(self, t):
        self.dep.ignore(self.task(t))
        return []

    def op_ForgetAll(self):
        self.dep.remove_all()
        return []

    def op_ResetDep(self, t):
        from doit.cmd_resetdep import ResetDep
        tasks = self.tasks()
        cmd = ResetDep.__new__(ResetDep)
        cmd.task_list = list(tasks.values())
        cmd.outstream = io.StringIO()
        real_close = self.dep.close
        self.dep.close = lambda: None
        cmd.dep_manager = self.dep
        try:
            try:
                cmd._execute(['T%d' % t])
                txt = cmd.outstream.getvalue()
                code = 0 if txt.startswith('failed') else 1 if txt.startswith('skip') else 2 if txt.startswith('processed') else 95
            except TypeError:
                code = 98
        finally:
            self.dep.close = real_close
        return [4, t, code]

    # ---- logical DB content, read back through a fresh Dependency
    def dump(self):
        self.reopen()
        dep = self.dep
        out = []
        present = [dep._in('T%d' % t) for t in range(NT)]     # before any get (SqliteDB.in_ after a get-miss)
        for t in range(NT):
            name = 'T%d' % t
            if not present[t]:
                out.append(0)
                continue
            deps = dep._get(name, 'deps:')
            res = dep._get(name, 'result:')
            out += [1, -1 if deps is None else mask(self.fileno(p) for p in deps), -1 if deps is None else len(deps),
                    CK_Z.get(dep._get(name, 'checker:'), 94), -1 if res is None else RESULT_MD5.get(res, 93),
                    1 if dep._get(name, 'ignore:') else 0]
            for f in range(NF):
                st = dep._get(name, self.path(f))
                if st is None:
                    out += [0, 0, 0, 0]
                elif isinstance(st, (list, tuple)):
                    out += [1, int(round((st[0] - BASE) * 4)), st[1], DIGEST.get(st[2], 92)]
                else:
                    out += [2, int(round((st - BASE) * 4)), 0, 0]
            vals = dep.get_values(name)
            for key in VKEYS:
                if key not in vals:
                    out.append(-2)
                    continue
                x = vals[key]
                if x is None:
                    out.append(-1)
                elif key == '_config_changed':
                    out.append(int(x[3:]) if isinstance(x, str) and x.startswith('cfg') else CFG_DIGEST.get(x, 91))
                elif key.startswith('_result:'):
                    out.append(RESULT_MD5.get(x, 93))
                else:
                    out.append(int(x))
        return out

    def finish(self):
        try:
            self.dep.close()
        except Exception:
            pass


# ------------------------------------------------------------------ the shadow (property oracles)
class Shadow:
    """what the last successful execution / reset-dep of each task observed; never looks at the DB"""
    def __init__(self):
        self.last_ok = {}
        self.fresh = True        # hypothesis FS-fresh so far: no file carried one mtime with two different contents
        self.crashed = False

    @staticmethod
    def unmodified(ck, then, now):
        """the checker's documented rule: ts = equal mtime; md5 = equal mtime, or equal size and content"""
        if ck == 'ts':
            return then[0] == now[0]
        return then[0] == now[0] or (then[1] == now[1] and then[2] == now[2])

    def conditions(self, w, t, items):
        """(sound, complete): `sound` = every condition C03 demands of an up-to-date verdict holds;
        `complete` = the hypotheses of C04 hold (then the verdict must be up-to-date).
        A snapshot taken under another checker may have been deleted by an earlier get_status (the
        documented exception; it happens only if that call got as far as its checker test, which the
        shadow does not track): then an up-to-date verdict may be justified by the snapshot or by
        its absence, and nothing is demanded."""
        d = w.defs[t]
        fd = set(d['file_dep'])
        snap = self.last_ok.get(t)
        if snap is not None and snap['ck'] != w.ck:
            snap['maybe_removed'] = True
        items_ok = all(x is not False for x in items)
        some = bool(fd) or any(x is not None for x in items)
        targets_ok = all(f in w.fsview for f in d['targets'])

        def files_ok(sn):
            if sn is None:
                return not fd
            return (sn['ck'] == w.ck and set(sn['file_dep']) == fd and
                    all(f in w.fsview and self.unmodified(w.ck, sn['view'][f], w.fsview[f]) for f in fd))
        base = items_ok and some and targets_ok
        if snap is not None and snap.get('maybe_removed'):
            return base and (files_ok(snap) or files_ok(None)), False
        ok = base and files_ok(snap)
        return ok, ok

    def after(self, w, o, logged, out):
        k = o[0]
        if w.not_fresh:
            self.fresh = False
        if k == 'SaveOk' or k == 'ResetDep':
            t = o[1]
            code = logged[2]
            if (k == 'SaveOk' and code == 0) or (k == 'ResetDep' and code == 2):
                d = w.defs[t]
                self.last_ok[t] = dict(ck=w.ck, file_dep=list(d['file_dep']), view={f: w.fsview[f] for f in d['file_dep']})
            elif k == 'SaveOk' or code == 98:
                self.last_ok.pop(t, None)
        elif k == 'Remove':
            self.last_ok.pop(o[1], None)
        elif k == 'ForgetAll':
            self.last_ok = {}
        if logged and logged[0] in (1, 2, 3, 4) and logged[2] == 98:
            self.crashed = True


def judge(w, sh, o, items, logged, out, history, backend):
    """property oracles at a Check (get_log False and True give the same verdict on these conditions)"""
    t = o[1]
    st = logged[2]
    if st == 98:
        out.violations.append(dict(what='get_status raised TypeError (state saved by another checker was re-used)',
                                   shape='checker-switch-typeerror', case=dict(history=history, backend=backend)))
        return
    if not sh.fresh or sh.crashed:
        return
    sound, complete = sh.conditions(w, t, items)
    snap = sh.last_ok.get(t)
    if st == 0 and not sound:
        d = w.defs[t]
        if snap is not None and not snap['file_dep'] and d['file_dep']:
            shape = 'depset-change-through-empty-deps'
        else:
            shape = 'c03-stale-skipped'
        out.violations.append(dict(what='task reported up-to-date although a condition of C03 fails (stale task would be skipped)',
                                   shape=shape, case=dict(history=history, backend=backend, task=t)))
    if st == 1 and complete and o[0] == 'Check':
        out.c04_violations.append(dict(what='task reported not up-to-date although nothing changed since its last successful execution',
                                       shape='c04-unchanged-rerun', case=dict(history=history, backend=backend, task=t)))
    if st == 2 and complete:
        out.c04_violations.append(dict(what='dependency error reported although every file dependency exists',
                                       shape='c04-unchanged-error', case=dict(history=history, backend=backend, task=t)))


def run_history(ctx, backend, history, out, tag='h'):
    """returns the list of ints observed on the implementation"""
    w = World(ctx, backend, tag + '-' + backend)
    sh = Shadow()
    obs = []
    try:
        for o in history:
            items = None
            if o[0] in ('Check', 'CheckLog'):
                try:
                    items = w.eval_items(o[1])
                except Exception:
                    items = None
            logged = w.apply(o)
            obs += logged
            if o[0] in ('Check', 'CheckLog') and items is not None and logged and logged[0] in (1, 2):
                judge(w, sh, o, items, logged, out, history, backend)
            if o[0] in ('SaveOk', 'ResetDep') and logged and logged[-1] == 98:
                out.violations.append(dict(what='%s raised TypeError (state saved by another checker was re-used)' % o[0],
                                           shape='checker-switch-typeerror', case=dict(history=history, backend=backend)))
            sh.after(w, o, logged, out)
        try:
            dump = w.dump()
        except Exception as e:  # noqa
            dump = [97, len(type(e).__name__)]
        obs += [-7] + dump + [-7, 1 if sh.crashed else 0]
    finally:
        w.finish()
    return obs


# ------------------------------------------------------------------ generators
def fix_orders(ctx, history):
    """file_dep lists of the model must be in the iteration order of the real Python set task.file_dep
    (it decides which missing file save_success meets first).  That order depends on the path strings and
    on the insertion order, so every real Task is built from the SORTED list and the model gets the
    iteration order a real Task built that way shows."""
    from doit.task import Task
    d = ctx.subdir('w')
    out = []
    for o in history:
        if o[0] == 'SetDef':
            df = dict(o[2])
            t = Task('x', None, file_dep=[os.path.join(d, 'f%d' % f) for f in sorted(df['file_dep'])])
            df['file_dep'] = [int(os.path.basename(p)[1:]) for p in t.file_dep]
            o = ('SetDef', o[1], df)
        out.append(o)
    return out


def gen_utd(rng, t):
    r = rng.random()
    if r < 0.30:
        return ('bool', rng.random() < 0.75)
    if r < 0.38:
        return ('none',)
    if r < 0.52:
        return ('call', rng.choice([True, True, False, None]))
    if r < 0.57:
        return ('cmd', rng.random() < 0.7)
    if r < 0.72:
        return ('run_once',)
    if r < 0.86:
        return ('config', rng.randrange(3))
    return ('result_dep', rng.choice([x for x in range(NT) if x != t]))


def gen_def(rng, t):
    nfd = rng.choice([0, 1, 1, 1, 2, 2, 3])
    fd = rng.sample(range(NF), nfd)
    tg = rng.sample(range(NF), rng.choice([0, 0, 0, 1, 1, 2]))
    nu = rng.choice([0, 0, 1, 1, 1, 2, 3]) if fd else rng.choice([0, 1, 1, 2, 3])
    utd = [gen_utd(rng, t) for _ in range(nu)]
    vals = [(k, rng.choice([None, 0, 1, 5])) for k in rng.sample(range(3), rng.choice([0, 0, 1, 2]))]
    return dict(file_dep=fd, targets=tg, uptodate=utd, values=vals, result=rng.choice([None, None, 0, 1, 2]))


def mutate_def(rng, t, d):
    d = dict(d, file_dep=list(d['file_dep']), targets=list(d['targets']), uptodate=list(d['uptodate']), values=list(d['values']))
    r = rng.random()
    if r < 0.4:       # add / remove one file dep
        f = rng.randrange(NF)
        if f in d['file_dep']:
            d['file_dep'].remove(f)
        else:
            d['file_dep'].append(f)
    elif r < 0.55:
        f = rng.randrange(NF)
        if f in d['targets']:
            d['targets'].remove(f)
        else:
            d['targets'].append(f)
    elif r < 0.8:
        if d['uptodate'] and rng.random() < 0.5:
            d['uptodate'].pop(rng.randrange(len(d['uptodate'])))
        else:
            d['uptodate'].append(gen_utd(rng, t))
    elif r < 0.9:
        d['result'] = rng.choice([None, 0, 1, 2, 3])
    else:
        return gen_def(rng, t)
    return d


def gen_history(rng, n_ops, allow_same_mtime):
    h = [('SetChecker', rng.choice(['md5', 'md5', 'ts']))]
    defs = {}
    content = {}
    for f in range(NF):
        if rng.random() < 0.8:
            c = rng.randrange(5)
            h.append(('Write', f, c)); content[f] = c
    for t in range(NT):
        if t < 2 or rng.random() < 0.6:
            defs[t] = gen_def(rng, t)
            h.append(('SetDef', t, defs[t]))
    for t in defs:
        if rng.random() < 0.6:
            h.append(('SaveOk', t))
    for _ in range(n_ops):
        r = rng.random()
        t = rng.choice(list(defs) or [0])
        f = rng.randrange(NF)
        if r < 0.22:
            h.append(('Check', t))
        elif r < 0.27:
            h.append(('CheckLog', t))
        elif r < 0.42:
            h.append(('SaveOk', t))
        elif r < 0.52:
            c = rng.randrange(5)
            if f in content and rng.random() < 0.3:
                c = content[f]           # rewrite with the same content
            h.append(('Write', f, c)); content[f] = c
        elif r < 0.58:
            h.append(('Touch', f))
        elif r < 0.63:
            h.append(('Delete', f)); content.pop(f, None)
        elif r < 0.75:
            defs[t] = mutate_def(rng, t, defs.get(t) or gen_def(rng, t))
            h.append(('SetDef', t, defs[t]))
        elif r < 0.80:
            h.append(('SetChecker', rng.choice(['md5', 'ts'])))
        elif r < 0.84:
            h.append(('Remove', t))
        elif r < 0.87:
            h.append(('Ignore', t))
        elif r < 0.93:
            h.append(('ResetDep', t))
        elif r < 0.94:
            h.append(('ForgetAll',))
        elif r < 0.97:
            h.append(('Reopen',))
        elif allow_same_mtime and f in content:
            same = [c for c in CONTENT if len(CONTENT[c]) == len(CONTENT[content[f]]) and c != content[f]]
            if same:
                c = rng.choice(same)
                h.append(('WriteSameMtime', f, c)); content[f] = c
        else:
            h.append(('Check', t))
    # always end by asking about every defined task
    for t in defs:
        h.append(('Check', t))
    return h


def vary_mtimes(rng, h, allow_notfresh, out, p=0.45):
    """rewrites some Write/Touch operations of a history into WriteAt/TouchAt with an ARBITRARY mtime:
    older than the file's current one (cp -p, tar, rsync -t, restoring a backup), far ahead of the clock,
    or an mtime the file had before -- with the content it had then (restore: fine) or, only in the
    not-FS-fresh family, with another content (the md5 same-mtime caveat).  Simulates clock and versions
    to classify; counts every kind in the evidence (mtime:*)."""
    clock, cur, seen, res = 1, {}, {}, []

    def record(f, m, c):
        cur[f] = (m, c)
        seen.setdefault(f, {}).setdefault(m, c)

    for o in h:
        k = o[0]
        if k in ('Write', 'Touch') and (k == 'Write' or o[1] in cur) and rng.random() < (p + 0.25 if o[1] in cur else p / 3):
            f = o[1]
            c = o[2] if k == 'Write' else cur[f][1]
            olds = seen.get(f, {})
            kinds = ['backward', 'backward', 'forward']
            if f in cur:
                kinds += ['backward-below-current']
            if any(cc == c for cc in olds.values()):
                kinds += ['reuse-same-content', 'reuse-same-content']
            if k == 'Write' and f in cur and any(mm != cur[f][0] for mm in olds):
                kinds += ['restore-old-version', 'restore-old-version']
            if allow_notfresh and any(cc != c for cc in olds.values()):
                kinds += ['reuse-other-content'] * 6
            kind = rng.choice(kinds)
            if kind == 'restore-old-version':       # an earlier version comes back as it was: content AND mtime
                m, c = rng.choice([(mm, cc) for mm, cc in olds.items() if mm != cur[f][0]])
            elif kind == 'backward':
                m = -rng.randrange(1, 40)
            elif kind == 'backward-below-current':
                m = cur[f][0] - rng.randrange(1, 6)
            elif kind == 'forward':
                m = max(clock, cur[f][0] if f in cur else 0) + rng.randrange(40, 90)
            elif kind == 'reuse-same-content':
                m = rng.choice([mm for mm, cc in olds.items() if cc == c])
            else:
                m = rng.choice([mm for mm, cc in olds.items() if cc != c])
            # classify by what it really is w.r.t. the versions seen (a picked value may hit one by chance)
            if m in olds:
                real = 'reuse-same-content' if olds[m] == c else 'reuse-other-content'
                if real == 'reuse-other-content' and not allow_notfresh:
                    m = -rng.randrange(41, 400)
                    while m in olds:
                        m -= 1
                    real = 'backward'
            elif f in cur and m < cur[f][0]:
                real = 'backward'
            elif f in cur:
                real = 'forward'
            else:
                real = 'create'
            if f in cur and m == cur[f][0]:
                real += '+equal-current'
            out.count('mtime:%s:%s' % ('write' if k == 'Write' else 'touch', real))
            res.append(('WriteAt', f, c, m) if k == 'Write' else ('TouchAt', f, m))
            record(f, m, c)
            continue
        if k == 'Write':
            if o[1] in cur and clock < cur[o[1]][0]:
                out.count('mtime:write:clock-behind-file')      # a forward-clock write that is older than the file
            record(o[1], clock, o[2]); clock += 1
        elif k == 'Touch':
            if o[1] in cur:
                record(o[1], clock, cur[o[1]][1])
            clock += 1
        elif k == 'Delete':
            cur.pop(o[1], None)
        elif k == 'WriteSameMtime' and o[1] in cur:
            cur[o[1]] = (cur[o[1]][0], o[2])
        res.append(o)
    return res


def D(fd=(), tg=(), utd=(), values=(), result=None):
    return dict(file_dep=list(fd), targets=list(tg), uptodate=list(utd), values=list(values), result=result)


def scripted():
    """enumerated histories: the interactions named in the property's why_tests_cant, the two repaired
    defects (regression), the md5 optimisation and its limit"""
    T = ('bool', True)
    hs = []
    for ck in ('md5', 'ts'):
        other = 'ts' if ck == 'md5' else 'md5'
        S = [('SetChecker', ck), ('Write', 0, 0), ('Write', 1, 1)]
        # dep removed and re-added
        hs.append(S + [('SetDef', 0, D([0, 1])), ('SaveOk', 0), ('Check', 0), ('SetDef', 0, D([0])), ('Check', 0), ('SaveOk', 0),
                       ('Write', 1, 3), ('SetDef', 0, D([0, 1])), ('Check', 0), ('CheckLog', 0)])
        # dep-set change through an empty saved 'deps:' (fixed 6d84766)
        hs.append(S + [('SetDef', 0, D([0], utd=[T])), ('SaveOk', 0), ('SetDef', 0, D([], utd=[T])), ('Check', 0), ('SaveOk', 0),
                       ('SetDef', 0, D([0], utd=[T])), ('Check', 0), ('CheckLog', 0)])
        # a failed run between two edits
        hs.append(S + [('SetDef', 0, D([0])), ('SaveOk', 0), ('Write', 0, 3), ('Check', 0), ('Remove', 0), ('Write', 0, 0), ('Check', 0),
                       ('SaveOk', 0), ('Check', 0)])
        # checker switched with an early exit before the checker test (fixed f6ac8a0): missing target / uptodate false / no deps
        hs.append(S + [('SetDef', 0, D([0], tg=[2])), ('SaveOk', 0), ('SetChecker', other), ('Check', 0), ('SaveOk', 0), ('Write', 2, 2),
                       ('Check', 0), ('Reopen',), ('Check', 0)])
        hs.append(S + [('SetDef', 0, D([0, 1], utd=[('bool', False)])), ('SaveOk', 0), ('SetChecker', other), ('Check', 0), ('SaveOk', 0),
                       ('SetDef', 0, D([0, 1])), ('Check', 0)])
        hs.append(S + [('SetDef', 0, D([0])), ('SaveOk', 0), ('SetDef', 0, D([])), ('SetChecker', other), ('Check', 0), ('SaveOk', 0),
                       ('SetDef', 0, D([0], utd=[T])), ('Check', 0), ('CheckLog', 0)])
        # state left by a previous checker, then reset-dep
        hs.append(S + [('SetDef', 0, D([0, 1], values=[(0, 5)], result=1)), ('SaveOk', 0), ('Ignore', 0), ('SetChecker', other), ('ResetDep', 0),
                       ('Check', 0), ('Touch', 0), ('Check', 0), ('ResetDep', 0), ('Check', 0)])
        # touch / rewrite with the same content
        hs.append(S + [('SetDef', 0, D([0, 1])), ('SaveOk', 0), ('Touch', 0), ('Check', 0), ('Write', 1, 1), ('Check', 0), ('Write', 1, 3),
                       ('Check', 0), ('Write', 1, 1), ('Check', 0)])
        # same size other content / other size
        hs.append(S + [('SetDef', 0, D([0])), ('SaveOk', 0), ('Write', 0, 1), ('Check', 0), ('Write', 0, 2), ('Check', 0), ('Write', 0, 0), ('Check', 0)])
        # the md5 optimisation at its limit (not FS-fresh)
        hs.append(S + [('SetDef', 0, D([0])), ('SaveOk', 0), ('WriteSameMtime', 0, 1), ('Check', 0), ('SaveOk', 0), ('Write', 0, 0), ('Check', 0),
                       ('Write', 0, 1), ('Check', 0)])
        # a file dep replaced by OTHER content with an OLDER mtime than the recorded one (cp -p, tar, rsync -t):
        # the run after it executes and must record the new state; later checks are up-to-date
        hs.append([('SetChecker', ck), ('WriteAt', 0, 1, 200), ('SetDef', 0, D([0])), ('Check', 0), ('SaveOk', 0), ('Check', 0),
                   ('WriteAt', 0, 0, 100), ('Check', 0), ('SaveOk', 0), ('Check', 0), ('Reopen',), ('Check', 0), ('Touch', 0), ('Check', 0)])
        # older mtime, same content (restored from a backup) / touched backwards / far in the future and back
        hs.append([('SetChecker', ck), ('WriteAt', 0, 1, 50), ('Write', 1, 0), ('SetDef', 0, D([0, 1])), ('SaveOk', 0), ('WriteAt', 0, 1, -7), ('Check', 0),
                   ('SaveOk', 0), ('TouchAt', 1, -3), ('Check', 0), ('WriteAt', 0, 3, 900), ('Check', 0), ('SaveOk', 0), ('WriteAt', 0, 1, 50), ('Check', 0),
                   ('SaveOk', 0), ('Check', 0), ('WriteAt', 0, 3, 900), ('Check', 0)])
        # an mtime the file had before, now with ANOTHER content (not FS-fresh: the md5 same-mtime caveat, second form)
        hs.append([('SetChecker', ck), ('WriteAt', 0, 0, 5), ('SetDef', 0, D([0])), ('SaveOk', 0), ('WriteAt', 0, 1, 7), ('WriteAt', 0, 3, 5), ('Check', 0),
                   ('SaveOk', 0), ('WriteAt', 0, 0, 9), ('Check', 0)])
        # deleted dep / deleted target / missing at save
        hs.append(S + [('SetDef', 0, D([0, 1], tg=[2])), ('Write', 2, 2), ('SaveOk', 0), ('Check', 0), ('Delete', 2), ('Check', 0), ('Write', 2, 2),
                       ('Delete', 1), ('Check', 0), ('CheckLog', 0), ('SaveOk', 0), ('Check', 0), ('ResetDep', 0)])
        # run_once / config_changed / result_dep with their savers
        hs.append(S + [('SetDef', 0, D([], utd=[('run_once',)])), ('Check', 0), ('SaveOk', 0), ('Check', 0), ('Reopen',), ('Check', 0), ('Remove', 0), ('Check', 0),
                       ('ResetDep', 0), ('Check', 0)])
        hs.append(S + [('SetDef', 0, D([0], utd=[('config', 1)])), ('Check', 0), ('SaveOk', 0), ('Check', 0), ('SetDef', 0, D([0], utd=[('config', 2)])),
                       ('Check', 0), ('CheckLog', 0), ('SaveOk', 0), ('Check', 0)])
        hs.append(S + [('SetDef', 1, D([1], result=1)), ('SetDef', 0, D([], utd=[('result_dep', 1)])), ('SaveOk', 1), ('Check', 0), ('SaveOk', 0), ('Check', 0),
                       ('SetDef', 1, D([1], result=2)), ('SaveOk', 1), ('Check', 0), ('SaveOk', 0), ('Check', 0), ('SetDef', 1, D([1], result=None)),
                       ('SaveOk', 1), ('Check', 0), ('Remove', 1), ('Check', 0), ('SaveOk', 0), ('Check', 0)])
        # ignore, forget
        hs.append(S + [('SetDef', 0, D([0])), ('Ignore', 0), ('Check', 0), ('SaveOk', 0), ('Check', 0), ('ForgetAll',), ('Check', 0), ('ResetDep', 0), ('Check', 0)])
        # uptodate only
        hs.append(S + [('SetDef', 0, D([], utd=[T])), ('Check', 0), ('SetDef', 0, D([], utd=[('none',)])), ('Check', 0), ('CheckLog', 0),
                       ('SetDef', 0, D([], utd=[('call', None), ('cmd', True)])), ('Check', 0), ('SetDef', 0, D([], utd=[T, ('cmd', False)])), ('CheckLog', 0)])
    return hs


# ------------------------------------------------------------------ family 'utd-flip'
# A task with file deps AND uptodate items whose truth changes between runs.  get_status leaves early,
# with task.dep_changed == [], as soon as one item is false (dependency.py 661-663), i.e. BEFORE any
# file dep is compared -- so the run that follows an edit made while an item is false is the only
# place where the new state of the file can get recorded (save_success).  The family is
#     S1   files written, definition set, successful execution recorded
#     rounds (1-3):  some of  { edit of file deps,  an uptodate item becomes false }  in any order,
#                    [Check], recording step (SaveOk | ResetDep | a whole `doit run` in the e2e form),
#                    [the item becomes true again]
#     final: one or more file deps are put back to a version they had at an EARLIER successful
#            execution (md5: that content with a fresh / the old / another mtime;  timestamp: that content
#            with the mtime it had then)  -> the task is stale;   or rewritten in a way the checker's rule
#            calls unmodified w.r.t. the LAST successful execution / nothing at all  -> the task is unchanged
#     Check (every item true, everything else unchanged)
# Items that flip:  config_changed (value replaced by a definition change; true again once the run saved it),
# bool / callable / shell command (replaced by a definition change, and back), run_once (added to the
# definition: false until a run saved 'run-once'), result_dep (the other task executed again with another
# result; true again once the run saved it).  FS-fresh by construction: every explicit mtime is used once
# per history, or re-used with the content it had.
FLIP_KINDS = ('config', 'call', 'bool', 'cmd', 'run_once', 'result_dep')


def gen_flip(rng, ck, out, e2e=False, kind=None):
    t = rng.randrange(NT)
    kind = kind or rng.choice([k for k in FLIP_KINDS if not (e2e and k == 'result_dep')])
    if e2e:        # restrictions of the end-to-end sample: file deps among files 0,1; file 2 a target of T0 only
        fds = rng.sample([0, 1], rng.choice([1, 1, 2]))
        tg = [2] if (t == 0 and rng.random() < 0.3) else []
    else:
        fds = rng.sample(range(NF), rng.choice([1, 1, 2, 2, 3]))
        rest = [f for f in range(NF) if f not in fds]
        tg = [rest[0]] if (rest and rng.random() < 0.25) else []
    u = rng.choice([x for x in range(NT) if x != t])       # the task a result_dep item looks at
    h = [('SetChecker', ck)]
    st = dict(clock=1, k=0)
    cur = {}                                                # f -> (mtime, content id)

    def fresh_m():                                          # an explicit mtime never used before in this history
        st['k'] += rng.randrange(1, 4)
        return (100 + st['k']) * rng.choice([1, 1, -1])

    def put(f, c, how, m=None):
        if how == 'clock':
            h.append(('Write', f, c)); cur[f] = (st['clock'], c); st['clock'] += 1
        else:
            h.append(('WriteAt', f, c, m)); cur[f] = (m, c)

    def touch(f, m=None):
        if m is None:
            h.append(('Touch', f)); cur[f] = (st['clock'], cur[f][1]); st['clock'] += 1
        else:
            h.append(('TouchAt', f, m)); cur[f] = (m, cur[f][1])

    for f in fds + tg:
        if rng.random() < 0.5:
            put(f, rng.randrange(5), 'clock')
        else:
            put(f, rng.randrange(5), 'at', fresh_m())
    # the definition: the item that flips at a random place among items that stay true / are ignored
    others = [rng.choice([('bool', True), ('call', True), ('none',), ('call', None), ('bool', True)]) for _ in range(rng.choice([0, 0, 1, 2]))]
    pos = rng.randrange(len(others) + 1)
    flip = dict(on=True, cfg=rng.randrange(3), present=(kind != 'run_once'), res=rng.randrange(4))

    def item():
        if kind == 'config':
            return [('config', flip['cfg'])]
        if kind in ('call', 'bool', 'cmd'):
            return [(kind, flip['on'])]
        if kind == 'run_once':
            return [('run_once',)] if flip['present'] else []
        return [('result_dep', u)]

    def setdef():
        h.append(('SetDef', t, D(fds, tg, others[:pos] + item() + others[pos:])))

    def rec(allow_reset):
        """the recording step; returns True when the item is true afterwards without a definition change"""
        if e2e:
            if allow_reset and rng.random() < 0.2:
                h.append(('ResetDep', t)); return False
            h.append(('Run', False, [(t, False)])); return True
        r = rng.random()
        if r < 0.6:
            h.append(('Check', t))
        elif r < 0.7:
            h.append(('CheckLog', t))
        if allow_reset and rng.random() < 0.25:
            h.append(('ResetDep', t)); return False
        h.append(('SaveOk', t)); return True

    if kind == 'result_dep':
        h.append(('SetDef', u, D([], [], [('bool', True)], result=flip['res'])))
        h.append(('SaveOk', u))
    setdef()
    rec(False)
    snaps = [dict((f, cur[f]) for f in fds)]                # what each successful execution saw
    nrounds = rng.choice([1, 1, 2, 2, 3])
    false_now = False                                       # a bool/call/cmd item left false by the previous round
    for r in range(nrounds):
        last = (r == nrounds - 1)
        x = rng.random()
        rk = 'flip+edit' if ((last and x < 0.75) or x < 0.5) else 'edit' if x < 0.8 else 'flip'
        if kind == 'run_once' and flip['present'] and not false_now and rk != 'edit':
            # run-once is saved: the item can be false again only after a run without it
            flip['present'] = False; setdef(); rec(False); snaps.append(dict((f, cur[f]) for f in fds))
        steps = []
        if 'edit' in rk:
            for f in rng.sample(fds, rng.randrange(1, len(fds) + 1)):
                steps.append(('edit', f))
        if 'flip' in rk and not false_now:
            steps.append(('flip',))
        rng.shuffle(steps)
        for s in steps:
            if s[0] == 'edit':
                f = s[1]
                if ck == 'ts' and rng.random() < 0.3:       # a touch is a modification for the timestamp checker
                    touch(f, None if rng.random() < 0.5 else fresh_m())
                else:
                    c = rng.choice([c for c in CONTENT if c != cur[f][1]])
                    if rng.random() < 0.5:
                        put(f, c, 'clock')
                    else:
                        put(f, c, 'at', fresh_m())
            elif kind == 'config':
                flip['cfg'] = rng.choice([c for c in range(4) if c != flip['cfg']]); setdef()
            elif kind in ('call', 'bool', 'cmd'):
                flip['on'] = False; setdef()
            elif kind == 'run_once':
                flip['present'] = True; setdef()
            else:
                flip['res'] = rng.choice([c for c in range(4) if c != flip['res']])
                h.append(('SetDef', u, D([], [], [('bool', True)], result=flip['res'])))
                h.append(('SaveOk', u))
        is_false = false_now or 'flip' in rk
        out.count('flip-round:%s%s' % (rk, '+still-false' if false_now else ''))
        # reset-dep does not run the value savers: only a bool/callable/command item can be put right after it
        true_after = rec(allow_reset=(not is_false or kind in ('call', 'bool', 'cmd')))
        snaps.append(dict((f, cur[f]) for f in fds))
        false_now = False
        if is_false and kind in ('call', 'bool', 'cmd'):
            if not last and rng.random() < 0.3:
                false_now = True                            # stays false for one more run
            else:
                flip['on'] = True; setdef()
        elif is_false and not true_after:
            raise AssertionError('gen_flip: item left false')
        if not e2e and rng.random() < 0.15:
            h.append(('Reopen',))
    # ---- the final move
    unmod = Shadow.unmodified
    view = lambda v: (v[0], len(CONTENT[v[1]]), v[1])
    lastsn = snaps[-1]
    cands = {f: sorted(set(sn[f] for sn in snaps[:-1] if not unmod(ck, view(lastsn[f]), view(sn[f])))) for f in fds}
    cands = {f: vs for f, vs in cands.items() if vs}
    mode = rng.choice(['restore'] * 13 + ['same'] * 4 + ['unchanged'] * 3)
    if mode == 'restore' and not cands:
        mode = 'same'
    if mode == 'restore':
        for f in rng.sample(sorted(cands), rng.randrange(1, len(cands) + 1)):
            m, c = rng.choice(cands[f])
            if ck == 'ts':
                if cur[f][1] == c and rng.random() < 0.5:
                    touch(f, m); how = 'touch-old-mtime'
                else:
                    put(f, c, 'at', m); how = 'old-content-old-mtime'
            else:
                how = rng.choice(['old-content-fresh-mtime', 'old-content-old-mtime', 'old-content-other-mtime'])
                if how == 'old-content-fresh-mtime':
                    put(f, c, 'clock')
                elif how == 'old-content-old-mtime':
                    put(f, c, 'at', m)
                else:
                    put(f, c, 'at', fresh_m())
            out.count('flip-restore:%s:%s' % (ck, how))
    elif mode == 'same':
        for f in rng.sample(fds, rng.randrange(1, len(fds) + 1)):
            m, c = lastsn[f]
            if ck == 'md5':
                how = rng.choice(['rewrite-same-content', 'touch', 'other-then-same-content'])
                if how == 'touch':
                    touch(f, None if rng.random() < 0.5 else fresh_m())
                else:
                    if how == 'other-then-same-content':
                        put(f, rng.choice([x for x in CONTENT if x != c]), 'clock')
                    put(f, c, rng.choice(['clock', 'at']), fresh_m())
            else:
                how = 'other-then-back-with-mtime'
                put(f, rng.choice([x for x in CONTENT if x != c]), 'clock')
                put(f, c, 'at', m)
            out.count('flip-same:%s:%s' % (ck, how))
    out.count('flip-final:%s' % mode)
    out.count('flip-item:%s' % kind)
    if e2e:
        h.append(('Run', False, [(t, False)]))
        h.append(('Run', False, [(t, False)]))
    else:
        if rng.random() < 0.2:
            h.append(('Reopen',))
        h.append(('Check', t))
        if rng.random() < 0.3:
            h.append(('CheckLog', t))
    return h


def shrink(ctx, backend, history, shape, c04, runner=None, budget=400):
    """greedy one-operation-at-a-time shrinking of a history that makes an oracle speak: keeps a removal when
    the same oracle still reports the same shape on that backend.  Histories that stop being FS-fresh silence the oracle, so they
    are never kept."""
    runner = runner or run_history

    def fails(h):
        o = Outcome(); o.c04_violations = []
        try:
            runner(ctx, backend, h, o)
        except Exception:
            return False
        return any(v['shape'] == shape for v in (o.c04_violations if c04 else o.violations))
    h = list(history)
    progress = True
    while progress and budget > 0:
        progress = False
        i = len(h) - 1
        while i >= 0 and budget > 0:
            cand = h[:i] + h[i + 1:]
            budget -= 1
            if fails(cand):
                h = cand; progress = True
            i -= 1
    # then the definitions: drop single uptodate items / targets / values of single SetDef operations
    for i in range(len(h)):
        for field in ('uptodate', 'targets', 'values'):
            j = len(h[i][2][field]) - 1 if h[i][0] == 'SetDef' else -1
            while j >= 0 and budget > 0:
                d = dict(h[i][2]); d[field] = d[field][:j] + d[field][j + 1:]
                cand = h[:i] + [('SetDef', h[i][1], d)] + h[i + 1:]
                budget -= 1
                if fails(cand):
                    h = cand
                j -= 1
    return h


def shrink_findings(ctx, out, c03=True, c04=True):
    """the first finding of each shape gets a shrunk history (the generated one is kept next to it)"""
    for c04, lst in [(False, out.violations)] * c03 + [(True, out.c04_violations)] * c04:
        done = set()
        for v in lst:
            case = v.get('case', {})
            if v['shape'] in done or 'history' not in case or 'unshrunk_history' in case:
                continue
            done.add(v['shape'])
            e2e = any(o[0] in ('Run', 'Forget') for o in case['history'])
            try:
                small = shrink(ctx, case['backend'], case['history'], v['shape'], c04, run_e2e if e2e else None, 120 if e2e else 400)
            except Exception:
                continue
            case['unshrunk_history'] = case['history']
            case['history'] = small
            case['history_coq'] = None if e2e else [op_coq(o) if o[0] != 'Reopen' else 'Reopen' for o in small]


def classify(history, obs):
    """non-trivial = some Check/CheckLog of a task happens after a SaveOk/ResetDep of that task"""
    saved = set()
    for o in history:
        if o[0] in ('SaveOk', 'ResetDep'):
            saved.add(o[1])
        elif o[0] in ('Check', 'CheckLog') and o[1] in saved:
            return True
    return False


def hkey(history):
    return json.dumps(history, sort_keys=True, default=str)


def explore(ctx, out):
    """runs everything; fills out (mismatches, violations for C03, c04_violations for C04)"""
    rng = ctx.rng
    out.c04_violations = []
    histories = [('scripted', h) for h in scripted()]
    n = ctx.n(300, 2500)
    lim = ctx.n(8, 14)
    for i in range(n):
        same = (i % 10 == 9)
        h = gen_history(rng, rng.randrange(3, lim + 1), same)
        if i % 3 != 0:          # two thirds of the histories get arbitrary (older / newer / re-used) mtimes
            h = vary_mtimes(rng, h, same, out)
        histories.append(('random-notfresh' if same else 'random', h))
    for i in range(ctx.n(96, 720)):      # family 'utd-flip': every flipping item kind x both checkers, round-robin
        histories.append(('utd-flip', gen_flip(rng, ('md5', 'ts')[i % 2], out, kind=FLIP_KINDS[(i // 2) % len(FLIP_KINDS)])))
    cases, verdicts = [], {}
    for hi, (kind, h) in enumerate(histories):
        h = fix_orders(ctx, h)
        per_backend = {}
        for b in ('json', 'dbm', 'sqlite'):
            try:
                per_backend[b] = run_history(ctx, b, h, out)
            except Exception as e:  # noqa
                per_backend[b] = [97, len(type(e).__name__)]
            out.count('backend:' + b)
        out.count('kind:' + kind)
        for o in h:
            out.count('op:' + o[0])
        vals = list(per_backend.values())
        expr = model_expr(h)
        if all(v == vals[0] for v in vals):
            cases.append(dict(model=expr, expected=vals[0], desc=(kind, h, 'all-backends')))
        else:
            for b, vv in per_backend.items():
                cases.append(dict(model=expr, expected=vv, desc=(kind, h, b)))
        ob = per_backend['json']
        for st in _check_statuses(ob):
            out.count('verdict:%d' % st)
        if classify(h, ob):
            out.nontrivial.add(hkey(h))
        if hi in (0, 1, len(scripted()) + 1, len(scripted()) + n):     # two scripted, one random, one utd-flip
            out.samples.append(dict(history=[op_coq(o) if o[0] != 'Reopen' else 'Reopen' for o in h], observed=ob))
    out.evaluations = 3 * len(histories)
    bad = common.compare_with_model(ctx, PRE, cases, tag='c03')
    out.traces_validated = 3 * len(histories)
    for i, m in bad:
        out.mismatches.append(dict(case=[op_coq(o) if o[0] != 'Reopen' else 'Reopen' for o in cases[i]['desc'][1]],
                                   backend=cases[i]['desc'][2], impl=cases[i]['expected'], model=m))
    return out


def _check_statuses(ob):
    """statuses of the Check entries of an observation list"""
    res, i = [], 0
    while i < len(ob) and ob[i] != -7:
        tag = ob[i]
        if tag == 1:
            res.append(ob[i + 2]); i += 4
        elif tag == 2:
            res.append(ob[i + 2]); i += 12
        elif tag in (3, 4):
            i += 3
        else:
            break
    return res


# ------------------------------------------------------------------ end-to-end sample: DoitMain in-process
# Run-level histories: file operations, SetDef, SetChecker and whole doit command lines
#   ('Run', always, [(t, fail), ...]) = doit run --continue [-a] T..   (python-actions that succeed / return False)
#   ('Forget', t) = doit forget Tt, ('ForgetAll',) = doit forget --all, ('Ignore', t) = doit ignore Tt,
#   ('ResetDep', t) = doit reset-dep Tt
# with a recording reporter.  The model runs `run_task` (History.v) for every task of a Run, i.e. the
# primitive operations Check / SaveOk / Remove it expands to, and must predict, per task,
#   0 executed+saved, 1 executed+failed, 2 skipped up-to-date, 3 skipped ignored, 4 dependency error
# and the logical DB content at the end.  No result_dep items here (they add task_deps and change the order).
PRE_E2E = PRE + '''
Definition run1 (always : bool) (acc : state * list Z) (tf : name * bool) : state * list Z :=
  let s := fst acc in let t := fst tf in
  let code := if status_is_ignore (s_db s) t then 3 else
              match g_status (check md5o current s t) with
              | Error => 4 | Crash => 98
              | UpToDate => if always then (if snd tf then 1 else 0) else 2
              | Run => if snd tf then 1 else 0
              end in
  let s' := run_task md5o sizeo current s t always (snd tf) in
  (* executed, but save_success met a missing file dep: reported as a failure (runner.py 183-187) *)
  let code := match s_log s' with OSave _ (SaveMissing _) :: _ => if code =? 0 then 1 else code | _ => code end in
  (s', snd acc ++ [code]).
Inductive rop := P (o : op) | R (always : bool) (l : list (name * bool)).
Definition rstep (acc : state * list Z) (r : rop) : state * list Z :=
  match r with
  | P o => (step md5o sizeo current (fst acc) o, snd acc)
  | R a l => fold_left (run1 a) l acc
  end.
Definition e2e (l : list rop) : list Z :=
  let acc := fold_left rstep l (init, []) in
  snd acc ++ [-7] ++ db_z [0;1;2]%N [0;1;2]%N (s_db (fst acc)).
'''


def e2e_coq(h):
    out = []
    for o in h:
        if o[0] == 'Run':
            out.append('R %s [%s]' % ('true' if o[1] else 'false', '; '.join('(%d, %s)' % (t, 'true' if f else 'false') for t, f in o[2])))
        elif o[0] == 'Forget':
            out.append('P (Remove %d)' % o[1])
        else:
            out.append('P (%s)' % op_coq(o))
    return 'e2e ([%s]%%N)' % '; '.join(out)


def gen_e2e(rng, n_ops):
    h = [('SetChecker', rng.choice(['md5', 'md5', 'ts']))]
    defs, content = {}, {}
    for f in range(NF):
        if rng.random() < 0.85:
            c = rng.randrange(5); h.append(('Write', f, c)); content[f] = c

    def restrict(t, d):
        """no implicit task dependencies in the end-to-end sample: file deps are files 0,1; file 2 is
        a target of T0 only (a target that is a file_dep of a task, or of two tasks, changes the graph)"""
        d = dict(d)
        d['file_dep'] = [f for f in d['file_dep'] if f != 2]
        d['targets'] = [2] if (t == 0 and 2 in d['targets']) else []
        return d

    def gdef(t):
        while True:
            d = restrict(t, gen_def(rng, t))
            if not any(u[0] == 'result_dep' for u in d['uptodate']):
                return d
    for t in range(NT):
        defs[t] = gdef(t); h.append(('SetDef', t, defs[t]))
    h.append(('Run', False, [(t, rng.random() < 0.15) for t in range(NT)]))
    for _ in range(n_ops):
        r = rng.random(); t = rng.randrange(NT); f = rng.randrange(NF)
        if r < 0.35:
            ts = rng.sample(range(NT), rng.choice([1, 2, 3, 3]))
            h.append(('Run', rng.random() < 0.12, [(x, rng.random() < 0.2) for x in ts]))
        elif r < 0.5:
            c = content[f] if (f in content and rng.random() < 0.3) else rng.randrange(5)
            h.append(('Write', f, c)); content[f] = c
        elif r < 0.57:
            h.append(('Touch', f))
        elif r < 0.63:
            h.append(('Delete', f)); content.pop(f, None)
        elif r < 0.75:
            d = restrict(t, mutate_def(rng, t, defs[t]))
            if not any(u[0] == 'result_dep' for u in d['uptodate']):
                defs[t] = d; h.append(('SetDef', t, d))
        elif r < 0.8:
            h.append(('SetChecker', rng.choice(['md5', 'ts'])))
        elif r < 0.86:
            h.append(('Forget', t))
        elif r < 0.9:
            h.append(('Ignore', t))
        elif r < 0.97:
            h.append(('ResetDep', t))
        else:
            h.append(('ForgetAll',))
    h.append(('Run', False, [(t, False) for t in range(NT)]))
    h.append(('Run', False, [(t, False) for t in range(NT)]))
    return h


class RecReporter:
    """recording reporter: what the runner told about each task"""
    log = None
    desc = 'recording'

    def __init__(self, outstream, options):
        pass

    def initialize(self, tasks, selected_tasks):
        pass

    def get_status(self, task):
        pass

    def execute_task(self, task):
        RecReporter.log.append(('execute', task.name))

    def add_failure(self, task, fail):
        RecReporter.log.append(('failure', task.name))

    def add_success(self, task):
        RecReporter.log.append(('success', task.name))

    def skip_uptodate(self, task):
        RecReporter.log.append(('uptodate', task.name))

    def skip_ignore(self, task):
        RecReporter.log.append(('ignore', task.name))

    def cleanup_error(self, exception):
        RecReporter.log.append(('cleanup_error', None))

    def runtime_error(self, msg):
        RecReporter.log.append(('runtime_error', None))

    def teardown_task(self, task):
        pass

    def complete_run(self):
        pass


def run_e2e(ctx, backend, h, out):
    """executes a run-level history through DoitMain; returns (ints observed, C04/C03 findings are appended to out)"""
    import contextlib
    from doit.doit_cmd import DoitMain
    from doit.cmd_base import ModuleTaskLoader
    w = World(ctx, backend, 'e2e')
    w.dep.close()
    sh = Shadow()
    codes = []
    fails = {}

    def namespace():
        ns = {'DOIT_CONFIG': {'dep_file': w.dbpath, 'backend': {'json': 'json', 'dbm': 'dbm', 'sqlite': 'sqlite3'}[backend],
                              'check_file_uptodate': 'md5' if w.ck == 'md5' else 'timestamp',
                              'reporter': RecReporter, 'verbosity': 0, 'continue': True}}
        for t in range(NT):
            def creator(t=t):
                d = w.defs[t]
                acts = []
                if d['values']:
                    vals = {('u%d' % k): x for k, x in d['values']}
                    acts.append((lambda vals=vals: dict(vals),))

                def final(t=t, d=d):
                    if fails.get(t):
                        return False
                    return True if d['result'] is None else 'res%d' % d['result']
                acts.append((final,))
                return {'actions': acts, 'file_dep': [w.path(f) for f in sorted(d['file_dep'])],
                        'targets': [w.path(f) for f in d['targets']], 'uptodate': [w.make_utd(u) for u in d['uptodate']]}
            creator.__name__ = 'task_T%d' % t
            ns['task_T%d' % t] = creator
        return ns

    def doit(args):
        RecReporter.log = []
        buf = io.StringIO()
        with contextlib.redirect_stdout(buf), contextlib.redirect_stderr(buf):
            try:
                rc = DoitMain(ModuleTaskLoader(namespace())).run(args)
            except SystemExit as e:  # noqa
                rc = 90
        return rc, list(RecReporter.log), buf.getvalue()

    try:
        for o in h:
            k = o[0]
            if k in ('Write', 'Touch', 'WriteAt', 'TouchAt', 'Delete', 'SetDef'):
                w.apply(o)
                if w.not_fresh:
                    sh.fresh = False
            elif k == 'SetChecker':
                w.ck = o[1]
            elif k == 'Run':
                fails.clear(); fails.update({t: f for t, f in o[2]})
                # the shadow's view before the run, per task, for the property oracles
                w.open()
                pre = {}
                for t, _ in o[2]:
                    try:
                        items = w.eval_items(t)
                    except Exception:
                        items = None
                    pre[t] = items
                w.dep.close()
                order = [t for t, _ in o[2]]
                rc, log, txt = doit(['run', '--continue'] + (['-a'] if o[1] else []) + ['T%d' % t for t in order])
                if rc == 3:
                    codes.append(97)
                    if 'TypeError' in txt:
                        out.violations.append(dict(what='doit run crashed with TypeError (state saved by another checker was re-used)',
                                                   shape='checker-switch-typeerror', case=dict(history=h, backend=backend)))
                    continue
                for t in order:
                    ev = [e for e, n in log if n == 'T%d' % t]
                    if 'ignore' in ev:
                        c = 3
                    elif 'uptodate' in ev:
                        c = 2
                    elif 'execute' in ev:
                        c = 0 if 'success' in ev else 1 if 'failure' in ev else 96
                    elif 'failure' in ev:
                        c = 4
                    else:
                        c = 95
                    codes.append(c)
                # property oracles on what the runner did (tasks are independent here; only the first
                # decision about a task in a run is judged, with the items evaluated before the run --
                # an earlier task of the same run cannot change them without result_dep)
                seen = set()
                for t in order:
                    if t in seen:
                        continue
                    seen.add(t)
                    c = codes[len(codes) - len(order) + order.index(t)]
                    if pre[t] is not None and sh.fresh and not o[1] and c in (0, 1, 2):
                        sound, complete = sh.conditions(w, t, pre[t])
                        if c == 2 and not sound:
                            out.violations.append(dict(what='runner skipped a task as up-to-date although a condition of C03 fails',
                                                       shape='c03-stale-skipped-run', case=dict(history=h, backend=backend, task=t)))
                        if c in (0, 1) and complete:
                            out.c04_violations.append(dict(what='runner executed a task although nothing changed since its last successful execution',
                                                           shape='c04-unchanged-rerun-run', case=dict(history=h, backend=backend, task=t)))
                    # shadow update
                    if c == 0:
                        d = w.defs[t]
                        sh.last_ok[t] = dict(ck=w.ck, file_dep=list(d['file_dep']), view={f: w.fsview[f] for f in d['file_dep']})
                    elif c in (1, 4):
                        sh.last_ok.pop(t, None)
            elif k == 'Forget':
                doit(['forget', 'T%d' % o[1]]); sh.last_ok.pop(o[1], None)
            elif k == 'ForgetAll':
                doit(['forget', '--all']); sh.last_ok = {}
            elif k == 'Ignore':
                doit(['ignore', 'T%d' % o[1]])
            elif k == 'ResetDep':
                rc, log, txt = doit(['reset-dep', 'T%d' % o[1]])
                if 'processed' in txt:
                    d = w.defs[o[1]]
                    sh.last_ok[o[1]] = dict(ck=w.ck, file_dep=list(d['file_dep']), view={f: w.fsview[f] for f in d['file_dep']})
                elif 'skip' not in txt and 'failed' not in txt:
                    sh.last_ok.pop(o[1], None)
                elif sh.last_ok.get(o[1]) is not None and sh.last_ok[o[1]]['ck'] != w.ck:
                    sh.last_ok[o[1]]['maybe_removed'] = True
        w.open()
        try:
            dump = w.dump()
        except Exception as e:  # noqa
            dump = [97, len(type(e).__name__)]
    finally:
        w.finish()
    return codes + [-7] + dump


def explore_e2e(ctx, out):
    rng = ctx.rng
    cases = []
    n = ctx.n(36, 300)
    nflip = ctx.n(18, 120)               # family 'utd-flip' through DoitMain: 3 backends x 2 checkers, round-robin
    for i in range(n + nflip):
        if i < n:
            h = gen_e2e(rng, rng.randrange(3, ctx.n(8, 14) + 1))
            if i % 3 != 0:
                h = vary_mtimes(rng, h, False, out)
        else:
            h = gen_flip(rng, ('md5', 'ts')[(i // 3) % 2], out, e2e=True)
            out.count('e2e:utd-flip')
        h = fix_orders(ctx, h)
        b = ('json', 'dbm', 'sqlite')[i % 3]
        try:
            obs = run_e2e(ctx, b, h, out)
        except Exception as e:  # noqa
            obs = [97, len(type(e).__name__)]
        cases.append(dict(model=e2e_coq(h), expected=obs, desc=('e2e', h, b)))
        out.count('e2e:' + b)
        for c in obs[:obs.index(-7)] if -7 in obs else []:
            out.count('e2e-decision:%d' % c)
        out.nontrivial.add('e2e:' + hkey(h))
    bad = common.compare_with_model(ctx, PRE_E2E, cases, tag='c03e')
    for i, m in bad:
        out.mismatches.append(dict(case=e2e_coq(cases[i]['desc'][1]), backend=cases[i]['desc'][2], impl=cases[i]['expected'], model=m))
    out.evaluations += len(cases)
    out.traces_validated += len(cases)
    out.extra['e2e_histories_through_DoitMain'] = len(cases)
    if cases:
        out.samples.append(dict(e2e=e2e_coq(cases[0]['desc'][1]), observed=cases[0]['expected']))


RULE = ('scripted histories (dep removed/re-added, failed run between edits, checker switch with early exits, reset-dep, '
        'same-content rewrite, same-mtime rewrite, value-savers) + random histories over the full alphabet (prologue + <=8 quick / <=14 '
        'thorough operations, 3 tasks, 3 files, 5 contents of sizes 4,4,2,4,0, both checkers), each on JsonDB, DbmDB and SqliteDB; '
        'plus the family utd-flip (file deps + an uptodate item -- config_changed / bool / callable / command / run_once / result_dep -- that is '
        'false in a run that follows an edit of a file dep, then the file put back to a version an EARLIER successful execution saw, or '
        'rewritten in a way the checker calls unmodified, or left alone; every item kind x both checkers x 3 backends); '
        'non-trivial = distinct history in which a task is checked after a SaveOk/ResetDep of that task; plus an end-to-end sample: run-level '
        'histories (doit run --continue [-a] / forget / ignore / reset-dep command lines + file operations) through DoitMain in-process '
        'with a recording reporter, compared with run_task of History.v (each e2e history counts as non-trivial; random + utd-flip '
        'histories); the first oracle finding of each shape is shrunk (greedy operation removal) before it is reported')


def run(ctx):
    out = Outcome()
    out.rule = RULE
    explore(ctx, out)
    explore_e2e(ctx, out)
    import c03_session                          # family `session`: the namespace outlives one run (item instances, dicts edited in place)
    out.rule = RULE + c03_session.RULE
    c03_session.explore_session(ctx, out)
    c03_session.explore_instances(ctx, out)
    shrink_findings(ctx, out, c04=False)
    out.extra['c04_oracle_findings_seen_here'] = len(out.c04_violations)
    out.assumptions = ['FS-fresh: a write never leaves the mtime unchanged (needed by the md5 "same mtime: keep the old state" optimisation; '
                       'C03_md5_same_mtime_refuted shows it cannot be dropped)',
                       'callables / shell commands in uptodate are oracles (Some true / Some false / None); result_dep on a group task and '
                       'tools.timeout / check_timestamp_unchanged are not modelled',
                       'keys produced by the actions (task.values) are distinct from the reserved keys run-once, _config_changed, _result:*',
                       'family session: a task holds at most one config_changed item (the saved key _config_changed is one per task); the inputs of '
                       'the items are edited between runs, never by an action while a run is going on; runs of a session are serial']
    out.extra['trusted_base'] = ['harness/c03.py: World (translation of operations to calls of the real classes), Shadow (oracle), encoders',
                                 'harness/c03_session.py: Session (one namespace used by many runs), SessShadow (oracle on declared inputs), '
                                 'translation of session histories to the run-level model; digest of a configuration dict = the harness\'s own md5 of its sorted JSON',
                                 'md5 oracle = identity on content ids (the 5 byte strings used have distinct digests); size oracle = their lengths']
    return out


def replay(ctx, payload):
    out = Outcome()
    out.c04_violations = []
    case = payload.get('case', {})
    h = [tuple(o) for o in case.get('history', [])]
    if case.get('session') or 'life' in case:
        import c03_session
        c03_session.replay(ctx, payload, out)
    elif any(o[0] in ('Run', 'Forget') for o in h):
        b = case.get('backend', 'json')
        print(b, run_e2e(ctx, b, h, out))
    else:
        for b in ('json', 'dbm', 'sqlite'):
            print(b, run_history(ctx, b, h, out))
    for v in out.violations + out.c04_violations:
        print('VIOLATION', v['shape'], v['what'])
    return 1 if (out.violations or out.c04_violations) else 0
