"""C05 -- failures are contained and never recorded as success.
Part 1: shared run-family correspondence + oracle_c05 (harness/runfam.py).
Part 2: the real Dependency on every backend: a task that succeeded before and then fails in any way
(return False, exception, TaskFailed/TaskError object, a command action that exits with a non-zero status,
with a status above 125, or is killed by a signal -- the command itself or the shell that runs it --,
file_dep vanishing during execution, file_dep missing before execution) must be reported as failed and execute again on the next run, with and without reopening the DB.
Part 3 (part_failed_rerun_shapes): "executes again whatever the state of its inputs" over the ways of declaring dependencies.
Part 4 (harness/c05_history.py): the HISTORY before the failing run -- which members of a dependency chain are up-to-date by
their own inputs when the failure happens -- on the real command line, three backends, serial / thread / process runners.
The oracle of part 1 is runfam.oracle_c05 + oracle_c05_chain below (containment through a CHAIN of tasks, whatever the
status of the tasks in between; no up-to-date report for a task one of whose dependencies failed)."""
import os, sys
import runfam
import c05_history


def oracle_c05_chain(v):
    """containment over the transitive dependency relation, judged on the observed event list: after a failure report of
    f no task that reaches f through declared/effective edges (task_dep, file-on-target, calc_dep incl. returned ones;
    setup edges of a task whose status check said `run`) starts, WHATEVER was reported for the tasks in between (an
    up-to-date intermediate task does not shield its dependents); and such a task is never reported up-to-date."""
    bad = []
    edges = v.eff_edges()
    failed = sorted(set(e[1] for e in v.ev if e[0] == 4))
    for f in failed:
        pf = v.first(4, f)
        cone, grew = {f}, True
        while grew:
            grew = False
            for u in range(v.n):
                if u not in cone and any(d in cone for d in edges.get(u, ())):
                    cone.add(u); grew = True
        for y in sorted(cone - {f}):
            ps = v.first(v.start_code, y)
            if ps is not None and ps > pf:
                bad.append(('dependent-of-failed-executed-through-chain', 'task %d started after task %d had failed, although it depends on it through a chain of tasks' % (y, f)))
            pu = v.first(3, y)
            if pu is not None and pu > pf:
                bad.append(('dependent-of-failed-reported-up-to-date', 'task %d was reported up-to-date after task %d, on which it depends (directly or through a chain), had failed in this run' % (y, f)))
    return bad


def oracle_c05_full(v):
    return runfam.oracle_c05(v) + oracle_c05_chain(v)


def part_real_db(ctx, out):
    from doit.task import Task
    from doit.control import TaskControl
    from doit.runner import Runner, MThreadRunner
    from doit.dependency import Dependency, JsonDB, DbmDB, SqliteDB, MD5Checker, TimestampChecker
    from doit.exceptions import TaskFailed, TaskError
    import runlib
    n = 0
    kinds = ['false', 'raise', 'taskfailed', 'taskerror', 'dep-vanishes', 'dep-missing-before',
             'cmd-exit1', 'cmd-exit200', 'cmd-killed', 'cmd-shell-killed', 'cmd-list-exit3']
    CMDS = {'cmd-exit1': 'exit 1', 'cmd-exit200': 'exit 200', 'cmd-shell-killed': 'kill -SEGV $$',
            'cmd-killed': [sys.executable, '-c', 'import os, signal; os.kill(os.getpid(), signal.SIGKILL)'],
            'cmd-list-exit3': [sys.executable, '-c', 'import sys; sys.exit(3)']}
    for backend in (JsonDB, DbmDB, SqliteDB):
        for checker in (MD5Checker, TimestampChecker):
            for kind in kinds:
                for runner_cls in ((Runner, MThreadRunner) if not ctx.quick or kind in ('false', 'dep-vanishes') else (Runner,)):
                    d = ctx.subdir('db%d' % n); n += 1
                    dep_file = os.path.join(d, 'dep.txt'); db = os.path.join(d, 'db')
                    mode = {'v': 'ok'}
                    execs = []

                    def act():
                        execs.append(mode['v'])
                        m = mode['v']
                        if m == 'false': return False
                        if m == 'raise': raise RuntimeError('x')
                        if m == 'taskfailed': return TaskFailed('f')
                        if m == 'taskerror': return TaskError('e')
                        if m == 'dep-vanishes': os.remove(dep_file)
                        return True

                    def one_run():
                        t = Task('t', [act] + ([CMDS[mode['v']]] if mode['v'] in CMDS else []), file_dep=[dep_file])
                        tc = TaskControl([t]); tc.process(None)
                        dm = Dependency(backend, db, checker_cls=checker)
                        log = []
                        kw = dict(num_process=2) if runner_cls is MThreadRunner else {}
                        r = runner_cls(dm, runlib.RecReporter(log, {'t': 0}), **kw)
                        so = (sys.stdout, sys.stderr)
                        try:
                            rc = r.run_all(tc.task_dispatcher())
                        finally:
                            sys.stdout, sys.stderr = so
                        return rc, log
                    clock = 1000
                    def write(content):
                        nonlocal clock
                        clock += 10
                        open(dep_file, 'w').write(content); os.utime(dep_file, (clock, clock))
                    write('a'); mode['v'] = 'ok'
                    rc1, _ = one_run()
                    # make the task stale so that it executes, and fail
                    if kind == 'dep-missing-before':
                        os.remove(dep_file); mode['v'] = 'ok'
                    else:
                        write('b'); mode['v'] = kind
                    rc2, log2 = one_run()
                    # restore the inputs exactly as they were at the last SUCCESS: a DB that still remembers
                    # that success would now (wrongly) skip the task
                    clock = 1000; write('a'); mode['v'] = 'ok'
                    before = len(execs)
                    rc3, log3 = one_run()
                    out.count('realdb:%s:%s' % (backend.__name__, kind))
                    out.evaluations += 1
                    out.nontrivial.add(('realdb', backend.__name__, checker.__name__, kind, runner_cls.__name__))
                    failed2 = any(e[0] == 4 for e in log2)
                    if rc1 == 0 and not failed2 and kind in CMDS:
                        out.violations.append(dict(
                            what='the command action of the task ended abnormally (%s: %r) but the task was not reported as failed: run 2 rc=%s (%s, %s, %s)' % (kind, CMDS[kind], rc2, backend.__name__, checker.__name__, runner_cls.__name__),
                            shape='c05:abnormal-command-end-not-a-failure', case=dict(backend=backend.__name__, checker=checker.__name__, kind=kind, runner=runner_cls.__name__, run2=log2)))
                    elif rc1 != 0 or not failed2:
                        out.violations.append(dict(what='harness expectation broken: run1 rc=%s, run2 failure reported=%s (%s/%s/%s)' % (rc1, failed2, backend.__name__, checker.__name__, kind),
                                                   shape='c05:realdb-setup', case=dict(backend=backend.__name__, kind=kind)))
                    elif len(execs) == before:
                        out.violations.append(dict(
                            what='task failed (%s) in run 2 but was skipped as up-to-date in run 3: its earlier success is still recorded (%s, %s, %s)' % (kind, backend.__name__, checker.__name__, runner_cls.__name__),
                            shape='c05:failed-task-still-recorded', case=dict(backend=backend.__name__, checker=checker.__name__, kind=kind, runner=runner_cls.__name__, run3=log3)))
    out.extra['real_backend_failure_histories'] = n


def part_failed_rerun_shapes(ctx, out):
    """"executes again on the next run whatever the state of its inputs", over the ways a task declares what it
    depends on: file_dep, targets, and every kind of uptodate item.  History: (optionally a successful run,) a run
    in which the task executes -- with --always-execute, so that also a task that is up-to-date by definition
    executes -- and its action fails, then a plain run with everything else unchanged.  Oracle (from the property
    text alone): the task's action is executed in the last run."""
    from doit.task import Task
    from doit.control import TaskControl
    from doit.runner import Runner
    from doit.dependency import Dependency, JsonDB, DbmDB, SqliteDB
    from doit import tools
    import runlib
    SHAPES = ['file_dep', 'no-deps', 'true', 'true+target', 'none+true', 'run_once', 'false', 'config_changed',
              'callable-true', 'file_dep+true', 'cmd-true']
    n = 0
    for backend in (JsonDB, DbmDB, SqliteDB):
        for shape in SHAPES:
            for prior in (False, True):
                if ctx.quick and prior and backend is not JsonDB:
                    continue
                d = ctx.subdir('frs%d' % n); n += 1
                dep_file = os.path.join(d, 'dep.txt'); tgt = os.path.join(d, 'tgt.txt'); db = os.path.join(d, 'db')
                open(dep_file, 'w').write('a')
                mode = {'fail': False}
                execs = []

                def act():
                    execs.append(mode['fail'])
                    open(tgt, 'w').write('x')
                    return not mode['fail']

                def mk():
                    kw = {}
                    if shape in ('file_dep', 'file_dep+true'): kw['file_dep'] = [dep_file]
                    if shape == 'true+target': kw['targets'] = [tgt]
                    utd = {'true': [True], 'true+target': [True], 'none+true': [None, True], 'run_once': [tools.run_once],
                           'false': [False], 'config_changed': [tools.config_changed('cfg')],
                           'callable-true': [lambda task, values: True], 'file_dep+true': [True], 'cmd-true': ['true']}.get(shape)
                    if utd is not None: kw['uptodate'] = utd
                    return Task('t', [act], **kw)

                def one_run(always):
                    tc = TaskControl([mk()]); tc.process(None)
                    dm = Dependency(backend, db)
                    log = []
                    r = Runner(dm, runlib.RecReporter(log, {'t': 0}), always_execute=always)
                    so = (sys.stdout, sys.stderr)
                    try:
                        rc = r.run_all(tc.task_dispatcher())
                    finally:
                        sys.stdout, sys.stderr = so
                    return rc, log
                if prior:
                    mode['fail'] = False; one_run(True)
                mode['fail'] = True
                b0 = len(execs); rc2, log2 = one_run(True)
                failed2 = len(execs) == b0 + 1 and any(e[0] == 4 for e in log2)
                mode['fail'] = False
                b1 = len(execs); rc3, log3 = one_run(False)
                out.count('failed-rerun:%s' % shape); out.evaluations += 1
                out.nontrivial.add(('failed-rerun', backend.__name__, shape, prior))
                case = dict(part='failed-rerun', backend=backend.__name__, declares=shape, successful_run_before=prior, run2=log2, run3=log3)
                if not failed2:
                    out.violations.append(dict(what='harness expectation broken: the task did not execute and fail under --always-execute (%s, %s)' % (shape, backend.__name__),
                                               shape='c05:failed-rerun-setup', case=case))
                elif len(execs) == b1:
                    const = shape in ('true', 'true+target', 'none+true', 'callable-true', 'cmd-true')
                    out.violations.append(dict(
                        what='a task declaring %s executed (--always-execute) and FAILED; in the next run, nothing else changed, it was not executed again but skipped (%s backend%s)' % (
                            {'true': 'uptodate=[True] and no file_dep', 'true+target': 'uptodate=[True], a target and no file_dep', 'none+true': 'uptodate=[None, True] and no file_dep',
                             'callable-true': 'an uptodate callable that always returns True and no file_dep', 'cmd-true': 'an uptodate shell command that always succeeds and no file_dep'}.get(shape, shape),
                            backend.__name__, ', after an earlier successful run' if prior else ''),
                        shape='c05:constant-uptodate-skipped-after-failure' if const else 'c05:failed-task-skipped-next-run', case=case))
    out.extra['failed_rerun_histories'] = n
    out.rule += '; plus %d histories "executes and fails under --always-execute, then a plain run" over 11 ways of declaring dependencies x 3 backends' % n


def run(ctx):
    saved = runfam.ORACLES['C05']
    runfam.ORACLES['C05'] = oracle_c05_full
    try:
        out = runfam.run_property(ctx, 'C05')
    finally:
        runfam.ORACLES['C05'] = saved
    part_real_db(ctx, out)
    part_failed_rerun_shapes(ctx, out)
    c05_history.part_history(ctx, out)
    return out


def replay(ctx, payload):
    case = payload.get('case') if isinstance(payload, dict) else None
    if isinstance(case, dict) and case.get('part') == 'history':
        return c05_history.replay_history(ctx, case)
    print(payload)
    return 0
