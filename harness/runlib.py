"""Shared harness of the run family (C01 C02 C05 C08 C09 C11 C19): generation of task graphs,
execution on the REAL TaskControl/TaskDispatcher/Runner/MRunner/MThreadRunner (the parallel runners
under a deterministic scheduler), and rendering of the same case as a Coq term for
Model/Dispatch.v + Runner.v + Parallel.v.

Seams: the dependency manager is a recording fake (the model treats Dependency as an oracle:
status_is_ignore / get_status / get_values / save_success per task are inputs of a case), the
reporter is a recording reporter, python-actions are instrumented.  One internal is read:
the iteration order of ExecNode.waiting_me inside TaskDispatcher._update_waiting (wake_rank oracle).
"""
import copy, itertools, os, sys, threading, types

FUEL = 'FUEL'   # Coq-side name of the fuel constant
PRE = ('From DoitV Require Import Base Dispatch Runner Parallel.\nOpen Scope N_scope.\n'
       'Definition FUEL : nat := N.to_nat 4000.\n')

CHECK = {'run': 'CkRun', 'utd': 'CkUpToDate', 'err': 'CkError'}
OUTC = {'ok': 'OOk', 'fail': 'OFail', 'error': 'OError', 'saveerr': 'OSaveErr', 'interrupt': 'OInterrupt', 'failv': 'OFailV'}


# ------------------------------------------------------------------------------------------
# names: calc-capable tasks need names whose hash slots (8-slot set table) are distinct, so that
# the iteration order of every small set of them is the ascending slot order (= calc_rank)
def pick_names(n):
    names, used = [], set()
    i = 0
    while len(names) < n:
        cand = 't%d' % i
        i += 1
        slot = hash(cand) & 7
        if len(names) < 4:
            if slot in used:
                continue
            used.add(slot)
        names.append(cand)
    return names


def calc_rank_of(names):
    return {nm: (hash(nm) & 7) for nm in names}


def set_order_ok(names, idxs):
    """does Python iterate the set of these names in ascending-slot order?"""
    s = set(names[i] for i in idxs)
    want = sorted(s, key=lambda nm: hash(nm) & 7)
    return list(s) == want and list(s.copy()) == want


# ------------------------------------------------------------------------------------------
def gen_case(rng, n=None, cyclic=False, flavour=None, profile='mixed'):
    """random task graph + run configuration.  Tasks 0..3 are the only calc-capable ones."""
    n = n or rng.choice([2, 3, 4, 5, 6, 8, 10])
    tasks = []
    for i in range(n):
        # acyclic by default: dependencies point to higher ids; definition order is shuffled by `order`
        later = list(range(i + 1, n)) if not cyclic else [j for j in range(n) if j != i or rng.random() < 0.1]
        def pick(p, mx=3):
            return [j for j in rng.sample(later, min(len(later), rng.randrange(0, mx + 1))) if rng.random() < p] if later else []
        t = dict(task_dep=pick(0.7), setup=pick(0.35 if profile != 'plain' else 0.0, 2), calc_dep=[], file_edge=[],
                 teardown=rng.random() < 0.3, dbignore=rng.random() < 0.06,
                 check=rng.choices(['run', 'utd', 'err'], weights=[6, 3, 1])[0],
                 argerr=rng.random() < 0.05,
                 outcome=rng.choices(['ok', 'fail', 'error', 'saveerr', 'failv'], weights=[12, 2, 1, 1, 1])[0],
                 calc_task=[], calc_file=[], calc_calc=[], getargs=[])
        if rng.random() < 0.3:
            t['task_dep'] = t['task_dep'] + [rng.choice(t['task_dep'])] if t['task_dep'] else t['task_dep']   # duplicate entry
        # some task_dep edges are expressed as file_dep on the other task's target (implicit task_dep)
        t['file_edge'] = [j for j in pick(0.4, 2)]
        if profile in ('mixed', 'calc'):
            cands = [j for j in later if j < 4]
            if cands and rng.random() < (0.35 if profile == 'mixed' else 0.8):
                t['calc_dep'] = rng.sample(cands, min(len(cands), rng.choice([1, 1, 2])))
        if rng.random() < 0.12 and later:
            src = rng.choice(later)
            t['getargs'] = [src]
        tasks.append(t)
    # calc results: a calc-capable task may contribute deps to whoever uses it as calc_dep
    for c in range(min(4, n)):
        users = [i for i in range(n) if c in tasks[i]['calc_dep']]
        if not users:
            continue
        lo = (max(users) + 1) if not cyclic else 0
        pool = [j for j in range(lo, n) if j != c] if not cyclic else list(range(n))
        if not cyclic:
            pool = [j for j in range(n) if j > min(users) and j != c and all(j > u for u in users)]
        if pool:
            tasks[c]['calc_task'] = [j for j in rng.sample(pool, min(len(pool), 2)) if rng.random() < 0.6]
            tasks[c]['calc_file'] = [j for j in rng.sample(pool, min(len(pool), 2)) if rng.random() < 0.4]
            tasks[c]['calc_calc'] = [j for j in pool if j < 4 and rng.random() < 0.3][:1]
    if rng.random() < 0.25:   # exercise failure-free graphs too
        for t in tasks:
            t['outcome'] = 'ok'; t['argerr'] = False
            if t['check'] == 'err':
                t['check'] = 'run'
    sel_n = rng.choice([1, 1, 2, 3, n])
    selected = rng.sample(range(n), min(n, sel_n))
    if rng.random() < 0.2:
        selected = selected + [selected[0]]
    flavour = flavour or rng.choice(['serial', 'thread', 'proc'])
    k = rng.choice([1, 2, 2, 3, 4])
    return dict(n=n, tasks=tasks, selected=selected, cont=rng.random() < 0.5, always=rng.random() < 0.15,
                flavour=flavour, k=k, sched=[rng.randrange(0, 60) for _ in range(60)])


# ------------------------------------------------------------------------------------------
class Hang(Exception):
    pass


class Sched:
    """deterministic scheduler: exactly one thread runs at a time; the main thread chooses, at each
    of its blocking points, which enabled step happens next (same rule as Parallel.v main_get)"""
    def __init__(self, choices, proc):
        self.choices = list(choices); self.ci = 0; self.arity = []
        self.proc = proc
        self.main_sem = threading.Semaphore(0)
        self.workers = []; self.queues = []
        self.jobs = []; self.results = []; self.log = []

    def choose(self, n):
        if n <= 1:
            return 0
        c = self.choices[self.ci] if self.ci < len(self.choices) else 0
        self.ci += 1; self.arity.append(n)
        return c % n

    def run_worker(self, w):
        w.sem.release(); self.main_sem.acquire()

    def block(self, w, state):
        w.state = state
        self.main_sem.release(); w.sem.acquire()

    def enabled(self):
        return [w for w in self.workers if (w.state == 'idle' and self.jobs) or isinstance(w.state, tuple)]


S = None


class FakeQueue:
    def __init__(self):
        self.role = 'result' if not S.queues else 'job'
        S.queues.append(self)

    def put(self, item):
        (S.results if self.role == 'result' else S.jobs).append(item)

    def get(self):
        if self.role == 'job':
            w = threading.current_thread()
            if w.fresh:
                w.fresh = False
            else:
                S.block(w, 'idle')
            return S.jobs.pop(0)
        while True:
            en = S.enabled(); can = bool(S.results)
            nopt = (1 if can else 0) + len(en)
            if nopt == 0:
                S.log.append([24])
                raise Hang()
            c = S.choose(nopt)
            if can and c == 0:
                return S.results.pop(0)
            S.run_worker(en[c - 1 if can else c])

    def empty(self):
        return not S.results


class FakeChild(threading.Thread):
    def __init__(self, target=None, args=()):
        super().__init__(daemon=True)
        if S.proc:
            # a child process has its own copy of the runner object: own teardown_list, own reporter attr
            runner = target.__self__
            cp = copy.copy(runner)
            cp.teardown_list = []
            target = types.MethodType(target.__func__, cp)
        self.target, self.args = target, args
        self.sem = threading.Semaphore(0); self.state = 'new'; self.idx = len(S.workers); self.fresh = False
        S.workers.append(self)

    def run(self):
        self.sem.acquire()
        self.fresh = True
        try:
            self.target(*self.args)
        finally:
            if self.state != 'killed':
                self.state = 'exited'
            S.main_sem.release()

    def start(self):
        super().start()
        self.state = 'idle'

    def join(self, timeout=None):
        while self.state not in ('exited', 'killed'):
            en = S.enabled()
            if not en:
                S.log.append([24])
                raise Hang()
            S.run_worker(en[S.choose(len(en))])

    def terminate(self):
        if self.idx == 0:
            S.log.append([23])
        self.state = 'killed'


class RecReporter:
    def __init__(self, log, ids):
        self.log = log; self.ids = ids

    def _e(self, code, task, *more):
        self.log.append([code, self.ids[task.name]] + list(more))

    def get_status(self, t): self._e(1, t)
    def skip_ignore(self, t): self._e(2, t)
    def skip_uptodate(self, t): self._e(3, t)
    def add_failure(self, t, f):
        kind = {'TaskFailed': 0, 'TaskError': 1, 'UnmetDependency': 2, 'DependencyError': 3}.get(f.get_name(), 9)
        self._e(4, t, kind)
    def execute_task(self, t): self._e(5, t)
    def add_success(self, t): self._e(6, t)
    def teardown_task(self, t): self._e(9, t)
    def cleanup_error(self, e): pass
    def runtime_error(self, m): self.log.append([30])
    def complete_run(self): pass


class Status:
    def __init__(self, status): self.status = status
    def get_error_message(self): return 'fake error'


class FakeDep:
    """recording stand-in for doit.dependency.Dependency at the runner's seam"""
    def __init__(self, case, names, ids, log, calc_values):
        self.case, self.names, self.ids, self.log, self.calc_values = case, names, ids, log, calc_values

    def status_is_ignore(self, task):
        return '1' if self.case['tasks'][self.ids[task.name]]['dbignore'] else None

    def get_status(self, task, tasks_dict, get_log=False):
        task.dep_changed = []
        return Status({'run': 'run', 'utd': 'up-to-date', 'err': 'error'}[self.case['tasks'][self.ids[task.name]]['check']])

    def get_values(self, name):
        return dict(self.calc_values.get(self.ids[name], {}))

    def get_value(self, task_id, key):
        raise Exception('no value')

    def save_success(self, task, result_hash=None):
        if self.case['tasks'][self.ids[task.name]]['outcome'] == 'saveerr':
            raise FileNotFoundError(2, 'No such file', 'gone')
        self.log.append([7, self.ids[task.name]])

    def remove_success(self, task):
        self.log.append([8, self.ids[task.name]])

    def close(self):
        self.log.append([10])


def build(case):
    """real Task objects + TaskControl for a case; returns (tc, names, ids, log, hooks)"""
    from doit.task import Task
    from doit.control import TaskControl
    n = case['n']
    names = pick_names(n)
    ids = {nm: i for i, nm in enumerate(names)}
    log = []
    calc_values = {}
    for c, t in enumerate(case['tasks']):
        if t['calc_task'] or t['calc_file'] or t['calc_calc']:
            calc_values[c] = {'task_dep': [names[j] for j in t['calc_task']],
                              'file_dep': ['tgt_%s' % names[j] for j in t['calc_file']] + ['plain_file_%d' % c],
                              'calc_dep': [names[j] for j in t['calc_calc']]}
    gate = [None]
    task_list = []
    for i, t in enumerate(case['tasks']):
        def act(i=i, t=t):
            if gate[0]:
                gate[0](i)
            o = t['outcome']
            if o == 'fail':
                return False
            if o == 'error':
                raise RuntimeError('action error')
            if o == 'interrupt':
                raise KeyboardInterrupt('stop')
            return dict(calc_values[i]) if i in calc_values else True

        def act2(t=t):
            # second action of the task: 'failv' = the first action succeeded (values are set), this one fails
            return t['outcome'] != 'failv'

        def td(i=i):
            w = threading.current_thread()
            if isinstance(w, FakeChild):
                log.append([22, i, w.idx])
        kw = {}
        if t['argerr']:
            kw['params'] = [{'name': 'p'}]           # CmdOption without 'default': init_options() raises
        if t['getargs']:
            kw['getargs'] = {'x': (names[t['getargs'][0]], 'v')}
        task_list.append(Task(names[i], [act, act2], task_dep=[names[j] for j in t['task_dep']],
                              setup=[names[j] for j in t['setup']], calc_dep=[names[j] for j in t['calc_dep']],
                              file_dep=['tgt_%s' % names[j] for j in t['file_edge']], targets=['tgt_%s' % names[i]],
                              teardown=[td] if t['teardown'] else [], **kw))
    tc = TaskControl(task_list)
    tc.selected_tasks = [names[i] for i in case['selected']]
    return tc, names, ids, log, calc_values, gate


def model_input(case, tc, names, ids):
    """the task table as the dispatcher sees it (after TaskControl.__init__)"""
    rows = []
    for i, t in enumerate(case['tasks']):
        real = tc.tasks[names[i]]
        has_getargs_err = bool(t['getargs'])    # FakeDep.get_value always raises
        rows.append(dict(
            task_dep=[ids[x] for x in real.task_dep], setup=[ids[x] for x in real.setup_tasks],
            calc_dep=sorted((ids[x] for x in real.calc_dep), key=lambda j: hash(names[j]) & 7),
            teardown=t['teardown'], dbignore=t['dbignore'], check=t['check'],
            argerr=t['argerr'] or has_getargs_err, outcome=t['outcome'],
            calc_task=t['calc_task'], calc_file=t['calc_file'], calc_calc=t['calc_calc']))
    return rows


def sets_ok(case, names, rows):
    """all calc_dep sets the run can build must iterate in rank order (else the case is skipped)"""
    for r in rows:
        pools = [set(r['calc_dep'])]
        for c in r['calc_dep']:
            pools.append(set(rows[c]['calc_calc']))
        allc = set().union(*pools)
        if len(allc) > 4:
            return False
        for k in range(1, len(allc) + 1):
            for sub in itertools.combinations(sorted(allc), k):
                if not set_order_ok(names, sub):
                    return False
    return True


def nl(xs):
    return '[' + '; '.join(str(x) for x in xs) + ']'


def coq_table(rows, suffix):
    arms = []
    for i, r in enumerate(rows):
        arms.append('| %d => Some (Build_task %s %s %s %s %s %s %s %s %s %s %s)' % (
            i, nl(r['task_dep']), nl(r['setup']), nl(r['calc_dep']), str(r['teardown']).lower(), str(r['dbignore']).lower(),
            CHECK[r['check']], str(r['argerr']).lower(), OUTC[r['outcome']], nl(r['calc_task']), nl(r['calc_file']), nl(r['calc_calc'])))
    return 'Definition tb%s (n : name) : option task := match n with %s | _ => None end.' % (suffix, ' '.join(arms))


def coq_wake(wake, suffix):
    """wake: {processed id: [ids in iteration order]} -> rank function"""
    arms = []
    for p, order in wake.items():
        inner = ' '.join('| %d => %d' % (x, pos) for pos, x in enumerate(order))
        arms.append('| %d => match x with %s | _ => 99 end' % (p, inner))
    return 'Definition wk%s (p x : name) : N := match p with %s | _ => 0 end.' % (suffix, ' '.join(arms))


def coq_calc_rank(names, suffix):
    arms = ' '.join('| %d => %d' % (i, hash(nm) & 7) for i, nm in enumerate(names[:4]))
    return 'Definition cr%s (x : name) : N := match x with %s | _ => 50 + x end.' % (suffix, arms)


def run_impl(case):
    """run the real code; returns dict(trace=[ints], rc=int, wake=..., rows=..., names=...) or dict(skip=...)"""
    global S
    import doit.runner as R
    import doit.control as C
    from doit.exceptions import InvalidDodoFile, InvalidTask
    try:
        tc, names, ids, log, calc_values, gate = build(case)
    except (InvalidTask, InvalidDodoFile) as e:
        return dict(skip='load-error: %s' % e)
    rows = model_input(case, tc, names, ids)
    if not sets_ok(case, names, rows):
        return dict(skip='set-order')
    dep = FakeDep(case, names, ids, log, calc_values)
    rep = RecReporter(log, ids)
    wake = {}
    orig_uw = C.TaskDispatcher._update_waiting

    def wrapped(self, processed):
        if processed is not None and processed.run_status != 'run':
            wake[ids[processed.task.name]] = [ids[nd.task.name] for nd in processed.waiting_me]
        return orig_uw(self, processed)
    C.TaskDispatcher._update_waiting = wrapped
    flavour = case['flavour']
    saved_streams = (sys.stdout, sys.stderr)
    orig_process = R.Process
    rc = None
    try:
        if flavour == 'serial':
            runner = R.Runner(dep, rep, continue_=case['cont'], always_execute=case['always'])
        else:
            S = Sched(case['sched'], flavour == 'proc')
            S.log = log

            def g(i):
                w = threading.current_thread()
                log.append([20, i, w.idx])
                S.block(w, ('busy', i))
                log.append([21, i, w.idx])
            gate[0] = g
            if flavour == 'proc':
                R.Process = FakeChild

            class SRunner(R.MRunner if flavour == 'proc' else R.MThreadRunner):
                Queue = staticmethod(FakeQueue)
                Child = staticmethod(FakeChild)
            runner = SRunner(dep, rep, continue_=case['cont'], always_execute=case['always'], num_process=case['k'])
        try:
            rc = runner.run_all(tc.task_dispatcher())
        except InvalidDodoFile as e:
            msg = str(e)
            log.append([12] if 'waiting for each other' in msg else ([11] if 'Cyclic/recursive dependencies for task' in msg else [31]))
            rc = 3
        except KeyboardInterrupt:
            log.append([13])
            rc = 4
        except Hang:
            rc = 98
        except BaseException as e:   # an internal error escaping run_all: observable as a crash
            log.append([32])
            rc = 97
            case['_crash'] = repr(e)
    finally:
        C.TaskDispatcher._update_waiting = orig_uw
        R.Process = orig_process
        sys.stdout, sys.stderr = saved_streams
        gate[0] = None
    trace = [x for ev in log for x in ev]
    # the dependencies of each task as the real Task objects hold them after the run (dynamic ones included)
    real_deps, real_nonsetup = {}, {}
    for nm, t in tc.tasks.items():
        if nm in ids:
            real_deps[ids[nm]] = sorted(set(ids[x] for x in list(t.task_dep) + list(t.setup_tasks) + list(t.calc_dep) if x in ids))
            real_nonsetup[ids[nm]] = sorted(set(ids[x] for x in list(t.task_dep) + list(t.calc_dep) if x in ids))
    return dict(trace=trace, events=[list(e) for e in log], rc=rc, wake=wake, rows=rows, names=names,
                real_deps=real_deps, real_nonsetup=real_nonsetup, arity=(S.arity if flavour != 'serial' else []))


def coq_case(case, res, idx):
    sfx = str(idx)
    defs = '\n'.join([coq_table(res['rows'], sfx), coq_wake(res['wake'], sfx), coq_calc_rank(res['names'], sfx)])
    b = lambda x: 'true' if x else 'false'
    sel = nl(case['selected'])
    if case['flavour'] == 'serial':
        expr = ('let r := run_serial tb%s wk%s cr%s %s %s FUEL %s in enc_trace (fst r) ++ [-1; zN (snd r)]%%Z'
                % (sfx, sfx, sfx, b(case['cont']), b(case['always']), sel))
    else:
        expr = ('let r := run_parallel tb%s wk%s cr%s %s %s %s FUEL %d %s%%nat %s in enc_ptrace (fst r) ++ [-1; zN (snd r)]%%Z'
                % (sfx, sfx, sfx, b(case['cont']), b(case['always']), b(case['flavour'] == 'proc'), case['k'],
                   nl(case['sched']), sel))
    return defs, expr


def all_schedules(case, limit=400):
    """enumerate every schedule of a parallel case depth-first over the recorded arities"""
    out, stack, seen = [], [[]], 0
    while stack and seen < limit:
        pref = stack.pop()
        c = dict(case); c['sched'] = pref + [0] * 80
        res = run_impl(c)
        seen += 1
        if 'skip' in res:
            return []
        used = res['arity']
        c['sched'] = (pref + [0] * 80)[:max(len(used), 1)]
        out.append((c, res))
        for i in range(len(pref), len(used)):
            for alt in range(1, used[i]):
                stack.append(pref + [0] * (i - len(pref)) + [alt])
    return out


# ------------------------------------------------------------------------------------------
# independent oracles on an observed event list (no model involved)
FINAL_CODES = (2, 3, 4, 6)


def declared_deps(case, events):
    """effective dependencies computed from the generated case itself (independent of what TaskControl /
    the dispatcher made of it): task_dep, setup, calc_dep, file_dep on another task's target, getargs
    sources, and -- for every calc_dep task that ended successful / up-to-date in this run -- the tasks its
    saved values name (task_dep, producers of file_dep, further calc_dep), transitively"""
    good = set(e[1] for e in events if e[0] in (3, 6) and len(e) > 1)
    tasks = case['tasks']
    out = {}
    for t, row in enumerate(tasks):
        deps = set(row['task_dep']) | set(row['setup']) | set(row['file_edge']) | set(row.get('getargs', []))
        calcs, todo = set(), list(row['calc_dep'])
        while todo:
            c = todo.pop()
            if c in calcs or c >= len(tasks):
                continue
            calcs.add(c)
            if c in good:
                deps |= set(tasks[c]['calc_task']) | set(tasks[c]['calc_file'])
                todo += list(tasks[c]['calc_calc'])
        out[t] = sorted(x for x in deps | calcs if x < len(tasks))
    return out


def check_dep_order(events, real_deps, flavour, case=None):
    """C01: a task's actions start only after every task it depends on got its final report.
    start = [20,t,w] under the parallel runners (the action itself), [5,t] in the serial runner.
    Dependencies: what the real Task objects hold after the run, united with the declared ones (declared_deps)."""
    finished, bad = set(), []
    start_code = 5 if flavour == 'serial' else 20
    running = {}
    decl = declared_deps(case, events) if case is not None else {}
    for ev in events:
        if ev[0] in FINAL_CODES:
            finished.add(ev[1])
        if ev[0] == start_code:
            t = ev[1]
            missing = [d for d in sorted(set(real_deps.get(t, [])) | set(decl.get(t, []))) if d not in finished]
            if missing:
                bad.append(dict(task=t, unfinished_deps=missing))
            running[t] = True
        if ev[0] == 21:
            running.pop(ev[1], None)
    return bad
