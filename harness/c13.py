"""C13 -- forget, ignore and reset-dep have exactly their documented effect.

Correspondence, through the REAL command line (`DoitMain(ModuleTaskLoader(ns)).run([...])`, in-process):
a generated dodo namespace (plain tasks, group tasks with sub-tasks, task_dep / setup / calc_dep, file_dep
and targets on files of a temp dir, implicit task_dep through a target, uptodate items, default_tasks
on/off, a stale record of a task that is no longer defined) gets a DB pre-state from a real
`run --continue` (some tasks failing), then file / definition / checker changes; then one to three
command applications `forget | ignore | reset-dep` in every argument form (none, names, group, sub-task,
unknown name, -s/--follow-sub, -a/--all, --disable-default/--enable-default), each one
  * preceded by a dump of the logical DB content (read back through a fresh Dependency on the same
    backend: json / dbm / sqlite3) -- this dump is the [db] handed to the model,
  * followed by a dump, and by a real `doit run` with a recording reporter.  The options of that run are the
    ones that interact with the saved state, chosen from the PRNG: the selection (all top-level tasks, or
    1-3 tasks / sub-tasks named on the command line), --continue or not, -a/--always-execute or not,
    `-n 2 -P thread` (with --continue only).  A step may also have NO command (`none`): two runs in a row.
    Every seed also gets, per backend, the histories  run; ignore T; run -a; run -a <dependents of T>; run;
    forget T; run  for T a plain task, a group (its sub-tasks) and a setup-task; and the histories
    run; ignore T; <T made not up-to-date>; reset-dep [T | no argument]; run; forget T; run  for each of the four ways a task
    is not up-to-date (never executed, a file_dep changed, a target missing, an uptodate item false), for a group (all three
    of its tasks processed at once) and -- the documented exception -- under a changed checker.
    ROUND F -- the commands that only look.  "Until forgotten" quantifies over everything a user does between `ignore T` and a
    later run that is not `forget`: steps may also be `list [--all] [-s|--status] [--deps] [--sort definition] [names]`,
    `info [--no-status] name`, `clean [-n|--dry-run] [-c] names` (never --forget; no task has clean actions), and EVERY command of
    a history (the three of the statement too) and every run may be given its own `--check_file_uptodate md5|timestamp` on the
    command line -- the checker of that process only, possibly not the one that wrote the records nor the one of the next run
    (step['ck'], run['ck']; `checker` mutations change the configured one).  13 fixed histories per backend (inspect_fixed_specs:
    run; ignore T; T made not up-to-date; list / info / clean under either checker; run; forget T; run -- T a task with
    dependents, a group, a setup-task; a record holding only the mark; refused arguments) + random ones (gen_inspect_steps).
    Each command is a process of its own for doit; here they share one, so what the end of a process does to a dependency
    manager that was never closed (list, info) is done by `end_of_process`.
    Model: Model/Inspect.v (list_step / info_step = Introspect.list_cmd / info_cmd of C20 as a history step with the DB ON DISK
    afterwards: a record get_status dropped in memory is gone from a dbm file only; clean_step: nothing), then Commands.next_run.
    Oracle: nothing new -- `update_held` / `ignore_oracle` below never mention which command ran: whatever it was, if it was not a
    `forget` covering T, T keeps the mark and is skipped, with its dependents, by every later run.
Model side (inside Coq): Commands.forget / ignore_cmd / resetdep_cmd on the task table READ FROM THE
REAL Task OBJECTS the loader returned (name, task_dep, setup_tasks, calc_dep, subtask_of, file_dep,
targets; uptodate items come from the spec), then Commands.next_run (Runner.run_serial with the selection and
the flags continue / always of that run) on the table TaskControl leaves.  A thread-parallel run is compared
with the serial model run (C08: per-task outcomes and, under --continue, the exit code do not depend on the
schedule).  A run WITHOUT --continue that ends with a failure stops at a point that depends on the iteration order
of Python sets, which this check does not record: then (Commands.observe_cmd) every task the real run reported
must have the mask of the --continue model run, and the exit code must be the model's.

Encoding (Commands.observe_cmd; both sides the same list of ints):
  [outcome: 0 ok | 1 message only | 100+id "'id' is not a task." | 97 KeyError | 98 other exception]
  ++ [task id; code]* one pair per line written ("forgetting/ignoring X": code 0; reset-dep: 0 failed,
     1 skip, 2 processed; list: one pair per task line, code = letter 0 none | 1 I | 2 U | 3 R | 4 E; info: one pair,
     code = -1 no status | 0 up-to-date | 1 run | 2 error | 3 ignored; info with not exactly one name: outcome 1)
  ++ [-7] ++ per task (table order, then the stale one) the record as History.rec_z:
     [0] | [1; mask(deps) or -1; len(deps) or -1; checker 0/1/2; result id or -1; ignore] ++ 4 ints per
     file (0,0,0,0 | 1,mtime,size,digest id | 2,mtime,0,0) ++ one int per value key (-2 absent, -1 None, n)
  ++ [-7] ++ per task a bit mask of what the next run reported (1 execute, 2 skip up-to-date,
     4 skip ignore, 8 failure, 16 success) ++ [its exit code]          (left out: Commands.observe_db)
Task ids = position in the loader's list; unknown names = 50, 51; the stale record = number of tasks.
mtimes are harness-clock numbers (BASE subtracted); digests/contents are ids of 5 fixed byte strings.

Independent oracle (no use of the model; only the spec and what was observed), see `oracle`, `ignore_oracle` and
`update_held`: besides the per-command rules, the check keeps, from the COMMANDS GIVEN (not from the 'ignore:' key), the set of
tasks that were ignored and not forgotten since ("until forgotten"); each of them must still carry the mark after every
later command and must be reported skip-ignore -- never executed -- by every later run, and so must every task depending
on one.  The one way other than `forget` a task leaves that set: `reset-dep` "processed" it while its record was written by
a checker OTHER than the configured one (the whole record, mark included, is dropped with the foreign state -- dependency.py
get_status 680-689 / save_success).  With the recorded checker equal to the configured one, or with no checker recorded
(a record that holds only the mark), reset-dep keeps the mark whatever it reports (failed / skip / processed).
"""
import hashlib, io, json, os, sys
import common
from common import Outcome

PRE = ('From DoitV Require Import Base Status History Commands Inspect.\nFrom DoitV Require Introspect.\nOpen Scope Z_scope.\n'
       'Definition md5o (c : N) : N := c.\n'
       'Definition LO (a s dd sn : bool) (pos : list name) : Introspect.lopts := {| Introspect.o_subtasks := a; Introspect.o_status := s; '
       'Introspect.o_private := false; Introspect.o_list_deps := dd; Introspect.o_sort_name := sn; Introspect.o_pos := pos |}.\n')
BASE = 1600000000
CONTENT = {0: b'aaaa', 1: b'bbbb', 2: b'cc', 3: b'dddd', 4: b''}
DIGEST = {hashlib.md5(b).hexdigest(): c for c, b in CONTENT.items()}
RESULT_MD5 = {hashlib.md5(('res%d' % i).encode()).hexdigest(): i for i in range(8)}
NDEP, NTGT = 4, 4
FILES = list(range(NDEP + NTGT))
VKEYS = ['run-once', '_config_changed', 'u0', 'u1', 'u2', '_result:0', '_result:1', '_result:2']
VKEY_N = {'run-once': 0, '_config_changed': 1, 'u0': 2, 'u1': 4, 'u2': 6}
CK_CLS = {'md5': 'MD5Checker', 'timestamp': 'TimestampChecker'}
CK_Z = {'MD5Checker': 1, 'TimestampChecker': 2, None: 0}
UNKNOWN = {'zz': 50, 'a:nope': 51}
BACKENDS = ['json', 'dbm', 'sqlite3']
BACKEND_COQ = {'json': 'Introspect.BJson', 'dbm': 'Introspect.BDbm', 'sqlite3': 'Introspect.BSqlite'}
INSPECT = ('list', 'info', 'clean')          # commands that only look at the tasks (clean: without --forget, no clean actions)
CK_COQ = {'md5': 'MD5', 'timestamp': 'TS'}
LETTER_Z = {'I': 1, 'U': 2, 'R': 3, 'E': 4}
ISTATUS_Z = {'up-to-date': 0, 'run': 1, 'error': 2, 'ignored': 3}


def mask(xs):
    m = 0
    for x in xs:
        m |= 1 << x
    return m


# ------------------------------------------------------------------ the world: files, namespace, real commands
LOG, EV = [], []


class Rep:
    """recording reporter (DOIT_CONFIG['reporter'])"""
    desc = 'c13 recorder'

    def __init__(self, outstream, options):
        pass

    def initialize(self, tasks, selected):
        pass

    def get_status(self, task):
        EV.append(('gs', task.name))

    def execute_task(self, task):
        EV.append(('exec', task.name))

    def add_failure(self, task, fail):
        EV.append(('fail', task.name))

    def add_success(self, task):
        EV.append(('ok', task.name))

    def skip_uptodate(self, task):
        EV.append(('utd', task.name))

    def skip_ignore(self, task):
        EV.append(('ign', task.name))

    def cleanup_error(self, exception):
        EV.append(('cleanup_error', ''))

    def runtime_error(self, msg):
        EV.append(('rterr', ''))

    def teardown_task(self, task):
        pass

    def complete_run(self):
        pass


def all_tasks(spec):
    """[(name, parent or None, task dict or None)] in creator order; a group task has no dict"""
    out = []
    for c in spec['creators']:
        if c['kind'] == 'plain':
            out.append((c['name'], None, c['task']))
        else:
            out.append((c['name'], None, None))
            for s in c['subs']:
                out.append(('%s:%s' % (c['name'], s['name']), c['name'], s['task']))
    return out


def _no_conv(data):
    return data


def cache_entry_points():
    """Every doit command object asks importlib.metadata.entry_points(group=...) for plugins (doit/plugin.py): a scan of the
    metadata of every installed distribution, ~18 ms per command -- more than most commands of these histories take.  The set of
    installed distributions does not change during a check: the answers are memoised per group (an environment oracle, not doit
    code; same device as harness/c20.py, and the same memo when both are loaded)"""
    import importlib.metadata as M
    if getattr(M.entry_points, '_c20_memo', None) is not None:
        return
    real, memo = M.entry_points, {}

    def entry_points(**params):
        k = tuple(sorted(params.items()))
        if k not in memo:
            memo[k] = real(**params)
        return memo[k]
    entry_points._c20_memo = memo
    M.entry_points = entry_points


def end_of_process(backend, unclosed=True):
    """every command of a history is a process of its own; here they share one.  What the end of the process does to a DB object
    that was never closed (list / info): it is dropped.  SqliteDB registers a converter closure (holding the SqliteDB, so its
    connection) in the sqlite3 module, and doit.globals.Globals.dep_manager keeps the Dependency: in-process the connection of the
    previous command would stay open -- with its uncommitted DELETE and the lock on the file -- until the next command replaces
    both (same device as harness/c20.py)"""
    from doit.globals import Globals
    Globals.dep_manager = None                 # the singleton keeps the dependency manager of the last command
    if backend == 'sqlite3':
        import sqlite3
        sqlite3.register_converter('json', _no_conv)
    if unclosed:                               # list / info never close the manager, nor does a command that died: the objects
        import gc                              # of the command (cycles) keep it until collected
        gc.collect()


class World:
    def __init__(self, ctx, spec, tag):
        self.dir = ctx.subdir('w')             # one directory: the path strings are the same in every case
        for f in os.listdir(self.dir):
            os.remove(os.path.join(self.dir, f))
        self.spec = spec
        self.backend = spec['backend']
        self.dbpath = os.path.join(self.dir, 'deps-' + self.backend)
        self.clock = 1
        self.fsview = {}
        self.ck = spec['pre']['ck']
        self.eck = self.ck                      # the checker of the command being judged (its own --check_file_uptodate, or the configured one)
        self.defs = {n: (dict(t) if t is not None else None) for n, p, t in all_tasks(spec)}
        self.fail = set()
        self.with_old = False
        for f, c in sorted(spec['files'].items(), key=lambda kv: int(kv[0])):
            self.write(int(f), c)

    def path(self, f):
        return os.path.join(self.dir, 'f%d' % f)

    @staticmethod
    def fileno(p):
        return int(os.path.basename(p)[1:])

    def write(self, f, c):
        p = self.path(f)
        with open(p, 'wb') as fh:
            fh.write(CONTENT[c])
        ns = (BASE + self.clock) * 10 ** 9
        os.utime(p, ns=(ns, ns))
        self.fsview[f] = (self.clock, len(CONTENT[c]), c)
        self.clock += 1

    def touch(self, f):
        if f in self.fsview:
            self.write(f, self.fsview[f][2])

    def delete(self, f):
        if f in self.fsview:
            os.remove(self.path(f))
            del self.fsview[f]

    # ---- namespace
    def make_utd(self, u):
        from doit import tools
        k = u[0]
        if k == 'bool':
            return u[1]
        if k == 'none':
            return None
        if k == 'call':
            r = u[1]
            return lambda: r
        if k == 'run_once':
            return tools.run_once
        if k == 'config':
            return tools.config_changed('cfg%d' % u[1])
        raise ValueError(u)

    def task_dict(self, full, t):
        def act():
            LOG.append(full)
            if full in self.fail:
                return False
            r = t['ret']
            if r[0] == 'dict':
                return {'u%d' % r[1]: r[2]}
            if r[0] == 'str':
                return 'res%d' % r[1]
            return True
        d = {'actions': [act]}
        if t['task_dep']:
            d['task_dep'] = list(t['task_dep'])
        if t['setup']:
            d['setup'] = list(t['setup'])
        if t['calc_dep']:
            d['calc_dep'] = list(t['calc_dep'])
        if t['file_dep']:
            d['file_dep'] = [self.path(f) for f in sorted(t['file_dep'])]
        if t['targets']:
            d['targets'] = [self.path(f) for f in t['targets']]
        if t['uptodate']:
            d['uptodate'] = [self.make_utd(u) for u in t['uptodate']]
        return d

    def namespace(self, cli_db):
        ns = {}
        for c in self.spec['creators']:
            if c['kind'] == 'plain':
                def creator(c=c):
                    return self.task_dict(c['name'], self.defs[c['name']])
            else:
                def creator(c=c):
                    for s in c['subs']:
                        full = '%s:%s' % (c['name'], s['name'])
                        d = self.task_dict(full, self.defs[full])
                        d['name'] = s['name']
                        yield d
            ns['task_' + c['name']] = creator
        if self.with_old:
            def old():
                def act():
                    LOG.append('old')
                return {'actions': [act], 'uptodate': [True]}
            ns['task_old'] = old
        cfg = {'verbosity': 0, 'reporter': Rep}
        if not cli_db:
            cfg.update({'dep_file': self.dbpath, 'backend': self.backend, 'check_file_uptodate': self.ck})
        if self.spec['default'] is not None:
            cfg['default_tasks'] = list(self.spec['default'])
        ns['DOIT_CONFIG'] = cfg
        return ns

    def doit(self, cmd, rest, cli_db=False, ck=None):
        """one real command line; -> (rc, stdout, stderr, actions executed, reporter events).  [ck]: the file checker given
        to THIS command with --check_file_uptodate (None: the configured one)"""
        from doit.doit_cmd import DoitMain
        from doit.cmd_base import ModuleTaskLoader
        args = [cmd]
        if cli_db:
            args += ['--db-file', self.dbpath, '--backend', self.backend, '--check_file_uptodate', ck or self.ck]
        elif ck:
            args += ['--check_file_uptodate', ck]
        args += rest
        del LOG[:], EV[:]
        cache_entry_points()
        rc = 98
        o, e = io.StringIO(), io.StringIO()
        so, se = sys.stdout, sys.stderr
        sys.stdout, sys.stderr = o, e
        try:
            try:
                rc = DoitMain(ModuleTaskLoader(self.namespace(cli_db))).run(args)
            except BaseException as ex:  # noqa -- becomes an observable
                rc = 98
                e.write('escaped: %r' % (ex,))
        finally:
            sys.stdout, sys.stderr = so, se
            end_of_process(self.backend, unclosed=cmd in INSPECT or rc not in (None, 0, 1, 2))
        return rc, o.getvalue(), e.getvalue(), list(LOG), list(EV)

    # ---- the task table, read from the real objects
    def read_tables(self):
        """-> (order, cmd_table, run_table or None); a table: name -> dict(task_dep, setup, calc_dep, subtask_of, file_dep, targets)"""
        from doit import loader
        from doit.control import TaskControl

        def row(t):
            return dict(task_dep=list(t.task_dep), setup=list(t.setup_tasks), calc_dep=sorted(t.calc_dep),
                        subtask_of=t.subtask_of, file_dep=[self.fileno(p) for p in t.file_dep],
                        targets=[self.fileno(p) for p in t.targets])
        tl = loader.load_tasks(self.namespace(False), allow_delayed=False)
        order = [t.name for t in tl]
        cmd_table = {t.name: row(t) for t in tl}
        try:
            tc = TaskControl(tl)
            run_table = {t.name: row(tc.tasks[t.name]) for t in tl}
        except Exception:  # noqa -- InvalidTask for a dangling dependency
            run_table = None
        return order, cmd_table, run_table

    @staticmethod
    def result_id(res):
        """'result:' is the md5 of a str result, or the dict a python-action returned"""
        if isinstance(res, dict):
            (k, x), = res.items()
            return 100 + 10 * int(k[1:]) + int(x)
        return RESULT_MD5.get(res, 93)

    # ---- logical DB content through a fresh Dependency
    def dump(self, names):
        from doit import dependency as D
        cls = {'json': D.JsonDB, 'dbm': D.DbmDB, 'sqlite3': D.SqliteDB}[self.backend]
        ck = D.MD5Checker if self.ck == 'md5' else D.TimestampChecker
        dep = D.Dependency(cls, self.dbpath, ck)
        out = {}
        try:
            present = {n: dep._in(n) for n in names}
            for n in names:
                if not present[n]:
                    out[n] = None
                    continue
                deps = dep._get(n, 'deps:')
                res = dep._get(n, 'result:')
                saved = {}
                for f in FILES:
                    st = dep._get(n, self.path(f))
                    if st is None:
                        continue
                    if isinstance(st, (list, tuple)):
                        saved[f] = ['md5', int(st[0]) - BASE, st[1], DIGEST.get(st[2], 92)]
                    else:
                        saved[f] = ['ts', int(st) - BASE]
                vals = {}
                for key, x in dep.get_values(n).items():
                    if x is None:
                        vals[key] = None
                    elif key == '_config_changed':
                        vals[key] = int(x[3:]) if isinstance(x, str) and x.startswith('cfg') else 91
                    elif key == 'run-once':
                        vals[key] = 1 if x else 0
                    else:
                        vals[key] = int(x)
                out[n] = dict(deps=None if deps is None else sorted(self.fileno(p) for p in deps),
                              ck=CK_Z.get(dep._get(n, 'checker:'), 94),
                              result=None if res is None else self.result_id(res),
                              ignore=bool(dep._get(n, 'ignore:')), saved=saved, values=vals)
        finally:
            if self.backend != 'json':
                dep.close()
        return out


# ------------------------------------------------------------------ encoders
def rec_ints(r):
    if r is None:
        return [0]
    out = [1, -1 if r['deps'] is None else mask(r['deps']), -1 if r['deps'] is None else len(r['deps']), r['ck'],
           -1 if r['result'] is None else r['result'], 1 if r['ignore'] else 0]
    for f in FILES:
        st = r['saved'].get(f)
        if st is None:
            out += [0, 0, 0, 0]
        elif st[0] == 'md5':
            out += [1, st[1], st[2], st[3]]
        else:
            out += [2, st[1], 0, 0]
    for key in VKEYS:
        if key not in r['values']:
            out.append(-2)
        else:
            x = r['values'][key]
            out.append(-1 if x is None else x)
    return out


def nl(xs):
    return '[' + '; '.join(str(x) for x in xs) + ']%N'


def zz(x):
    return '(%d)' % x if x < 0 else str(x)


def rec_coq(r):
    saved = '; '.join('(%d%%N, %s)' % (f, ('MD5state %s %s %d%%N' % (zz(st[1]), zz(st[2]), st[3])) if st[0] == 'md5' else 'TSstate %s' % zz(st[1]))
                      for f, st in sorted(r['saved'].items()))
    vals = '; '.join('(%d%%N, %s)' % (VKEY_N[k], 'None' if x is None else 'Some %d%%N' % x) for k, x in r['values'].items())
    return ('{| r_deps := %s; r_checker := %s; r_saved := saved_of [%s]; r_values := [%s]; r_result := %s; r_ignore := %s |}' % (
        'None' if r['deps'] is None else 'Some ' + nl(r['deps']),
        {0: 'None', 1: 'Some MD5', 2: 'Some TS'}[r['ck']], saved, vals,
        'None' if r['result'] is None else 'Some %d%%N' % r['result'], 'true' if r['ignore'] else 'false'))


def db_coq(dump, ids):
    return 'db_of [%s]' % '; '.join('(%d%%N, %s)' % (ids[n], rec_coq(r)) for n, r in dump.items() if r is not None)


def fs_coq(fsview):
    return 'fs_of [%s]' % '; '.join('(%d%%N, {| mtime := %d; size := %d; content := %d%%N |})' % (f, m, s, c)
                                    for f, (m, s, c) in sorted(fsview.items()))


def utd_coq(u):
    k = u[0]
    if k == 'bool':
        return 'UBool %s' % ('true' if u[1] else 'false')
    if k == 'none':
        return 'UNone'
    if k == 'call':
        return 'UOpaque %s' % {True: '(Some true)', False: '(Some false)', None: 'None'}[u[1]]
    if k == 'run_once':
        return 'URunOnce'
    if k == 'config':
        return 'UConfig %d%%N' % u[1]
    raise ValueError(u)


def table_coq(order, table, defs, ids):
    rows = []
    for n in order:
        r = table[n]
        utd = defs[n]['uptodate'] if defs.get(n) else []
        rows.append('(%d%%N, {| c_task_dep := %s; c_setup := %s; c_calc_dep := %s; c_subtask_of := %s; c_def := '
                    '{| file_dep := %s; targets := %s; uptodate := [%s]; act_values := []; act_result := None |} |})' % (
                        ids[n], nl(ids.get(x, 60) for x in r['task_dep']), nl(ids.get(x, 60) for x in r['setup']),
                        nl(ids.get(x, 60) for x in r['calc_dep']),
                        'None' if r['subtask_of'] is None else 'Some %d%%N' % ids.get(r['subtask_of'], 60),
                        nl(r['file_dep']), nl(r['targets']), '; '.join(utd_coq(u) for u in utd)))
    return '[%s]' % '; '.join(rows)


def name_id(ids, n):
    return ids[n] if n in ids else UNKNOWN[n]


def model_cmd(step, ids, default):
    a = step['margs']
    args = nl(name_id(ids, n) for n in a['names'])
    if step['cmd'] == 'forget':
        dflt = 'None' if default is None else '(Some %s)' % nl(name_id(ids, n) for n in default)
        return ('forget @TB@ %s %s {| fo_sub := %s; fo_disable_default := %s; fo_all := %s |} @DB@' % (
            args, dflt, *('true' if a[k] else 'false' for k in ('sub', 'dd', 'all'))))
    if step['cmd'] == 'ignore':
        return 'ignore_cmd @TB@ %s @DB@' % args
    if step['cmd'] == 'none':
        return 'no_cmd @DB@'
    if step['cmd'] == 'list':
        return 'list_step md5o current @LT@ @BK@ @TB@ (LO %s %s %s %s %s) @CK@ @FS@ @DB@' % (
            *('true' if a[k] else 'false' for k in ('sub', 'status', 'deps', 'sort_name')), args)
    if step['cmd'] == 'info':
        return 'info_step md5o current @BK@ @TB@ %s %s @CK@ @FS@ @DB@' % (args, 'true' if a['hide'] else 'false')
    if step['cmd'] == 'clean':
        return 'clean_step @DB@'
    return 'resetdep_cmd md5o current @CK@ @FS@ @TB@ %s @DB@' % args


def rank_coq(order, ids):
    """the oracle name_ltb of Model/Inspect.v: Python's `<` on the task names (sorted(print_list))"""
    arms = ' '.join('| %d%%N => %d%%N' % (ids[n], i) for i, n in enumerate(sorted(order)))
    return '(fun a b : name => let rk := fun x : name => match x with %s | _ => 99%%N end in N.ltb (rk a) (rk b))' % arms


# ------------------------------------------------------------------ parsing what the command wrote
def parse_lines(cmd, out, ids):
    pairs = []
    for line in out.splitlines():
        w = line.split()
        if not w:
            continue
        if cmd == 'forget' and w[0] == 'forgetting' and len(w) == 2:
            pairs += [ids.get(w[1], 90), 0]
        elif cmd == 'ignore' and w[0] == 'ignoring':
            pairs += [ids.get(w[1], 90), 0]
        elif cmd == 'reset-dep' and w[0] in ('failed', 'skip', 'processed'):
            pairs += [ids.get(w[1], 90), {'failed': 0, 'skip': 1, 'processed': 2}[w[0]]]
    return pairs


def parse_inspect(step, out, ids):
    """what `list` / `info` wrote, as the pairs of Inspect.list_step / info_step: list: one pair per task line
    [task; letter 0 none | 1 I | 2 U | 3 R | 4 E]; info: [task; -1 hidden | 0 up-to-date | 1 run | 2 error | 3 ignored]"""
    cmd, a = step['cmd'], step['margs']
    pairs = []
    if cmd == 'list':
        for line in out.split('\n'):
            if line.startswith(' -  ') or not line.strip():
                continue
            w = line.split()
            if a['status']:
                pairs += [ids.get(w[1], 90) if len(w) > 1 else 90, LETTER_Z.get(w[0], 76)]
            else:
                pairs += [ids.get(w[0], 90), 0]
    elif cmd == 'info' and len(a['names']) == 1:
        st = -1
        for line in out.split('\n'):
            w = line.split(':', 1)
            if len(w) == 2 and w[0].strip() == 'status' and line.startswith('status'):
                st = ISTATUS_Z.get(w[1].strip(), 75)
                break
        pairs += [ids.get(a['names'][0], 90), st]
    return pairs


def outcome_code(rc, out, err, ids, cmd=None):
    if rc in (None, 0, 1) and cmd in INSPECT:       # `info` returns 1 when the task is not up-to-date
        return 0
    if cmd == 'info' and 'must select *one* task' in err:
        return 1
    if rc in (None, 0):
        if 'no tasks specified' in out or 'You cant ignore all tasks' in out:
            return 1
        return 0
    if 'is not a task.' in err and 'Traceback' not in err:
        nm = err.split("'")[1]
        return 100 + (ids[nm] if nm in ids else UNKNOWN.get(nm, 90))
    if 'KeyError' in err:
        return 97
    return 98


EVBIT = {'exec': 1, 'utd': 2, 'ign': 4, 'fail': 8, 'ok': 16}


def outcomes(ev, names):
    m = {n: 0 for n in names}
    for k, n in ev:
        if k in EVBIT and n in m:
            m[n] |= EVBIT[k]
    return m


# ------------------------------------------------------------------ the independent oracle
def subs_of(spec, name):
    for c in spec['creators']:
        if c['kind'] == 'group' and c['name'] == name:
            return ['%s:%s' % (name, s['name']) for s in c['subs']]
    return []


def declared(spec, defs, name):
    """task_dep and setup a task declares (a group: its sub-tasks)"""
    d = defs.get(name)
    if d is None:
        return subs_of(spec, name)
    return list(d['task_dep']) + list(d['setup'])


def item_false(u, rec):
    """does this uptodate item answer False given the saved values of the task?"""
    k = u[0]
    vals = rec['values'] if rec else {}
    if k in ('bool', 'call'):
        return u[1] is False
    if k == 'run_once':
        return not vals.get('run-once')
    if k == 'config':
        return vals.get('_config_changed') != u[1]
    return False


def item_evaluated(u):
    return not (u[0] == 'none' or (u[0] == 'call' and u[1] is None))


def run_opts(step):
    """options of the run that follows a step (older payloads have none: --continue, all top-level tasks)"""
    r = dict(flags=['--continue'], always=False, cont=True, par=False, sel=None, ck=None)
    r.update(step.get('run') or {})
    return r


def reached(run_table, sel):
    """tasks a run of the selection has to go through whatever their state: task_dep / calc_dep closure"""
    seen, work = set(), list(sel)
    while work:
        x = work.pop()
        if x in seen or x not in run_table:
            continue
        seen.add(x)
        work += run_table[x]['task_dep'] + run_table[x]['calc_dep']
    return seen


def forget_set(spec, defs, a, names, allrec):
    """the documented selection of `forget` -> (records that go, names that are no task)"""
    known = set(names)
    unknown = [n for n in a['names'] if n not in known]
    if a['all']:
        return set(allrec), unknown
    if not a['names'] and a['dd']:
        return set(), unknown
    sel = a['names'] or spec['default']
    if sel is None:
        sel = list(names)
    unknown = [n for n in sel if n not in known]
    exp = set()
    if not unknown:
        work = []
        for n in sel:
            work += [n] + subs_of(spec, n)
        exp = set(work)
        if a['sub']:
            while work:
                x = work.pop()
                for y in declared(spec, defs, x):
                    if y not in exp:
                        exp.add(y)
                        work.append(y)
    return exp, unknown


def resetdep_sel(spec, a, names):
    """tasks reset-dep goes through: the named ones each with its sub-tasks, or every task"""
    sel = []
    for n in (a['names'] or names):
        sel += [n] + (subs_of(spec, n) if a['names'] else [])
    return sel


def verdicts(lines):
    """parsed lines [id, code, id, code ...] -> {id: [codes]}"""
    v = {}
    for i in range(0, len(lines), 2):
        v.setdefault(lines[i], []).append(lines[i + 1])
    return v


def mark_kept_by_resetdep(w, b):
    """does a record [b] (dump before the command) keep its ignore mark when reset-dep processes the task?  yes when the
    checker recorded in it is the configured one or when no checker is recorded (0: the record holds only the mark)"""
    return b is not None and b['ck'] in (0, 1 if w.eck == 'md5' else 2)


def oracle(out, w, spec, step, names, stale, before, after, code, lines, acts, follow, run_table, dangling, case, ro=None, frc=0, rsel=()):
    """documented effect, computed from the spec only"""
    ro = ro or run_opts(step)
    whole = follow is not None and (ro['cont'] or frc == 0)          # the run was not cut short
    def viol(what, shape):
        out.violations.append(dict(what=what, shape=shape, case=case))
    cmd, a = step['cmd'], step['margs']
    defs = w.defs
    known = set(names)
    allrec = names + stale
    if acts:
        viol('%s executed actions of %s' % (cmd, acts), 'command-executed-task')
    if dangling:
        return
    unknown = [n for n in a['names'] if n not in known]
    unchanged = all(after[n] == before[n] for n in allrec)
    if cmd == 'none':
        if not unchanged:
            viol('two runs in a row: the DB changed in between', 'no-command-db-changed')
        return
    if cmd in INSPECT:
        # a command that only looks: it is not `forget` -- what the statement says about it ("until forgotten") is judged by
        # update_held (the mark of every task ignored and not forgotten is still there) and ignore_oracle (the runs that follow)
        return
    if cmd == 'forget':
        form_no_default = (not a['names'] and spec['default'] is None and not a['all'] and not a['dd'])
        exp, unknown = forget_set(spec, defs, a, names, allrec)
        if code >= 97 and code < 100:
            viol('forget crashed (exit 3 with a traceback)', 'forget-no-args-no-default' if form_no_default else 'forget-crash')
            return
        if unknown and not a['all'] and not (not a['names'] and a['dd']):
            if code < 100 or not unchanged:
                viol('forget of an unknown task must be refused and leave the DB alone', 'forget-unknown-name')
            return
        for n in allrec:
            want = None if n in exp else before[n]
            if after[n] != want:
                viol('forget %s: record of %s %s' % (a, n, 'survived' if n in exp else 'was changed'),
                     'forget-no-args-no-default' if form_no_default else 'forget-wrong-set')
                return
        if whole:
            for n in sorted(exp & known & reached(run_table, rsel)):
                if follow[n] & 1:
                    continue
                if not excused(w, spec, run_table, after, n, None):
                    viol('forgotten task %s was not executed by the next run (reported %d)' % (n, follow[n]), 'forgotten-task-not-executed')
                    return
    elif cmd == 'ignore':
        if code >= 97 and code < 100:
            viol('ignore crashed', 'ignore-crash')
            return
        if not a['names']:
            if not unchanged:
                viol('ignore without a task changed the DB', 'ignore-no-args')
            return
        if unknown:
            if code < 100 or not unchanged:
                viol('ignore of an unknown task must be refused and leave the DB alone', 'ignore-unknown-name')
            return
        marked = set()
        for n in a['names']:
            marked |= {n} | set(subs_of(spec, n))
        for n in allrec:
            if n in marked:
                want = dict(before[n]) if before[n] else dict(deps=None, ck=0, result=None, ignore=True, saved={}, values={})
                want['ignore'] = True
            else:
                want = before[n]
            if after[n] != want:
                viol('ignore %s: record of %s is not the expected one' % (a['names'], n), 'ignore-wrong-set')
                return
    else:
        if code >= 97 and code < 100:
            viol('reset-dep crashed', 'resetdep-crash')
            return
        if unknown:
            if code < 100 or not unchanged:
                viol('reset-dep of an unknown task must be refused and leave the DB alone', 'resetdep-unknown-name')
            return
        sel = resetdep_sel(spec, a, names)
        verdict = verdicts(lines)
        ids = {n: i for i, n in enumerate(names)}
        reset_ok = set()
        for n in allrec:
            if n not in sel:
                if after[n] != before[n]:
                    viol('reset-dep: record of the unselected task %s changed' % n, 'resetdep-frame')
                    return
                continue
            d = defs.get(n) or dict(file_dep=[], targets=[], uptodate=[])
            missing = [f for f in d['file_dep'] if f not in w.fsview]
            got = verdict.get(ids[n], [])
            if missing:
                if got != [0] * len(got) or not got or after[n] != before[n]:
                    viol('reset-dep of %s with a missing file dependency must report "failed" and record nothing' % n, 'resetdep-missing-dep')
                    return
                continue
            if not got or 0 in got:
                viol('reset-dep of %s: no "processed"/"skip" line' % n, 'resetdep-lines')
                return
            reset_ok.add(n)
            if 2 not in got:
                if after[n] != before[n]:
                    viol('reset-dep skipped %s but changed its record' % n, 'resetdep-skip-changed')
                    return
                continue
            r, b = after[n], before[n]
            ckz = 1 if w.eck == 'md5' else 2
            want_saved = {}
            for f in d['file_dep']:
                m, s, c = w.fsview[f]
                want_saved[f] = ['md5', m, s, c] if w.eck == 'md5' else ['ts', m]
            keep = mark_kept_by_resetdep(w, b)
            if keep and b['ignore'] and not (r and r['ignore']):
                viol('reset-dep processed the ignored task %s (record written by the configured checker, or holding only the mark) and the '
                     'ignore mark is gone: the task was not forgotten' % n, 'resetdep-dropped-ignore-mark')
                return
            if (r is None or r['deps'] != sorted(d['file_dep']) or r['ck'] != ckz
                    or any(r['saved'].get(f) != st for f, st in want_saved.items())
                    or r['values'] != (b['values'] if b else {}) or r['result'] != (b['result'] if b else None)
                    or r['ignore'] != (b['ignore'] if keep else False)):
                viol('reset-dep processed %s but the record is not (state of the present files, old values/result)' % n, 'resetdep-wrong-record')
                return
        # "is up-to-date" is said of a run under the checker reset-dep recorded the state with: a run given another
        # --check_file_uptodate discards that state (the documented effect of changing the checker)
        if follow is not None and not ro['always'] and (ro['ck'] or w.ck) == w.eck:
            for n in sorted(reset_ok):
                if follow[n] & 1 and not excused_reset(w, n, after):
                    viol('task %s was executed by the run right after its reset-dep (all file deps present)' % n, 'resetdep-task-executed')
                    return


def update_held(out, held, w, spec, step, names, stale, before, after, code, lines, case):
    """[held]: the tasks an `ignore` of this history marked and no command took out of that state since -- kept from the
    COMMANDS GIVEN and the answer they wrote, never from the 'ignore:' key.  A task leaves the set when a `forget` covers it,
    or when reset-dep "processed" it while its record was written by another checker than the configured one (the record is
    dropped as a whole; see the module text).  Every task of the set must still carry the mark.  -> what happened, for counting"""
    cmd, a = step['cmd'], step['margs']
    seen = []
    for n in sorted(held):                     # [before] is what the run after the previous step left
        if not (before.get(n) and before[n]['ignore']):
            out.violations.append(dict(what='task %s was ignored and never forgotten, but the run after the previous step (or the changes made to '
                                            'files / definitions since) took its ignore mark away' % n, shape='ignore-mark-lost-in-a-run', case=case))
            held.discard(n)                    # reported once
    if code == 0:
        if cmd == 'ignore' and a['names'] and all(n in names for n in a['names']):
            for n in a['names']:
                held |= {n} | set(subs_of(spec, n))
        elif cmd == 'forget':
            exp, _ = forget_set(spec, w.defs, a, names, names + stale)
            held -= exp
        elif cmd == 'reset-dep':
            v = verdicts(lines)
            ids = {n: i for i, n in enumerate(names)}
            for n in resetdep_sel(spec, a, names):
                if n in held and 2 in v.get(ids[n], []):
                    if mark_kept_by_resetdep(w, before[n]):
                        seen.append('reset-dep-processed-ignored-task')
                    else:
                        seen.append('reset-dep-processed-ignored-task-foreign-checker')
                        held.discard(n)
    for n in sorted(held):
        if not (after.get(n) and after[n]['ignore']):
            out.violations.append(dict(what='task %s was ignored and never forgotten, but after `%s %s`%s its ignore mark is gone'
                                            % (n, cmd, ' '.join(cmd_args(step)), ' (--check_file_uptodate %s)' % step['ck'] if step.get('ck') else ''),
                                       shape='ignore-mark-lost-by-inspection-command' if cmd in INSPECT else 'ignore-mark-lost-before-forget', case=case))
            break
    return seen


def ignore_oracle(out, w, run_table, after, follow, names, case, held=()):
    """on every run: an ignored task, and every task that depends on one, is not executed.  Ignored = carries the mark in the
    DB; and, second, = was ignored by a command of this history and not forgotten since ([held], see update_held)"""
    if run_table is None or follow is None:
        return
    db_marked = {n for n in names if after.get(n) and after[n]['ignore']}
    if ignore_rule(out, run_table, db_marked, follow, names, case, 'is ignored',
                   'ignored-task-or-dependent-executed', 'setup-task-ignored-task-executed'):
        return
    if set(held) - db_marked:
        ignore_rule(out, run_table, db_marked | set(held), follow, names, case, 'was ignored and never forgotten',
                    'not-forgotten-ignored-task-or-dependent-executed', 'setup-task-not-forgotten-ignored-task-executed')


def ignore_rule(out, run_table, marked, follow, names, case, how, shape_dep, shape_setup):
    memo = {}

    def is_hard(n, seen=()):
        if n in memo:
            return memo[n]
        if n in seen or n not in run_table:
            return False
        r = n in marked or any(is_hard(x, seen + (n,)) for x in run_table[n]['task_dep'] + run_table[n]['calc_dep'])
        memo[n] = r
        return r
    for n in names:
        if is_hard(n):
            if follow[n] & 1 or (follow[n] and not follow[n] & 4):
                out.violations.append(dict(what='task %s %s, or depends on such a task, but the run reported %d' % (n, how, follow[n]),
                                           shape=shape_dep, case=case))
                return True
        elif any(is_hard(x) for x in run_table[n]['setup']) and follow[n] & 1:
            out.violations.append(dict(what='task %s was executed although its setup-task %s' % (n, how),
                                       shape=shape_setup, case=case))
            return True
    return False


def excused(w, spec, run_table, after, n, _):
    """may a task without record stay unexecuted in a run where every action succeeds?"""
    seen, work = set(), [n]
    while work:
        x = work.pop()
        if x in seen or x not in run_table:
            continue
        seen.add(x)
        work += run_table[x]['task_dep'] + run_table[x]['calc_dep'] + run_table[x]['setup']
    for x in seen:
        if after.get(x) and after[x]['ignore']:
            return True                                   # an ignored task on the way
        d = w.defs.get(x)
        if d and any(f not in w.fsview for f in d['file_dep']):
            return True                                   # a dependency error on the way
    d = w.defs.get(n)
    if d is None:
        return False
    # the documented caveat: nothing to compare and only constant-true items
    return (not d['file_dep'] and any(item_evaluated(u) for u in d['uptodate'])
            and not any(item_false(u, None) for u in d['uptodate']) and all(f in w.fsview for f in d['targets']))


def excused_reset(w, n, after):
    d = w.defs.get(n)
    if d is None:
        return True                                       # a group task: no dependencies at all -> always runs
    if any(f not in w.fsview for f in d['targets']):
        return True
    if any(item_false(u, after[n]) for u in d['uptodate']):
        return True
    return not d['file_dep'] and not any(item_evaluated(u) for u in d['uptodate'])


# ------------------------------------------------------------------ one case
def apply_mut(w, m):
    k = m[0]
    if k == 'write':
        w.write(m[1], m[2])
    elif k == 'touch':
        w.touch(m[1])
    elif k == 'delete':
        w.delete(m[1])
    elif k == 'setdef':
        w.defs[m[1]][m[2]] = m[3]
    elif k == 'checker':
        w.ck = m[1]
    elif k == 'run':
        w.fail = set(m[2])
        w.doit('run', ['--continue'] + list(m[1]))
        w.fail = set()
    else:
        raise ValueError(m)


def cmd_args(step):
    a = step['margs']
    args = list(step['flags'])
    return args + list(a['names'])


def run_case(ctx, out, spec, idx, cases):
    """-> list of per-step summaries"""
    w = World(ctx, spec, 'c%d' % idx)
    summ = []
    held = set()                                   # ignored by a command of this history, not forgotten since (update_held)
    # pre-state: a real run (the stale task exists only here)
    w.with_old = spec['stale']
    w.fail = set(spec['pre']['fail'])
    w.doit('run', ['--continue'] + [c['name'] for c in spec['creators']] + (['old'] if spec['stale'] else []), cli_db=spec['cli_db'])
    w.fail = set()
    w.with_old = False
    for si, step in enumerate(spec['steps']):
        for m in step['mut']:
            apply_mut(w, m)
        order, cmd_table, run_table = w.read_tables()
        ids = {n: i for i, n in enumerate(order)}
        stale = ['old'] if spec['stale'] else []
        allrec = order + stale
        ids_all = dict(ids)
        if stale:
            ids_all['old'] = len(order)
        dangling = any(x not in ids for n in order for x in cmd_table[n]['task_dep'] + cmd_table[n]['setup'])
        before = w.dump(allrec)
        w.eck = step.get('ck') or w.ck
        if step['cmd'] == 'none':
            rc, so, se, acts = 0, '', '', []
        else:
            rc, so, se, acts, _ = w.doit(step['cmd'], cmd_args(step), cli_db=spec['cli_db'], ck=step.get('ck'))
        code = outcome_code(rc, so, se, ids, step['cmd'])
        if step['cmd'] in INSPECT:
            lines = parse_inspect(step, so, ids_all) if code == 0 else []
        else:
            lines = parse_lines(step['cmd'], so, ids_all)
        after = w.dump(allrec)
        follow, frc = None, None
        top = [n for n in order if cmd_table[n]['subtask_of'] is None]
        ro = run_opts(step)
        sel = [n for n in (ro['sel'] or top) if n in ids] or top
        if step['follow'] and run_table is not None:
            frc, _, fse, _, ev = w.doit('run', list(ro['flags']) + sel, cli_db=spec['cli_db'], ck=ro['ck'])
            follow = outcomes(ev, allrec)
            if frc not in (0, 1, 2):
                frc = 98
        expected = [code] + lines + [-7]
        for n in allrec:
            expected += rec_ints(after[n])
        defs_txt = ('Definition @TB@ := %s.\nDefinition @DB@ := %s.\nDefinition @FS@ := %s.\nDefinition @CK@ := %s.\nDefinition @CKR@ := %s.\n' % (
            table_coq(order, cmd_table, w.defs, ids), db_coq(before, ids_all), fs_coq(w.fsview), CK_COQ[w.eck], CK_COQ[ro['ck'] or w.ck]))
        if step['cmd'] == 'list':
            defs_txt += 'Definition @LT@ := %s.\n' % rank_coq(order, ids)
        tasks_l, files_l = nl(ids_all[n] for n in allrec), nl(FILES)
        if follow is not None:
            expected += [-7] + [follow[n] for n in allrec] + [frc]
            defs_txt += 'Definition @RT@ := %s.\n' % table_coq(order, run_table, w.defs, ids)
            expr = 'observe_cmd md5o %s %s @CKR@ @FS@ @RT@ %s %s %s [%s] (%s)' % (
                tasks_l, files_l, nl(ids[n] for n in sel), 'true' if ro['cont'] else 'false', 'true' if ro['always'] else 'false',
                '; '.join(str(follow[n]) for n in allrec), model_cmd(step, ids, spec['default']))
        else:
            expr = 'observe_db %s %s (%s)' % (tasks_l, files_l, model_cmd(step, ids, spec['default']))
        tag = '_%d_%d' % (idx, si)
        expr = expr.replace('@BK@', BACKEND_COQ[spec['backend']])
        for nm in ('TB', 'DB', 'FS', 'CK', 'CKR', 'RT', 'LT'):
            defs_txt = defs_txt.replace('@%s@' % nm, nm + tag)
            expr = expr.replace('@%s@' % nm, nm + tag)
        case = dict(spec=spec, step=si)
        cases.append(dict(model=expr, expected=expected, defs=defs_txt,
                          desc=dict(case=idx, step=si, cmd=step['cmd'], args=cmd_args(step), backend=spec['backend'], cmd_checker=w.eck,
                                    default_tasks=spec['default'], order=order,
                                    next_run=(list(ro['flags']) + sel) if follow is not None else None)))
        oracle(out, w, spec, step, order, stale, before, after, code, lines, acts, follow, run_table, dangling, case, ro, frc, sel)
        seen = update_held(out, held, w, spec, step, order, stale, before, after, code, lines, case)
        ignore_oracle(out, w, run_table, after, follow, order, case, held)
        held -= {n for n in held if not (after.get(n) and after[n]['ignore'])}      # a lost mark was reported above: once per history
        changed = sorted(n for n in allrec if after[n] != before[n])
        ckz = CK_Z[CK_CLS[w.eck]]
        summ.append(dict(cmd=step['cmd'], args=cmd_args(step), code=code, changed=changed, follow=follow, rc=frc, dangling=dangling,
                         ntasks=len(order), default=spec['default'], run=ro, run_args=list(ro['flags']) + sel, backend=spec['backend'],
                         ck=step.get('ck'), config_ck=w.ck, lines=lines,
                         # a task ignored and not forgotten whose record was written by another checker than this command's
                         held_foreign=sorted(n for n in held if before.get(n) and before[n]['ck'] not in (0, ckz)),
                         marked=sorted(n for n in order if after[n] and after[n]['ignore']), held=sorted(held), seen=seen))
    return summ


# ------------------------------------------------------------------ generation
UTD_CHOICES = [[], [], [], [('bool', True)], [('bool', False)], [('run_once',)], [('config', 1)], [('call', True)],
               [('call', None)], [('none',)], [('bool', True), ('config', 2)], [('call', False)], [('run_once',), ('bool', True)]]


def gen_task(rng, later, later_targets, free_targets, calc_ok):
    t = dict(task_dep=[], setup=[], calc_dep=[], file_dep=[], targets=[], uptodate=[], ret=('true',))
    if later and rng.random() < 0.5:
        t['task_dep'] = rng.sample(later, min(len(later), rng.choice([1, 1, 2])))
    if later and rng.random() < 0.3:
        t['setup'] = [rng.choice(later)]
    if calc_ok and rng.random() < 0.12:
        t['calc_dep'] = [rng.choice(calc_ok)]
    if rng.random() < 0.7:
        t['file_dep'] = sorted(rng.sample(range(NDEP), rng.choice([1, 1, 2])))
    if later_targets and rng.random() < 0.2:
        t['file_dep'] = sorted(set(t['file_dep']) | {rng.choice(later_targets)})
    if free_targets and rng.random() < 0.4:
        t['targets'] = [free_targets.pop()]
    t['uptodate'] = [list(u) for u in rng.choice(UTD_CHOICES)]
    r = rng.random()
    if r < 0.3:
        t['ret'] = ('dict', rng.randrange(3), rng.randrange(1, 9))
    elif r < 0.5:
        t['ret'] = ('str', rng.randrange(8))
    return t


def gen_spec(rng, kind=None):
    ncre = rng.choice([2, 3, 3, 4, 4, 5])
    shapes = []
    for i in range(ncre):
        nm = 'abcdefgh'[i]
        if rng.random() < 0.35:
            shapes.append(('group', nm, ['x', 'y', 'z'][:rng.choice([1, 2, 2, 3])]))
        else:
            shapes.append(('plain', nm, None))
    free_targets = list(range(NDEP, NDEP + NTGT))
    rng.shuffle(free_targets)
    creators = [None] * ncre
    later, later_targets, calc_ok = [], [], []
    for i in reversed(range(ncre)):
        k, nm, subs = shapes[i]
        if k == 'plain':
            t = gen_task(rng, later, later_targets, free_targets, calc_ok)
            creators[i] = dict(kind='plain', name=nm, task=t)
            new, newt = [nm], list(t['targets'])
            if t['ret'][0] == 'dict' and not t['setup']:
                calc_ok = calc_ok + [nm]
        else:
            ss, new, newt = [], [nm], []
            for s in subs:
                t = gen_task(rng, later, later_targets, free_targets, calc_ok)
                ss.append(dict(name=s, task=t))
                new.append('%s:%s' % (nm, s))
                newt += t['targets']
            creators[i] = dict(kind='group', name=nm, subs=ss)
        later = later + new
        later_targets = later_targets + newt
    spec = dict(backend=rng.choice(BACKENDS), creators=creators, stale=rng.random() < 0.3, cli_db=rng.random() < 0.3, default=None)
    names = [n for n, p, t in all_tasks(spec)]
    r = rng.random()
    if r < 0.45:
        spec['default'] = rng.sample(names, min(len(names), rng.choice([1, 1, 2])))
    elif r < 0.5:
        spec['default'] = []
    elif r < 0.55:
        spec['default'] = [rng.choice(names), 'zz']
    files = {f: rng.randrange(4) for f in range(NDEP)}
    for f in range(NDEP, NDEP + NTGT):
        if rng.random() < 0.85:
            files[f] = rng.randrange(4)
    spec['files'] = {str(f): c for f, c in files.items()}
    real = [n for n, p, t in all_tasks(spec) if t is not None]
    spec['pre'] = dict(fail=[n for n in real if rng.random() < 0.12], ck=rng.choice(['md5', 'md5', 'timestamp']))
    if kind == 'inspect':
        spec['steps'] = gen_inspect_steps(rng, spec, names, real)
        return spec
    nsteps = rng.choice([1, 1, 2, 2, 3])
    iuf = None
    if kind == 'ignore-until-forget':
        nsteps = rng.choice([2, 3, 3, 4])
        iuf = rng.choice([['ignore', 'forget', 'forget', 'none'], ['ignore', 'none', 'forget', 'none'], ['ignore', 'none', 'none', 'forget']])
    cmds = [kind] * nsteps if kind in ('forget', 'ignore', 'reset-dep') else None
    steps = []
    ck = spec['pre']['ck']
    for si in range(nsteps):
        cmd = cmds[si] if cmds else rng.choice(['forget', 'forget', 'ignore', 'ignore', 'reset-dep', 'none'])
        if iuf:
            cmd = iuf[si]
        mut = []
        for _ in range(rng.choice([0, 1, 1, 2, 3])):
            r = rng.random()
            if r < 0.3:
                mut.append(('write', rng.randrange(NDEP), rng.randrange(4)))
            elif r < 0.45:
                mut.append(('touch', rng.randrange(NDEP)))
            elif r < 0.6:
                mut.append(('delete', rng.randrange(NDEP + NTGT)))
            elif r < 0.7:
                mut.append(('write', rng.randrange(NDEP, NDEP + NTGT), rng.randrange(4)))
            elif r < 0.8 and real:
                n = rng.choice(real)
                mut.append(('setdef', n, 'file_dep', sorted(rng.sample(range(NDEP), rng.choice([0, 1, 2])))))
            elif r < 0.88 and real:
                mut.append(('setdef', rng.choice(real), 'uptodate', [list(u) for u in rng.choice(UTD_CHOICES)]))
            elif r < 0.94:
                ck = 'timestamp' if ck == 'md5' else 'md5'
                mut.append(('checker', ck))
            else:
                mut.append(('run', rng.sample(names, 1), [n for n in real if rng.random() < 0.2]))
        if rng.random() < 0.04 and real:
            mut.append(('setdef', rng.choice(real), 'task_dep', ['ghost']))
        steps.append(gen_step(rng, cmd, names, mut, prev=steps))
    spec['steps'] = steps
    return spec


def gen_step(rng, cmd, names, mut, prev=()):
    flags, a = [], dict(names=[], sub=False, dd=False, all=False)
    r = rng.random()
    pool = list(names)
    done = [p for p in prev if p['cmd'] != 'none']
    if done and done[-1]['cmd'] == 'ignore' and done[-1]['margs']['names'] and rng.random() < 0.6:
        pool = [n for n in done[-1]['margs']['names'] if n in names] or pool        # forget what was just ignored
    if r < 0.22 or cmd == 'none':
        pass
    elif r < 0.75:
        a['names'] = rng.sample(pool, min(len(pool), rng.choice([1, 1, 1, 2])))
        if rng.random() < 0.15:
            a['names'] = a['names'] + [a['names'][0]]
    elif r < 0.85:
        g = [n for n in names if ':' not in n and any(m.startswith(n + ':') for m in names)]
        a['names'] = [rng.choice(g)] if g else [rng.choice(names)]
    else:
        a['names'] = rng.sample(pool, 1) + [rng.choice(list(UNKNOWN))]
        rng.shuffle(a['names'])
    if cmd == 'forget':
        if rng.random() < 0.3:
            a['sub'] = True
            flags.append(rng.choice(['-s', '--follow-sub']))
        if rng.random() < 0.12:
            a['all'] = True
            flags.append(rng.choice(['-a', '--all']))
        r = rng.random()
        if r < 0.15:
            a['dd'] = True
            flags.append('--disable-default')
        elif r < 0.22:
            flags.append('--enable-default')
    return dict(mut=[list(m) for m in mut], cmd=cmd, flags=flags, margs=a, follow=cmd == 'none' or rng.random() < 0.85,
                run=gen_run(rng, names))


def R(always=False, cont=True, par=False, sel=None, long=False, ck=None):
    """options of a `doit run`; [ck]: its own --check_file_uptodate (None: the configured checker)"""
    flags = []
    if always:
        flags.append('--always-execute' if long else '-a')
    if cont:
        flags.append('--continue' if long or not always else '-c')
    if par:
        flags += ['-n', '2', '-P', 'thread']
    return dict(flags=flags, always=always, cont=cont, par=par, sel=None if sel is None else list(sel), ck=ck)


def gen_run(rng, names):
    always = rng.random() < 0.45
    cont = rng.random() < 0.72
    par = cont and rng.random() < 0.2
    sel = None
    if rng.random() < 0.4:
        sel = rng.sample(names, min(len(names), rng.choice([1, 1, 2, 3])))
    return R(always, cont, par, sel, rng.random() < 0.5)


def T(**kw):
    t = dict(task_dep=[], setup=[], calc_dep=[], file_dep=[], targets=[], uptodate=[], ret=('true',))
    t.update(kw)
    return t


def base(default, steps, backend='json', stale=True, fail=(), csetup=('s',)):
    return dict(backend=backend, stale=stale, cli_db=False, default=default,
                creators=[dict(kind='plain', name='a', task=T(task_dep=['b'], file_dep=[0], ret=('dict', 0, 3))),
                          dict(kind='group', name='g', subs=[dict(name='x', task=T(file_dep=[1], uptodate=[['run_once']])),
                                                              dict(name='y', task=T(task_dep=['b'], targets=[4]))]),
                          dict(kind='plain', name='c', task=T(setup=list(csetup), file_dep=[2], ret=('str', 1))),
                          dict(kind='plain', name='b', task=T(file_dep=[0, 1], uptodate=[['config', 1]])),
                          dict(kind='plain', name='s', task=T(file_dep=[3], uptodate=[['bool', True]])),
                          dict(kind='plain', name='d', task=T())],
                files={'0': 0, '1': 1, '2': 2, '3': 3, '4': 0}, pre=dict(fail=list(fail), ck='md5'), steps=steps)



def st(cmd, names=(), flags=(), mut=(), follow=True, run=None, ck=None, **kw):
    a = dict(names=list(names), sub=False, dd=False, all=False)
    a.update(kw)
    return dict(mut=[list(m) for m in mut], cmd=cmd, flags=list(flags), margs=a, follow=follow, run=run or R(), ck=ck)


# ------------------------------------------------------------------ commands that only look, between `ignore` and the later runs
def other_ck(ck):
    return 'timestamp' if ck == 'md5' else 'md5'


def st_list(names=(), status=True, all_=False, deps=False, sort_name=True, long=False, **kw):
    """`doit list [--all] [-s|--status] [--deps] [--sort definition] [names]`"""
    flags = (['--all'] if all_ else []) + ([('--status' if long else '-s')] if status else []) + (['--deps'] if deps else [])
    flags += [] if sort_name else ['--sort', 'definition']
    return st('list', names, flags, sub=all_, status=status, deps=deps, sort_name=sort_name, **kw)


def st_info(names, hide=False, **kw):
    """`doit info [--no-status] name`"""
    return st('info', names, ['--no-status'] if hide else [], hide=hide, **kw)


def st_clean(names, flags=(), **kw):
    """`doit clean [-n|--dry-run] [-c] names` (never --forget; the tasks of this check have no clean actions)"""
    return st('clean', names, flags, **kw)


def inspect_fixed_specs():
    """run; ignore T; <T made not up-to-date>; <commands that only look, under the configured checker or their own>; run; ...;
    forget T; run -- on the table of `base`, every backend.  T = b (a, g:y and so g depend on it), the group g, the setup-task s"""
    out = []
    stale = [('write', 0, 2), ('write', 1, 0), ('write', 3, 1)]        # the file_dep of b (0, 1), g:x (1) and s (3) change: not up-to-date
    for b in BACKENDS:
        for T_, dep in (('b', 'a'), ('g', 'g:x'), ('s', 'c')):
            out += [
                # the listing is given another checker than the one that wrote the records; the runs use the configured one
                base(None, [st('ignore', [T_]), st_list(mut=stale, ck='timestamp'), st('none'), st('forget', [T_])], b),
                # ... and the other way round: the configuration changes, then list / info under the changed configuration
                base(None, [st('ignore', [T_]), st_list(all_=True, deps=True, long=True, mut=stale + [('checker', 'timestamp')]),
                            st_info([T_]), st('forget', [T_])], b),
                # only the named task / its dependent is looked at; info; the run too has its own checker
                base(None, [st('ignore', [T_]), st_list([T_], all_=True, sort_name=False, mut=stale, ck='timestamp', run=R(ck='timestamp')),
                            st_info([T_], ck='timestamp', run=R(always=True)), st_info([dep], ck='timestamp'), st('forget', [T_])], b),
            ]
        out += [
            # list without --status, info --no-status and clean never ask the dependency manager
            base(None, [st('ignore', ['b']), st_list(status=False, mut=stale, ck='timestamp'), st_info(['b'], hide=True, ck='timestamp'),
                        st_clean(['b', 'a'], ['-n'], ck='timestamp'), st_clean(['g'], ['-c'], ck='timestamp'), st('forget', ['b'])], b),
            # T was never executed with success: its record holds only the mark (no checker recorded)
            base(None, [st('ignore', ['b']), st_list(ck='timestamp'), st_info(['b'], ck='timestamp'), st('forget', ['b'])], b, fail=['b']),
            # reset-dep and a listing in a row, both under the checker that wrote the records, then under the other one
            base(None, [st('ignore', ['b']), st('reset-dep', ['b'], mut=stale), st_list(ck='md5'), st_list(ck='timestamp', run=R(always=True)),
                        st('forget', ['b'])], b),
            # arguments that are refused: nothing happens
            base(None, [st('ignore', ['g']), st_list(['zz'], ck='timestamp'), st_info(['zz'], ck='timestamp'), st_info([], ck='timestamp'),
                        st_info(['g', 'b'], ck='timestamp'), st('forget', ['g'], ['-s'], sub=True)], b),
        ]
    return out


def gen_inspect_step(rng, cmd, names, mut, ignored, ck):
    pool = list(ignored) if ignored and rng.random() < 0.6 else list(names)
    ckov = None
    if rng.random() < 0.55:
        ckov = other_ck(ck) if rng.random() < 0.75 else ck
    kw = dict(mut=mut, follow=rng.random() < 0.9, run=gen_run(rng, names), ck=ckov)
    if cmd == 'list':
        r = rng.random()
        sel = []
        if 0.4 <= r < 0.9:
            sel = rng.sample(pool, min(len(pool), rng.choice([1, 1, 2])))
        elif r >= 0.9:
            sel = rng.sample(pool, 1) + [rng.choice(list(UNKNOWN))]
            rng.shuffle(sel)
        return st_list(sel, status=rng.random() < 0.85, all_=rng.random() < 0.45, deps=rng.random() < 0.25, sort_name=rng.random() < 0.7,
                       long=rng.random() < 0.5, **kw)
    if cmd == 'info':
        r = rng.random()
        if r < 0.85:
            sel = rng.sample(pool, 1)
        elif r < 0.9:
            sel = [rng.choice(list(UNKNOWN))]
        elif r < 0.95:
            sel = []
        else:
            sel = rng.sample(names, min(2, len(names)))
        return st_info(sel, hide=rng.random() < 0.15, **kw)
    return st_clean(rng.sample(pool, min(len(pool), rng.choice([1, 1, 2]))), rng.choice([[], ['-n'], ['--dry-run'], ['-c'], ['-n', '-c']]), **kw)


def gen_inspect_steps(rng, spec, names, real):
    """histories around `ignore`: ignore; commands that only look (list / info / clean, each with options and possibly its own
    --check_file_uptodate) mixed with reset-dep / nothing; forget -- every step followed by a run (which may have its own checker too)"""
    pat = rng.choice([['ignore', 'I', 'forget'], ['ignore', 'I', 'none', 'forget'], ['ignore', 'I', 'I', 'forget'],
                      ['ignore', 'reset-dep', 'I', 'none'], ['I', 'ignore', 'I', 'none'], ['ignore', 'I', 'forget', 'I'],
                      ['ignore', 'ignore', 'I', 'I'], ['ignore', 'I', 'reset-dep', 'I']])
    ck = spec['pre']['ck']
    steps, ignored = [], []
    for cmd in pat:
        if cmd == 'I':
            cmd = rng.choice(['list', 'list', 'list', 'info', 'info', 'clean'])
        mut = []
        for _ in range(rng.choice([0, 1, 1, 2])):
            r = rng.random()
            if r < 0.45:
                mut.append(('write', rng.randrange(NDEP), rng.randrange(4)))
            elif r < 0.55:
                mut.append(('touch', rng.randrange(NDEP)))
            elif r < 0.65:
                mut.append(('delete', rng.randrange(NDEP + NTGT)))
            elif r < 0.75 and real:
                mut.append(('setdef', rng.choice(real), 'uptodate', [list(u) for u in rng.choice(UTD_CHOICES)]))
            else:
                ck = other_ck(ck)
                mut.append(('checker', ck))
        if cmd in INSPECT:
            step = gen_inspect_step(rng, cmd, names, mut, ignored, ck)
        elif cmd == 'ignore' and rng.random() < 0.85:
            step = st('ignore', rng.sample(names, min(len(names), rng.choice([1, 1, 2]))), mut=mut, run=gen_run(rng, names))
        elif cmd == 'forget' and ignored and rng.random() < 0.6:
            step = st('forget', rng.sample(ignored, 1), mut=mut, run=gen_run(rng, names))
        else:
            step = gen_step(rng, cmd, names, mut, prev=steps)
            step['ck'] = other_ck(ck) if cmd == 'reset-dep' and rng.random() < 0.3 else None
        if cmd == 'ignore' and all(n in names for n in step['margs']['names']):
            ignored = ignored + [n for n in step['margs']['names'] if n not in ignored]
        if rng.random() < 0.3:
            step['run']['ck'] = rng.choice(['md5', 'timestamp'])
        steps.append(step)
    return steps


def fixed_specs():
    """the argument forms of the statement on one small table: a -> b (task_dep), c -> s (setup), g = {g:x, g:y -> b}, d (no deps)"""
    out = []
    for b in BACKENDS:
        out += [
            base(None, [st('forget')], b),                                              # F2: no argument, no default_tasks
            base(['a', 'g:x'], [st('forget')], b),                                      # defaults
            base(None, [st('forget', ['a']), st('forget', ['g'])], b),
            base(None, [st('forget', ['a', 'c'], ['-s'], sub=True)], b),
            base(['d'], [st('forget', [], ['--all'], all=True)], b),
            base(['d'], [st('forget', [], ['--disable-default'], dd=True), st('forget', ['d'], ['--disable-default'], dd=True)], b),
            base(None, [st('forget', ['zz'])], b),
            base(['zz'], [st('forget')], b),
            base(None, [st('ignore', ['s'], mut=[('write', 2, 0)]), st('forget', ['s'])], b),   # setup-task of a stale task ignored, then forgotten
            base(None, [st('ignore', ['b']), st('ignore', ['g']), st('forget', ['b'], ['--follow-sub'], sub=True)], b),
            base(None, [st('ignore'), st('ignore', ['zz'])], b),
            base(None, [st('reset-dep', mut=[('write', 0, 2), ('delete', 4)])], b),
            base(None, [st('reset-dep', ['b', 'g'], mut=[('write', 1, 0), ('delete', 2)]), st('reset-dep', ['c'])], b),
            base(None, [st('reset-dep', mut=[('checker', 'timestamp')])], b),           # the documented use-case
            base(None, [st('reset-dep', ['a'], mut=[('setdef', 'a', 'file_dep', [0, 3])])], b, fail=['b']),
            base(None, [st('reset-dep', ['zz'])], b),
            # run; ignore T; run -a; run -a <dependents>; run; forget T; run  (the first run is the pre-state)
            base(None, [st('ignore', ['b'], run=R(always=True)), st('none', run=R(always=True, sel=['a', 'g:y'])),
                        st('none'), st('forget', ['b'])], b),                           # T plain: a, g:y (and so g) depend on it
            base(None, [st('ignore', ['g'], run=R(always=True, long=True)), st('none', run=R(always=True, sel=['g:x', 'g'], par=True)),
                        st('none', run=R(cont=False)), st('forget', ['g'])], b),        # T a group: its sub-tasks
            base(None, [st('ignore', ['s'], run=R(always=True, par=True), mut=[('write', 2, 0)]), st('none', run=R(always=True, sel=['c'])),
                        st('none', run=R(par=True)), st('forget', ['s'])], b),          # T the setup-task of c
            base(['a'], [st('ignore', ['b', 'g:x'], run=R(always=True, cont=False)), st('none', run=R(always=True, cont=False, sel=['g', 'd', 'a'])),
                         st('forget', [], run=R(always=True))], b),                     # without --continue; forget of the default task only
            # c has two setup-tasks, the FIRST one is ignored (its status must reach c although c becomes ready later)
            base(None, [st('ignore', ['s'], mut=[('write', 2, 0)]), st('none', run=R(always=True)), st('forget', ['s'])], b, csetup=['s', 'd']),
            # reset-dep under a changed checker of tasks whose status query ends before the checker test (an uptodate item
            # is false): the saved values (a) and result (c) are kept
            base(None, [st('reset-dep', ['a', 'c'], mut=[('checker', 'timestamp'), ('setdef', 'a', 'uptodate', [['bool', False]]),
                                                          ('setdef', 'c', 'uptodate', [['call', False]])]),
                        st('reset-dep', mut=[('checker', 'md5'), ('delete', 4)])], b),
        ]
        # run; ignore T; <T made not up-to-date>; reset-dep [T | no argument]; run; forget T; run   (T = b: a, g:y and g depend
        # on it).  The mark is in the record reset-dep rewrites: it has to be there afterwards, b and its dependents are
        # skipped by the run, and only `forget b` ends that.
        ways = [((), ['b']),                                          # never executed with success: no record but the mark
                ([('write', 0, 2)], ()),                              # a file_dep changed
                ([('setdef', 'b', 'targets', [5])], ()),              # a target is missing (stays so: not up-to-date afterwards either)
                ([('setdef', 'b', 'uptodate', [['bool', False]])], ())]   # an uptodate item is false
        for mut, fail in ways:
            for names, run in ((['b'], R()), ([], R(always=True))):
                out.append(base(None, [st('ignore', ['b']), st('reset-dep', names, mut=mut, run=run), st('forget', ['b'])], b, fail=fail))
        # T a group: g, g:x (file_dep changed) and g:y (target missing) are processed by one reset-dep
        out.append(base(None, [st('ignore', ['g']), st('reset-dep', ['g'], mut=[('write', 1, 0), ('delete', 4)]), st('forget', ['g'])], b))
        # the exception: the record of b was written by the md5 checker and reset-dep runs under the timestamp checker -- the
        # record is dropped with the mark; but a record that holds only the mark (no checker recorded) keeps it
        out.append(base(None, [st('ignore', ['b']), st('reset-dep', ['b'], mut=[('checker', 'timestamp')]), st('forget', ['b'])], b))
        out.append(base(None, [st('ignore', ['b']), st('reset-dep', ['b'], mut=[('checker', 'timestamp')]), st('forget', ['b'])], b, fail=['b']))
    return out


# ------------------------------------------------------------------ entry points
def run_key(s):
    ro, f = s['run'], s['follow']
    return ('run', ro['always'], ro['cont'], ro['par'], ro['sel'] is not None, bool(s['marked']),
            any(m & 4 for m in f.values()), any(m & 1 for m in f.values()), s['rc'])


def key_of(s):
    return (s['cmd'], tuple(a if a.startswith('-') else ('T' if ':' not in a else 'S') for a in s['args']), s['code'], len(s['changed']),
            s['default'] is None, s['ntasks'])


def inspect_key(s):
    return ('inspect', s['cmd'], tuple(a if a.startswith('-') else ('T' if ':' not in a else 'S') for a in s['args']), s['code'], s['backend'],
            s['ck'] is not None, bool(s['held_foreign']), len(s['changed']))


def run(ctx):
    out = Outcome()
    out.rule = ('33 fixed command sequences x 3 backends on the table of the statement (every argument form of the three commands; the '
                'histories run, ignore T, run -a, run -a <dependents>, run, forget T, run for T plain / group / setup-task, serial and '
                '-n 2 -P thread; the histories run, ignore T, <T not up-to-date: never executed | file_dep changed | target missing | '
                'uptodate false>, reset-dep [T | no argument], run, forget T, run, also for a group and under a changed checker) + random dodo namespaces (2-5 creators, groups with 1-3 sub-tasks, task_dep/setup/calc_dep/implicit deps, uptodate items, default_tasks '
                'absent/list/empty/unknown, stale record, DB options in DOIT_CONFIG or on the command line) x DB pre-state from a real run + '
                'file/definition/checker changes x 1-4 steps (a command application, or none) x backend, each followed by a recorded run with '
                'options from the PRNG (named selection, --continue or not, --always-execute or not, -n 2 -P thread).  one evaluation = one '
                'step.  non-trivial = distinct (command, argument form, outcome, number of records changed, default_tasks '
                'configured?, table size) where the command changed the DB or was refused, on a table of >= 3 tasks; plus distinct (options '
                'of the following run, some task marked ignored?, some task reported ignored?, some task executed?, exit code) on such a table.  '
                'ADDED (round F): the commands that only look -- list [--all] [-s] [--deps] [--sort definition] [names], info [--no-status] '
                'name, clean [-n] [-c] names -- as steps of the histories, between `ignore` and the later runs, every command (the three '
                'commands of the statement too) and every run possibly with its own --check_file_uptodate md5|timestamp on the command line: '
                '13 fixed histories x 3 backends (run; ignore T; T made not up-to-date; list / info / clean under the checker that wrote the '
                'records or the other one, from the configuration or the command line; run; forget T; run; T = plain task with dependents, '
                'group, setup-task; record holding only the mark; refused arguments) + random histories of 3-4 steps.  non-trivial for these '
                '= distinct (command, argument form, outcome, backend, own checker option?, an ignored task with a record of another '
                'checker than the command\'s?, records changed) with a task ignored and not forgotten, on a table of >= 3 tasks')
    cases = []
    specs = fixed_specs()
    n = ctx.n(70, 900)
    for i in range(n):
        specs.append(gen_spec(ctx.rng, kind=[None, None, 'forget', 'reset-dep', 'ignore-until-forget'][i % 5]))
    # the commands that only look (list / info / clean) between `ignore` and the later runs, each command and each run possibly
    # with its own --check_file_uptodate: generated AFTER the cases above (their PRNG stream is unchanged)
    specs += inspect_fixed_specs()
    for i in range(ctx.n(40, 700)):
        specs.append(gen_spec(ctx.rng, kind='inspect'))
    for idx, spec in enumerate(specs):
        try:
            summ = run_case(ctx, out, spec, idx, cases)
        except Exception as e:  # noqa -- a harness/implementation failure must not go unnoticed
            import traceback
            out.mismatches.append(dict(case=dict(spec=spec), impl='harness exception: %r' % (e,), model=traceback.format_exc()[-800:]))
            continue
        for s in summ:
            out.count(s['cmd'])
            out.count('outcome-%d' % (s['code'] if s['code'] < 100 else 100))
            if s['dangling']:
                out.count('dangling-dep')
            for k in s['seen']:
                out.count(k)
            if s['held']:
                out.count('step-with-task-ignored-and-not-forgotten')
            if s['ck']:
                out.count('command-with-own-checker-option')
            if s['cmd'] in INSPECT:
                out.count('inspection-command')
                if s['held']:
                    out.count('inspection-with-task-ignored-and-not-forgotten')
                if s['held_foreign']:
                    out.count('inspection-under-another-checker-than-the-record-of-an-ignored-task')
                    out.count('inspection-under-another-checker-than-the-record-of-an-ignored-task-' + s['backend'])
                if s['held'] and s['ntasks'] >= 3:
                    out.nontrivial.add(inspect_key(s))
            if s['follow'] is not None and s['run']['ck']:
                out.count('run-with-own-checker-option')
            if s['follow'] is not None:
                out.count('with-following-run')
                ro = s['run']
                for k, on in (('run-always-execute', ro['always']), ('run-without-continue', not ro['cont']), ('run-thread-parallel', ro['par']),
                              ('run-named-selection', ro['sel'] is not None), ('run-always-execute-with-ignored-task', ro['always'] and s['marked'])):
                    if on:
                        out.count(k)
                if s['ntasks'] >= 3:
                    out.nontrivial.add(run_key(s))
            if s['ntasks'] >= 3 and (s['changed'] or s['code'] >= 100):
                out.nontrivial.add(key_of(s))
        if idx in (0, 8, 16, len(specs) - 1):
            out.samples.append(dict(tasks=[n for n, p, t in all_tasks(spec)], default_tasks=spec['default'], backend=spec['backend'],
                                    steps=[dict(cmd=s['cmd'], args=s['args'], outcome=s['code'], records_changed=s['changed'],
                                                next_run_args=s['run_args'] if s['follow'] is not None else None,
                                                next_run=s['follow']) for s in summ]))
    out.evaluations = len(cases)
    bad = common.compare_with_model(ctx, PRE, cases, tag='c13')
    out.traces_validated = len(cases)
    for i, m in bad:
        out.mismatches.append(dict(case=cases[i]['desc'], impl=cases[i]['expected'], model=m))
    out.assumptions = [
        'the DB handed to the model is the logical content read back from the real backend before each command (C07: every backend is the same map)',
        'task table read from the real Task objects (loader output for the commands, TaskControl output for the following run)',
        'md5 oracle = identity on content ids (5 byte strings with distinct digests); file mtimes are set by the harness (integer seconds, fresh for every write)',
        'in the following run every action succeeds and no task has a result_dep item: a task\'s verdict depends on its own record only',
        'a thread-parallel run (-n 2 -P thread) is compared with the serial model run: per-task outcome and exit code under --continue are schedule independent (C08)',
        'a run without --continue that ends with a failure: only soundness of what was reported is compared (the stopping point depends on set iteration order)',
        'callables in uptodate are oracles; delayed tasks, wild-card names and task options on the command line are outside this property',
        'list / info: the model is Model/Introspect.v (C20) seen as a history step (Model/Inspect.v); what is compared here is the outcome, the status letter per '
        'task line, the DB on disk afterwards (list / info never close the dependency manager: a record dropped in memory is gone from a dbm file only) '
        'and the run that follows; the wording of the other lines is C20\'s.  clean: never --forget, tasks without clean actions; no task name starts with _',
    ]
    out.extra['trusted_base'] = ['harness/c13.py: namespace builder, recording reporter, parsing of the command output, DB dump, encoders']
    return out


def replay(ctx, payload):
    case = payload.get('case', {})
    spec = case.get('spec')
    out = Outcome()
    cases = []
    summ = run_case(ctx, out, spec, 0, cases)
    for s in summ:
        print(s['cmd'], s['args'], '(own checker: %s, configured: %s)' % (s['ck'], s['config_ck']), 'wrote', s['lines'], 'outcome', s['code'], 'changed', s['changed'], 'ignore-marked', s['marked'], 'ignored-not-forgotten', s['held'],
              'next run', s['run_args'], '(own checker: %s)' % s['run']['ck'], '->', s['follow'], 'exit', s['rc'])
    for v in out.violations:
        print('VIOLATION-REPLAY', v['shape'], v['what'])
    bad = common.compare_with_model(ctx, PRE, cases, tag='c13r')
    for i, m in bad:
        print('step', i, 'model says', m, 'implementation', cases[i]['expected'])
    return 1 if (out.violations or bad) else 0
