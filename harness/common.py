"""Shared machinery of the /verif checks.

Everything a check does goes through here: building the Coq development, re-checking the
property file (statements + Print Assumptions), evaluating model expressions inside Coq
(`Eval vm_compute`, sharded over the cores), deciding the outcome, writing the evidence file
and the replay file.  The implementation under test is always imported from /repo.
"""
import atexit, concurrent.futures, glob, hashlib, json, os, random, re, shutil, subprocess, sys, time

VERIF = os.path.dirname(os.path.dirname(os.path.abspath(__file__)))
COQ = os.path.join(VERIF, 'coq')
REPO = os.environ.get('VERIF_REPO', '/repo')
PY = '/venv/bin/python'
GUARD = 'PYDOIT_DOIT_VERIF'
NCPU = os.cpu_count() or 4

FORBIDDEN = r'\b(Admitted|admit|Axiom|Axioms|Parameter|Parameters|Conjecture|Conjectures|Hypothesis|Hypotheses|Variable|Variables)\b|Unset\s+Guard|bypass_check|Admit\s+Obligations|Unset\s+Positivity|Unset\s+Universe\s+Checking|type-in-type|impredicative-set|native_compute'
# std-library axioms we would accept if a proof needed them (each one must then be named in the evidence)
ALLOWED_AXIOMS = {
    'functional_extensionality_dep', 'FunctionalExtensionality.functional_extensionality_dep',
    'Eqdep.Eq_rect_eq.eq_rect_eq', 'eq_rect_eq', 'classic', 'Classical_Prop.classic',
    'proof_irrelevance', 'JMeq_eq', 'JMeq.JMeq_eq',
}


def sh(cmd, timeout=None, cwd=None, env=None):
    p = subprocess.run(cmd, shell=isinstance(cmd, str), cwd=cwd, env=env, timeout=timeout,
                       stdout=subprocess.PIPE, stderr=subprocess.PIPE, text=True)
    return p.returncode, p.stdout, p.stderr


class Ctx:
    def __init__(self, pid, tier, seed):
        self.pid_ = pid
        self.pid = pid.upper()
        self.tier = tier
        self.seed = seed
        self.rng = random.Random(seed * 1000003 + int(hashlib.md5(pid.encode()).hexdigest()[:6], 16))
        base = os.environ.get('TMPDIR', '/tmp')
        self.tmp = os.path.join(base, 'verif-%d-%s' % (os.getpid(), self.pid))
        shutil.rmtree(self.tmp, ignore_errors=True)
        os.makedirs(self.tmp)
        atexit.register(shutil.rmtree, self.tmp, True)
        self.t0 = time.time()
        self.notes = []

    @property
    def quick(self):
        return self.tier == 'quick'

    def n(self, quick, thorough):
        return quick if self.quick else thorough

    def subdir(self, name):
        d = os.path.join(self.tmp, name)
        os.makedirs(d, exist_ok=True)
        return d


# ---------------------------------------------------------------- Coq build

def coq_files():
    fs = []
    for sub in ('Model', 'Proofs', 'Properties'):
        fs += sorted(glob.glob(os.path.join(COQ, sub, '*.v')))
    return [os.path.relpath(f, COQ) for f in fs]


def coq_prepare():
    """(re)generate _CoqProject and Makefile when the file list changed"""
    files = coq_files()
    want = '-Q . DoitV\n-arg -w -arg -notation-overridden,-deprecated-hint-without-locality,-deprecated-instance-without-locality\n' + '\n'.join(files) + '\n'
    proj = os.path.join(COQ, '_CoqProject')
    cur = open(proj).read() if os.path.exists(proj) else ''
    if cur != want or not os.path.exists(os.path.join(COQ, 'Makefile')):
        with open(proj, 'w') as f:
            f.write(want)
        rc, out, err = sh('coq_makefile -f _CoqProject -o Makefile', cwd=COQ, timeout=120)
        if rc != 0:
            raise RuntimeError('coq_makefile failed: ' + err)


def coq_build(targets=None, timeout=3000):
    """full .vo build (never -vos) of the given targets (default: everything)"""
    coq_prepare()
    tg = ' '.join(targets) if targets else ''
    rc, out, err = sh('timeout %d make -j%d %s' % (timeout, NCPU, tg), cwd=COQ, timeout=timeout + 60)
    return rc == 0, (out + err)[-4000:]


def cone(pid):
    """the files Properties/<pid>.v depends on (transitively, inside this development)"""
    files = coq_files()
    by_mod = {os.path.splitext(os.path.basename(f))[0]: f for f in files}
    start = 'Properties/%s.v' % pid
    seen, todo = [], [start]
    while todo:
        f = todo.pop()
        if f in seen or not os.path.exists(os.path.join(COQ, f)):
            continue
        seen.append(f)
        txt = open(os.path.join(COQ, f)).read()
        for m in re.finditer(r'From\s+DoitV\s+Require\s+(?:Import|Export)\s+([^.]*)\.', txt):
            for mod in m.group(1).split():
                if mod in by_mod:
                    todo.append(by_mod[mod])
        for m in re.finditer(r'^\s*Require\s+(?:Import|Export)\s+([^.]*)\.', txt, flags=re.M):
            for mod in m.group(1).split():
                mod = mod.split('.')[-1]
                if mod in by_mod:
                    todo.append(by_mod[mod])
    return seen


def forbidden_scan(pid=None):
    hits = []
    for f in (cone(pid) if pid else coq_files()):
        txt = open(os.path.join(COQ, f)).read()
        # strip comments (non-nested is enough for our sources; nested handled by loop)
        prev = None
        while prev != txt:
            prev = txt
            txt = re.sub(r'\(\*(?:(?!\(\*|\*\)).)*\*\)', ' ', txt, flags=re.S)
        depth = 0  # Variable/Hypothesis are fine inside a Section
        for ln, line in enumerate(txt.split('\n'), 1):
            if re.match(r'\s*Section\b', line):
                depth += 1
            for m in re.finditer(FORBIDDEN, line):
                w = m.group(0)
                if depth > 0 and re.match(r'Variables?|Hypothes[ie]s', w):
                    continue
                hits.append('%s:%d: %s' % (f, ln, w))
            if re.match(r'\s*End\b', line) and depth > 0:
                depth -= 1
    return hits


def coq_property(pid):
    """re-run coqc on Properties/<pid>.v: returns (ok, theorems, assumptions{thm: [axioms]|[]}, log)"""
    src = os.path.join(COQ, 'Properties', pid + '.v')
    if not os.path.exists(src):
        return False, [], {}, 'missing ' + src
    text = open(src).read()
    thms = re.findall(r'^\s*(?:Theorem|Lemma|Corollary|Example)\s+(\w+)', text, flags=re.M)
    printed = re.findall(r'^\s*Print Assumptions\s+(\w+)\s*\.', text, flags=re.M)
    rc, out, err = sh('timeout 900 coqc -Q . DoitV -w -notation-overridden Properties/%s.v' % pid, cwd=COQ, timeout=960)
    if rc != 0:
        return False, thms, {}, (out + err)[-3000:]
    # split the output into one block per Print Assumptions
    blocks = re.split(r'(?=^Closed under the global context|^Axioms:)', out, flags=re.M)
    blocks = [b for b in blocks if b.startswith('Closed under') or b.startswith('Axioms:')]
    assum = {}
    for name, b in zip(printed, blocks):
        if b.startswith('Closed'):
            assum[name] = []
        else:
            assum[name] = re.findall(r'^([\w.]+)\s*:', b, flags=re.M)
    ok = len(blocks) == len(printed)
    return ok, thms, assum, out[-2000:]


# ---------------------------------------------------------------- evaluating the model inside Coq

def _run_shard(args):
    path, timeout = args
    d, f = os.path.dirname(path), os.path.basename(path)
    rc, out, err = sh('ulimit -s unlimited 2>/dev/null; timeout %d coqc -Q %s DoitV -w -notation-overridden %s' % (timeout, COQ, f), cwd=d, timeout=timeout + 30)
    return rc, out, err


def coq_eval(ctx, preamble, items, shard=250, timeout=900, tag='ev'):
    """items: list of (defs, expr) or expr strings; each is evaluated with vm_compute.
    Returns the list of printed values (whitespace-normalised), in order."""
    d = ctx.subdir('coq-' + tag)
    paths = []
    norm = [(it if isinstance(it, tuple) else ('', it)) for it in items]
    for s in range(0, len(norm), shard):
        p = os.path.join(d, '%s_%d.v' % (tag, s // shard))
        with open(p, 'w') as f:
            f.write(preamble + '\n')
            for i, (defs, expr) in enumerate(norm[s:s + shard]):
                if defs:
                    f.write(defs + '\n')
                f.write('Eval vm_compute in (%d%%nat, (%s)).\n' % (s + i, expr))
        paths.append(p)
    results = [None] * len(norm)
    with concurrent.futures.ThreadPoolExecutor(max_workers=NCPU) as ex:
        for (rc, out, err), p in zip(ex.map(_run_shard, [(p, timeout) for p in paths]), paths):
            if rc != 0:
                keep = os.path.join(VERIF, 'replays', 'coq-eval-failure-%s.v' % ctx.pid)
                os.makedirs(os.path.dirname(keep), exist_ok=True)
                shutil.copy(p, keep)
                raise RuntimeError('coqc failed on generated cases (%s kept as %s): %s' % (p, keep, (err or out)[-1500:]))
            txt = re.sub(r'\s+', ' ', out)
            for m in re.finditer(r'= \((\d+)(?:%nat)?, (.*?)\) : ', txt):
                results[int(m.group(1))] = m.group(2).strip()
    missing = [i for i, r in enumerate(results) if r is None]
    if missing:
        raise RuntimeError('no Coq output for cases %s' % missing[:10])
    shutil.rmtree(d, ignore_errors=True)
    return results


def coq_list(xs, scope=''):
    return '[' + '; '.join(str(x) for x in xs) + ']' + scope


def zlist(xs):
    """Z list literal"""
    return '[' + '; '.join(('(%d)' % x if x < 0 else str(x)) for x in xs) + ']%Z'


def parse_zlist(s):
    s = s.strip()
    if s.startswith('Some'):
        s = s[4:].strip()
    s = s.strip('()[] ')
    if not s:
        return []
    return [int(x.replace('%Z', '').strip(' ()')) for x in s.split(';')]


def compare_with_model(ctx, preamble, cases, tag='corr'):
    """cases: list of dict(model=<Coq expr : list Z>, expected=[ints], defs=<optional Coq text>).
    Returns list of (index, model_result) for the disagreeing ones."""
    items = []
    for i, c in enumerate(cases):
        items.append((c.get('defs', ''), 'cmpZ (%s) %s' % (c['model'], zlist(c['expected']))))
    outs = coq_eval(ctx, preamble, items, tag=tag)
    bad = []
    for i, o in enumerate(outs):
        if o != 'None':
            bad.append((i, parse_zlist(o)))
    return bad


def coq_bools(ctx, preamble, items, tag='chk'):
    outs = coq_eval(ctx, preamble, items, tag=tag)
    return [o == 'true' for o in outs]


# ---------------------------------------------------------------- known findings, replay, evidence

def known_findings(pid):
    p = os.path.join(VERIF, 'KNOWN_FINDINGS.json')
    if not os.path.exists(p):
        return []
    return [k for k in json.load(open(p)).get('findings', []) if k['property'] == pid and k.get('kind') == 'known']


def write_replay(ctx, name, payload):
    d = os.path.join(VERIF, 'replays')
    os.makedirs(d, exist_ok=True)
    p = os.path.join(d, '%s-%s-seed%d-%s.json' % (ctx.pid, ctx.tier, ctx.seed, name))
    with open(p, 'w') as f:
        json.dump(payload, f, indent=1, default=str)
    return p


class Outcome:
    """what a property harness returns"""
    def __init__(self):
        self.evaluations = 0
        self.nontrivial = set()        # hashable keys of distinct non-trivial cases
        self.rule = ''
        self.samples = []
        self.distribution = {}
        self.mismatches = []           # correspondence disagreements: dict(case=..., impl=..., model=...)
        self.violations = []           # property violated on the implementation: dict(what=..., shape=..., case=...)
        self.traces_validated = 0
        self.extra = {}
        self.assumptions = []

    def count(self, key, k=1):
        self.distribution[key] = self.distribution.get(key, 0) + k


TRUSTED_COMMON = [
    'Coq 8.16.1 kernel as run by coqc, including vm_compute conversion (no native_compute)',
    'hand-written Gallina model (coq/Model/*.v) -- tied to /repo by the correspondence check of this run only as far as its generated cases reach',
    'correspondence harness (harness/*.py): generators, observers, canonicalisation; model side evaluated inside Coq by Eval vm_compute (no extraction)',
    'CPython 3.12 and the standard-library modules doit calls (treated as oracles)',
]


def prebuild(pid):
    """bring the .vo files of the property's cone up to date before the model is evaluated (under the build lock)"""
    import fcntl
    with open(os.path.join(COQ, '.build.lock'), 'w') as lockf:
        fcntl.flock(lockf, fcntl.LOCK_EX)
        return coq_build(['Properties/%s.vo' % pid])


def finish(ctx, out, level_text_partial=None):
    """common tail of every check: proof status + correspondence -> exit code, evidence, VIOLATION lines"""
    pid = ctx.pid
    t_build = time.time()
    # checks may run concurrently: two `make`s in one directory must not compile the same file at once
    import fcntl
    with open(os.path.join(COQ, '.build.lock'), 'w') as lockf:
        fcntl.flock(lockf, fcntl.LOCK_EX)
        ok_build, log_build = coq_build(['Properties/%s.vo' % pid])
        ok_prop, thms, assum, log_prop = coq_property(pid) if ok_build else (False, [], {}, '')
    hits = forbidden_scan(pid)
    bad_axioms = {t: [a for a in ax if a.split('.')[-1] not in {x.split('.')[-1] for x in ALLOWED_AXIOMS}] for t, ax in assum.items()}
    bad_axioms = {t: a for t, a in bad_axioms.items() if a}
    proof_ok = ok_build and ok_prop and not hits and not bad_axioms
    discharged = len([t for t in thms if t in assum or True]) if (ok_build and ok_prop) else 0
    build_s = time.time() - t_build

    kf = known_findings(pid)
    new_viol, known_hit = [], {}
    for v in out.violations:
        m = [k for k in kf if k['match'] == v.get('shape')]
        if m:
            known_hit.setdefault(m[0]['match'], (m[0], v))
        else:
            new_viol.append(v)

    lines, status = [], 0
    if new_viol:
        status = 1
        seen = set()
        for i, v in enumerate(new_viol):
            if v.get('shape') in seen:
                continue
            seen.add(v.get('shape'))
            p = write_replay(ctx, 'violation%d' % i, dict(property=pid, kind='violation', **v))
            lines.append('VIOLATION property=%s replay=%s' % (pid, p))
            if len(seen) >= 5:
                break
    elif out.mismatches or not proof_ok:
        status = 1
        why = {}
        if not ok_build:
            why['coq_build_failed'] = log_build
        elif not ok_prop:
            why['property_file_failed'] = log_prop
        if hits:
            why['forbidden_constructs'] = hits
        if bad_axioms:
            why['unexpected_axioms'] = bad_axioms
        if out.mismatches:
            why['correspondence'] = 'model (coq/Model) and implementation (/repo) disagree; the theorems of Properties/%s.v no longer speak about this code' % pid
            why['first_disagreements'] = out.mismatches[:5]
        p = write_replay(ctx, 'unproved', dict(property=pid, kind='no-failing-input-found', no_longer_checks=why,
                                                theorems=thms))
        lines.append('VIOLATION property=%s replay=%s no-failing-input-found' % (pid, p))
    for mk, (k, v) in known_hit.items():
        print('KNOWN-FINDING: property=%s %s' % (pid, k['what']))
    for l in lines:
        print(l)

    cov = {
        'obligations': max(len(thms), 1),
        'discharged': discharged if proof_ok else 0,
        'checker_cmd': 'make -C coq Properties/%s.vo && coqc -Q coq DoitV coq/Properties/%s.v (statements + Print Assumptions re-checked on this run)' % (pid, pid),
        'trusted_base': TRUSTED_COMMON + out.extra.get('trusted_base', []),
        'theorems': thms,
        'print_assumptions': {t: (a or 'Closed under the global context') for t, a in assum.items()},
        'refuted_or_partial_theorems': [t for t in thms if t.endswith('_refuted') or t.endswith('_partial')],
        'forbidden_construct_hits': hits,
        'evaluations': out.evaluations,
        'distinct_nontrivial': len(out.nontrivial),
        'rule': out.rule,
        'samples': out.samples[:6],
        'traces_validated_against_impl': out.traces_validated,
        'correspondence_disagreements': len(out.mismatches),
        'input_distribution': out.distribution,
        'known_findings_hit': sorted(known_hit),
        'coq_build_and_property_recheck_s': round(build_s, 1),
    }
    for k, v in out.extra.items():
        if k != 'trusted_base':
            cov[k] = v
    ev = {
        'property_id': pid, 'tier': ctx.tier, 'seed': ctx.seed, 'level': 'proof',
        'coverage': cov,
        'assumptions': out.assumptions,
        'wall_s': round(time.time() - ctx.t0, 1),
        'violations': len(new_viol) + (1 if (status and not new_viol) else 0),
    }
    # a run against a scratch copy (VERIF_REPO, used to try seeded changes) must not overwrite committed evidence
    evdir = os.path.join(VERIF, 'evidence') if REPO == '/repo' else os.path.join(VERIF, '.scratch', 'evidence-' + os.path.basename(REPO))
    os.makedirs(evdir, exist_ok=True)
    with open(os.path.join(evdir, pid + '.json'), 'w') as f:
        json.dump(ev, f, indent=1, default=str)
    print('%s %s: theorems=%d proof_ok=%s cases=%d nontrivial=%d mismatches=%d violations=%d known=%d wall=%.0fs' % (
        pid, ctx.tier, len(thms), proof_ok, out.evaluations, len(out.nontrivial), len(out.mismatches),
        len(new_viol), len(known_hit), time.time() - ctx.t0))
    return status


# ---------------------------------------------------------------- implementation side helpers

def impl_env():
    e = dict(os.environ)
    e['PYTHONPATH'] = REPO
    e['PYTHONHASHSEED'] = '0'
    e[GUARD] = '1'
    e.pop('DOIT_CONFIG', None)
    return e


def use_repo():
    """make `import doit` resolve to /repo's working tree (never an installed copy)"""
    if sys.path[0] != REPO:
        sys.path.insert(0, REPO)
    os.environ[GUARD] = '1'
    import doit
    assert os.path.dirname(os.path.dirname(os.path.abspath(doit.__file__))) == os.path.abspath(REPO), doit.__file__
