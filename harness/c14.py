"""C14 -- `clean` acts on exactly the selected tasks, once, dependents first.

Correspondence: the real `doit.cmd_clean.Clean` command is run on generated task tables, selections,
flag combinations, file-system pre-states and DB pre-states, two ways:
  A. `Clean(...)._execute(...)` on a list of real `Task` objects with a real `Dependency` (json / dbm /
     sqlite3 file), as tests/test_cmd_clean.py does;
  B. `DoitMain(ModuleTaskLoader(ns)).run(['clean', flags..., names...])` in-process, tasks created by
     the real loader from generated dicts (groups/sub-tasks via basename/name), options parsed by the
     real command line parser, `default_tasks`/`dep_file`/`backend` through DOIT_CONFIG.
and the observation is compared with Model/Clean.v (`clean_execute_rd`) evaluated inside Coq.

History of the DB session (spec['pre'], spec['lookups']): the same `Dependency` object that `clean
--forget` removes records from may already have been used in the process -- by load-time code of the
dodo file and by the clean actions themselves, which ask `doit.Globals.dep_manager` for the state saved
by the last run (doc/globals.rst).  So a record can be, when it is forgotten: untouched (only in the
file), looked up (decoded in the backend's cache), saved in this session (dirty, with or without an
older copy in the file), or absent; and look-ups can come after the record was forgotten.  Generated:
  pre      operations done through Globals.dep_manager before the command selects anything (mode B: by
           the task-creator at load time; mode A: by the harness on the dep_manager it hands to Clean):
           look-ups, and (never with --dry-run) 'set' = a full record saved for a task
  lookups  per task and clean action: the look-ups [op, task] it makes when it runs
Look-ups of clean actions are modelled (Clean.v section WithReads: found iff saved and not yet forgotten);
the values they return, the effect of `pre` and the content of the records left in the DB are judged by
the oracle below from the declared inputs.

Input of the model = the task table read from the real objects after the real `TaskControl` ran on an
identically built second copy (name -> id by list position; task_dep, setup_tasks, subtask_of); the
clean kind and targets come from the generated spec.  `fnmatch` is an oracle: tabulated from the real
`fnmatch.fnmatch` per pattern.

Observation (list of ints, same layout as Clean.enc_res):
  error:  [96] InvalidCommand | [97] KeyError | [98] anything else
  ok:     0, ids whose Task.clean ran (in order), -1, events, -1, fs entries, -1, ids with saved state
  events: 1 t            Task.clean(t) entered            (recorded by a wrapper around Task.clean)
          2 t i          "<t> - executing '<action>'"     (i-th announcement of this task)
          3 t i d        clean action i of t ran; d = 2 no dryrun parameter, else the flag it received
          4|5|6 t path   "removing file" | "removing dir" | "cannot remove (it is not empty)"
          7 t i u b      clean action i of t asked doit.Globals.dep_manager for the saved state of task u
                         (get_result | get_values | get_value | _in); b = a record was found
  path  = component ids, -2        fs entry = kind(0 file,1 dir), path   (sorted by components)
"""
import fnmatch as _fnmatch, io, json, os, re, shutil, sys
import common
from common import Outcome

PRE = ('From DoitV Require Import Base Clean.\nOpen Scope Z_scope.\n'
       'Definition T := Build_task.\n'
       'Definition rdf (tab : list (N * nat * list N)) (t : N) (i : nat) : list N :=\n'
       '  match find (fun e => N.eqb (fst (fst e)) t && Nat.eqb (snd (fst e)) i)%bool tab with Some e => snd e | None => [] end.\n'
       'Definition fm (tab : list (list N)) (n : N) (p : N) : bool := mem n (nth (N.to_nat p) tab []).\n')

STALE = 999          # id of a DB record that belongs to no task
NOREC = 996          # id of a name that is no task and has no record (unless `pre` saves one)
SPECIAL = {'stale-record': STALE, 'no-such-record': NOREC}
READ_OPS = ['result', 'values', 'value', 'in']
COMP = 'n%02d'


# ------------------------------------------------------------------ generation
def comp_str(c):
    return COMP % c


def gen_fs(rng):
    """random tree: dict path(tuple of ints) -> 'f'|'d' (parents always present), plus missing paths"""
    ents = {}

    def grow(prefix, depth):
        for c in rng.sample(range(6), rng.choice([0, 1, 2, 3] if depth else [1, 2, 3])):
            p = prefix + (c,)
            if len(ents) >= 12:
                return
            if depth < 2 and rng.random() < 0.5:
                ents[p] = 'd'
                grow(p, depth + 1)
            else:
                ents[p] = 'f'
    grow((), 0)
    missing = set()
    dirs = [()] + [p for p, k in ents.items() if k == 'd']
    for _ in range(rng.choice([0, 1, 2])):
        p = rng.choice(dirs) + (rng.randrange(6, 9),)
        missing.add(p)
        if rng.random() < 0.3:
            missing.add(p + (rng.randrange(3),))
    return ents, sorted(missing)


def gen_case(rng, mode, dense=False):
    """returns a json-able spec"""
    names, kind, group_of = [], {}, {}
    for i in range(rng.choice([1, 2, 3, 3, 4, 5])):
        n = 't%02d' % i
        names.append(n); kind[n] = 'plain'
    for g in range(rng.choice([0, 1, 1, 2])):
        gn = 'g%02d' % g
        names.append(gn); kind[gn] = 'group'
        for s in range(rng.choice([1, 2, 2, 3])):
            sn = '%s:s%02d' % (gn, s)
            names.append(sn); kind[sn] = 'sub'; group_of[sn] = gn
    rank = {n: rng.random() for n in names}
    for n in names:
        if kind[n] == 'group':
            rank[n] = max([rank[s] for s in names if group_of.get(s) == n]) + 1e-6
    lower = lambda n: [m for m in names if rank[m] < rank[n]]
    ents, missing = gen_fs(rng)
    universe = sorted(ents) + missing
    rng.shuffle(universe)
    owner = {}
    tasks = {}
    for n in names:
        lo = lower(n)
        td = rng.sample(lo, min(len(lo), rng.choice([0, 0, 1, 1, 2, 3])))
        su = rng.sample(lo, min(len(lo), rng.choice([0, 0, 0, 1, 2])))
        if td and rng.random() < 0.1:
            td.append(rng.choice(td))                      # the same dependency twice
        if su and td and rng.random() < 0.15:
            su.append(rng.choice(td))                      # both setup and task_dep
        if rng.random() < 0.12:                            # wild-card task_dep on a lower group
            gs = [g for g in names if kind[g] == 'group' and rank[g] < rank[n] and group_of.get(n) != g]
            if gs:
                td.append(rng.choice(gs) + ':*')
        ck = rng.choices(['none', 'true', 'act', 'act_dry', 'two', 'cmd', 'dry_plain', 'dry_plain_dry'],
                         weights=[6, 10, 40, 12, 16, 1, 9, 6] if dense else [12, 34, 22, 8, 12, 1, 7, 4])[0]
        tasks[n] = dict(name=n, kind=kind[n], group=group_of.get(n), task_dep=td, setup=su, clean=ck,
                        targets=[], file_dep=[])
    for p in universe:
        if rng.random() < 0.75:
            pref = [n for n in names if tasks[n]['clean'] == 'true'] or names
            n = rng.choice(pref if rng.random() < 0.85 else names)
            tasks[n]['targets'].append(list(p)); owner[p] = n
    for n in names:                                        # implicit task_dep through a file_dep
        if rng.random() < 0.1:
            cands = [p for p, o in owner.items() if rank[o] < rank[n]]
            if cands:
                tasks[n]['file_dep'].append(list(rng.choice(cands)))
    if rng.random() < 0.07 and len(names) >= 2:            # a dependency cycle
        a, b = rng.sample(names, 2)
        hi, lo_ = (a, b) if rank[a] > rank[b] else (b, a)
        tasks[lo_]['task_dep'].append(hi)
        if hi not in tasks[hi]['task_dep'] and rng.random() < 0.5:
            tasks[hi]['task_dep'].append(lo_)
    if mode == 'A':
        order = list(names); rng.shuffle(order)
        for n in names:
            if kind[n] == 'group':
                subs = [s for s in names if group_of.get(s) == n]
                rng.shuffle(subs)
                if rng.random() < 0.05 and len(subs) > 1:
                    subs.pop()                             # a sub-task its group does not depend on
                tasks[n]['task_dep'] = tasks[n]['task_dep'] + subs if rng.random() < 0.5 else subs + tasks[n]['task_dep']
    else:
        order = []
        rest = [n for n in names if kind[n] != 'sub']
        rng.shuffle(rest)
        for n in rest:
            order.append(n)
            if kind[n] == 'group':
                subs = [s for s in names if group_of.get(s) == n]
                rng.shuffle(subs)
                order += subs
        # the loader yields group and sub-tasks from one generator; keep the rest interleaved by blocks
    pats = ['*', 't*', 'g00:*', 'g01:*', 'g0*', 'zz*', 't0[12]*', '*:s00']

    def items(k):
        res = []
        for _ in range(k):
            r = rng.random()
            if r < 0.72:
                res.append(rng.choice(names))
            elif r < 0.97:
                res.append(rng.choice(pats))
            else:
                res.append('nope')
        return res
    pos = [] if rng.random() < 0.38 else items(rng.choice([1, 1, 2, 3]))
    default = None if rng.random() < 0.5 else items(rng.choice([0, 1, 1, 2]))
    flags = dict(dryrun=rng.random() < 0.3, cleandep=rng.random() < 0.4, cleanall=rng.random() < 0.12,
                 forget=rng.random() < 0.45)
    db = [n for n in names if rng.random() < 0.7]
    spec = dict(mode=mode, order=order, tasks=tasks, fs=[[list(p), k] for p, k in sorted(ents.items())],
                pos=pos, default=default, flags=flags, db=db, stale=rng.random() < 0.5,
                backend=rng.choice(['json', 'dbm', 'sqlite3']))
    if dense:                                              # the part about the DB session: forget, many records
        spec['flags']['forget'] = rng.random() < 0.9
        spec['flags']['dryrun'] = rng.random() < 0.12
        spec['db'] = [n for n in names if rng.random() < 0.85]
    gen_session(rng, spec, dense)
    return spec


def gen_session(rng, spec, dense):
    """what happened to the DB session before / happens during the command: spec['pre'], spec['lookups']"""
    names = list(spec['order'])

    def target(own):
        r = rng.random()
        if own is not None and r < 0.4:
            return own
        return rng.choice(names) if r < 0.92 else rng.choice(sorted(SPECIAL))
    lookups = {}
    if dense or rng.random() < 0.5:
        for n in names:
            na = N_PYACTIONS[spec['tasks'][n]['clean']]
            if na and (dense or rng.random() < 0.6):
                lookups[n] = [[[rng.choice(READ_OPS), target(n)] for _ in range(rng.choice([0, 1, 1, 2, 3]))]
                              for _ in range(na)]
    pre = []
    if rng.random() < (0.7 if dense else 0.35):
        for _ in range(rng.choice([1, 1, 2, 3, 4] if not dense else [1, 2, 3, 4, 6])):
            if not spec['flags']['dryrun'] and rng.random() < 0.3:
                fresh = [n for n in names if n not in spec['db']]      # a record that exists only in this session
                pre.append(['set', rng.choice(fresh) if fresh and rng.random() < 0.5 else target(None),
                            rng.randrange(1000, 2000)])
            else:
                pre.append([rng.choice(READ_OPS), target(None)])
    spec['lookups'], spec['pre'] = lookups, pre


# ------------------------------------------------------------------ building the real objects
class Recorder(io.TextIOBase):
    """a stream that records complete lines into the shared log"""
    def __init__(self, log):
        self.log, self.buf = log, ''

    def write(self, s):
        self.buf += s
        while '\n' in self.buf:
            line, self.buf = self.buf.split('\n', 1)
            if line.strip():
                self.log.append(('line', line))
        return len(s)

    def flush(self):
        pass


def path_str(root, comps):
    return os.path.join(root, *[comp_str(c) for c in comps])


def do_op(dm, op):
    """one operation on the dependency manager -> what came back (json-able)"""
    try:
        if op[0] == 'result':
            return ['ok', dm.get_result(op[1])]
        if op[0] == 'values':
            return ['ok', dm.get_values(op[1])]
        if op[0] == 'value':
            return ['ok', dm.get_value(op[1], 'v')]
        if op[0] == 'in':
            return ['ok', bool(dm._in(op[1]))]
        if op[0] == 'set':                       # a full record, as Dependency.save_success writes one
            for k, v in record_of(op[2]).items():
                dm._set(op[1], k, v)
            return ['ok', None]
        raise ValueError(op)
    except BaseException as e:  # noqa
        return ['exc', '%s: %s' % (type(e).__name__, e)]


def record_of(k):
    return {'checker:': 'MD5Checker', '_values_:': {'v': k}, 'result:': {'r': k}}


def lookup_now(log, n, i, reads):
    """what a clean action (or load-time code: n = None) does: ask doit.Globals.dep_manager"""
    import doit
    dm = doit.Globals.dep_manager
    for j, op in enumerate(reads):
        log.append(('op', n, i, j, list(op), do_op(dm, op)))


def clean_value(t, log, lookups=None):
    ck, n = t['clean'], t['name']
    reads = (lookups or {}).get(n) or []
    rd = lambda i: reads[i] if i < len(reads) else []

    def plain(i, ret=None):
        def c():
            log.append(('exec', n, i, None))
            lookup_now(log, n, i, rd(i))
            return ret
        return c

    def dry(i):
        def c(dryrun):
            log.append(('exec', n, i, dryrun))
            lookup_now(log, n, i, rd(i))
        return c
    if ck == 'none':
        return []
    if ck == 'true':
        return True
    if ck == 'act':
        return [plain(0)]
    if ck == 'act_dry':
        return [dry(0)]
    if ck == 'two':
        return [plain(0, False), dry(1)]          # the first one fails: the loop must go on
    if ck == 'dry_plain':
        return [dry(0), plain(1)]                  # a dryrun-aware action does not make the later ones run on dry-run
    if ck == 'dry_plain_dry':
        return [dry(0), plain(1), dry(2)]
    if ck == 'cmd':
        return ['echo c14exec %s 0' % n]            # a cmd-action: its output goes to outstream
    raise ValueError(ck)


CLEAN_MODEL = {'none': 'Some []', 'true': 'None', 'act': 'Some [false]', 'act_dry': 'Some [true]',
               'two': 'Some [false; true]', 'cmd': 'Some [false]', 'dry_plain': 'Some [true; false]',
               'dry_plain_dry': 'Some [true; false; true]'}
N_ANNOUNCE = {'none': 0, 'true': 0, 'act': 1, 'act_dry': 1, 'two': 2, 'cmd': 1, 'dry_plain': 2, 'dry_plain_dry': 3}
N_PYACTIONS = dict(N_ANNOUNCE, cmd=0)          # clean actions that are python callables (they can look at the DB)


def task_kwargs(t, root, log, lookups=None):
    return dict(task_dep=list(t['task_dep']), setup=list(t['setup']), clean=clean_value(t, log, lookups),
                targets=[path_str(root, p) for p in t['targets']],
                file_dep=[path_str(root, p) for p in t['file_dep']])


def build_A(spec, root, log):
    from doit.task import Task
    res = []
    for n in spec['order']:
        t = spec['tasks'][n]
        res.append(Task(n, None, subtask_of=t['group'], has_subtask=(t['kind'] == 'group'),
                        **task_kwargs(t, root, log, spec.get('lookups'))))
    return res


def build_B_namespace(spec, root, log, config, live=False):
    def task_gen():
        if live:                                           # load-time code of the dodo file
            lookup_now(log, None, 0, spec.get('pre') or [])
        for n in spec['order']:
            t = spec['tasks'][n]
            d = task_kwargs(t, root, log, spec.get('lookups'))
            d['actions'] = None
            if t['kind'] == 'plain':
                d['basename'] = n
            elif t['kind'] == 'group':
                d['basename'] = n; d['name'] = None
            else:
                d['basename'] = t['group']; d['name'] = n.split(':', 1)[1]
            yield d
    return {'DOIT_CONFIG': config, 'task_gen': task_gen}


def read_table(task_list):
    """the model's input: the table as TaskControl leaves it"""
    from doit.control import TaskControl
    tc = TaskControl(task_list)
    ids = {t.name: i for i, t in enumerate(task_list)}
    rows = []
    for t in task_list:
        tt = tc.tasks[t.name]
        rows.append(dict(name=t.name, task_dep=[ids[d] for d in tt.task_dep], setup=[ids[d] for d in tt.setup_tasks],
                         sub=(ids.get(tt.subtask_of, 998) if tt.subtask_of is not None else None)))
    return ids, rows


def make_fs(root, fs):
    os.makedirs(root)
    for p, k in fs:
        s = path_str(root, p)
        if k == 'd':
            os.makedirs(s, exist_ok=True)
        else:
            os.makedirs(os.path.dirname(s), exist_ok=True)
            with open(s, 'w') as f:
                f.write('x')


def snap_fs(root):
    res = []
    for d, dns, fns in os.walk(root):
        rel = os.path.relpath(d, root)
        base = [] if rel == '.' else [int(c[1:]) for c in rel.split(os.sep)]
        for x in dns:
            res.append((tuple(base + [int(x[1:])]), 'd'))
        for x in fns:
            res.append((tuple(base + [int(x[1:])]), 'f'))
    return sorted(res)


def db_class(backend):
    from doit.dependency import JsonDB, DbmDB, SqliteDB
    return {'json': JsonDB, 'dbm': DbmDB, 'sqlite3': SqliteDB}[backend]


def rec_names(spec):
    """every name that can have a record, in the order used for the DB dumps"""
    return list(spec['order']) + ['no-such-record', 'stale-record']


def rec_value(spec, n):
    """the number saved (as value 'v' and as result) for n by the run before the command"""
    return 100 + rec_names(spec).index(n)


def db_initial(spec):
    """name -> number, the records in the DB file before the command"""
    return {n: rec_value(spec, n) for n in rec_names(spec)
            if n in spec['db'] or (n == 'stale-record' and spec['stale'])}


def db_fill(backend, path, recs):
    from doit.dependency import Dependency
    dep = Dependency(db_class(backend), path)
    for n, k in recs.items():
        for key, v in record_of(k).items():
            dep._set(n, key, v)
    dep.close()


def db_read(backend, path, names):
    """-> name -> [values, result] of the records in the file (a fresh session)"""
    from doit.dependency import Dependency
    dep = Dependency(db_class(backend), path)
    try:
        return {n: [dep.get_values(n), dep.get_result(n)] for n in names if dep._in(n)}
    finally:
        dep.close()


class Patched:
    """record every Task.clean call (the real method still runs); swap stdout/stderr for recorders"""
    def __init__(self, log):
        self.log = log

    def __enter__(self):
        from doit.task import Task
        self.Task, self.orig = Task, Task.clean
        log, orig = self.log, self.orig

        def clean(task, outstream, dryrun):
            log.append(('clean', task.name))
            return orig(task, outstream, dryrun)
        Task.clean = clean
        self.real = (sys.stdout, sys.stderr)
        self.out, self.err = Recorder(log), io.StringIO()
        sys.stdout, sys.stderr = self.out, self.err
        return self

    def __exit__(self, *a):
        self.Task.clean = self.orig
        sys.stdout, sys.stderr = self.real


def run_real(spec, casedir):
    """-> (code, log, fs_after, db_after, ids, rows)"""
    from doit.exceptions import InvalidCommand
    root = os.path.join(casedir, 'fs')
    dbfile = os.path.join(casedir, 'db')
    log = []
    make_fs(root, spec['fs'])
    all_names = rec_names(spec)
    db_fill(spec['backend'], dbfile, db_initial(spec))
    fl = spec['flags']
    code = 0
    if spec['mode'] == 'A':
        from doit.cmd_clean import Clean
        from doit.cmd_base import ModuleTaskLoader
        from doit.dependency import Dependency
        ids, rows = read_table(build_A(spec, root, []))
        tasks = build_A(spec, root, log)
        import doit
        with Patched(log) as pt:
            cmd = Clean(task_loader=ModuleTaskLoader({}))
            cmd.outstream = pt.out
            cmd.dep_manager = Dependency(db_class(spec['backend']), dbfile)
            doit.Globals.dep_manager = cmd.dep_manager                  # cmd_base.py 557
            cmd.task_list = tasks
            cmd.sel_tasks = (list(spec['pos']) or spec['default'])      # cmd_base.py 534
            lookup_now(log, None, 0, spec.get('pre') or [])             # the session so far
            try:
                cmd._execute(dryrun=fl['dryrun'], cleandep=fl['cleandep'], cleanall=fl['cleanall'],
                             cleanforget=fl['forget'], pos_args=list(spec['pos']))
            except InvalidCommand:
                code = 96
            except KeyError:
                code = 97
            except BaseException as e:  # noqa
                code = 98; log.append(('crash', repr(e)))
            finally:
                try:
                    cmd.dep_manager.close()
                except BaseException:  # noqa
                    pass
    else:
        from doit.doit_cmd import DoitMain
        from doit.cmd_base import ModuleTaskLoader
        from doit import loader as doit_loader
        config = {'dep_file': dbfile, 'backend': spec['backend'], 'verbosity': 0}
        if spec['default'] is not None:
            config['default_tasks'] = list(spec['default'])
        ids, rows = read_table(doit_loader.load_tasks(build_B_namespace(spec, root, [], dict(config))))
        ns = build_B_namespace(spec, root, log, config, live=True)
        args = ['clean']
        if fl['dryrun']:
            args.append('-n' if len(spec['order']) % 2 else '--dry-run')
        if fl['cleandep']:
            args.append('-c' if len(spec['order']) % 2 else '--clean-dep')
        if fl['cleanall']:
            args.append('-a' if len(spec['order']) % 2 else '--clean-all')
        if fl['forget']:
            args.append('--forget')
        args += list(spec['pos'])
        with Patched(log) as pt:
            try:
                rc = DoitMain(ModuleTaskLoader(ns)).run(args)
            except BaseException as e:  # noqa
                rc = 98; log.append(('crash', repr(e)))
            errtxt = pt.err.getvalue()
        if rc not in (None, 0):
            if 'is not a task' in errtxt:
                code = 96
            elif 'KeyError' in errtxt:
                code = 97
            else:
                code = 98; log.append(('crash', errtxt[-300:]))
    fs_after = snap_fs(root)
    db_after = db_read(spec['backend'], dbfile, all_names)
    return code, log, fs_after, db_after, ids, rows


# ------------------------------------------------------------------ encoding
RX = [(4, re.compile(r"^(\S+) - removing file '(.*)'$")), (5, re.compile(r"^(\S+) - removing dir '(.*)'$")),
      (6, re.compile(r"^(\S+) - cannot remove \(it is not empty\) '(.*)'$"))]
RX_CMD = re.compile(r"^c14exec (\S+) (\d+)$")
RX_ANN = re.compile(r"^(\S+) - executing '(.*)'$")


def encode_events(log, ids, root):
    ev, ann, cleaned = [], {}, []
    for e in log:
        if e[0] == 'clean':
            ev += [1, ids[e[1]]]; ann[e[1]] = 0; cleaned.append(ids[e[1]])
        elif e[0] == 'exec':
            ev += [3, ids[e[1]], e[2], 2 if e[3] is None else int(bool(e[3]))]
        elif e[0] == 'op':
            if e[1] is None:
                continue                                   # load-time: before the model's trace begins
            f = op_found(e[4], e[5])
            ev += [99] if f is None else [7, ids[e[1]], e[2], rec_id(ids, e[4][1]), int(f)]
        elif e[0] == 'line':
            m = RX_CMD.match(e[1])
            if m and m.group(1) in ids:
                ev += [3, ids[m.group(1)], int(m.group(2)), 2]
                continue
            m = RX_ANN.match(e[1])
            if m and m.group(1) in ids:
                ev += [2, ids[m.group(1)], ann.get(m.group(1), 0)]
                ann[m.group(1)] = ann.get(m.group(1), 0) + 1
                continue
            for k, rx in RX:
                m = rx.match(e[1])
                if m and m.group(1) in ids and m.group(2).startswith(root + os.sep):
                    comps = [int(c[1:]) for c in os.path.relpath(m.group(2), root).split(os.sep)]
                    ev += [k, ids[m.group(1)]] + comps + [-2]
                    break
            else:
                ev += [99]
        else:
            ev += [99]
    return cleaned, ev


def rec_id(ids, n):
    return SPECIAL[n] if n in SPECIAL else ids[n]


def rec_ids_sorted(ids, names):
    return sorted((rec_id(ids, n) for n in names), key=lambda i: (i in SPECIAL.values(), i))


def op_found(op, obs):
    """did the look-up find a record?  None = it failed in a way no look-up may fail"""
    if op[0] == 'value':
        return obs[0] == 'ok'
    if obs[0] != 'ok':
        return None
    return {'result': obs[1] is not None, 'values': bool(obs[1]), 'in': obs[1] is True}[op[0]]


def db_at_start(spec):
    """name -> number: the records when the command starts selecting = the file + what `pre` saved"""
    m = db_initial(spec)
    for op in spec.get('pre') or []:
        if op[0] == 'set':
            m[op[1]] = op[2]
    return m


def nl(xs):
    return '[' + '; '.join(str(x) for x in xs) + ']%N'


def model_expr(spec, ids, rows):
    names = [r['name'] for r in rows]
    pats, pos_items = [], {}

    def sel(items):
        out = []
        for it in items:
            if '*' in it:
                if it not in pats:
                    pats.append(it)
                out.append('SPat %d%%N' % pats.index(it))
            else:
                out.append('SName %d%%N' % ids.get(it, 997))
        return '[' + '; '.join(out) + ']'
    pos = sel(spec['pos'])
    if spec['pos']:
        selt = 'Some ' + pos
    elif spec['default'] is not None:
        selt = 'Some ' + sel(spec['default'])
    else:
        selt = 'None'
    tab = '[' + '; '.join(nl([ids[n] for n in names if _fnmatch.fnmatch(n, p)]) for p in pats) + ']'
    trs = []
    for r in rows:
        t = spec['tasks'].get(r['name'])
        ck = CLEAN_MODEL[t['clean']] if t else 'Some []'
        tg = '[' + '; '.join(nl(p) for p in (t['targets'] if t else [])) + ']'
        trs.append('T %d%%N %s %s %s (%s) %s' % (ids[r['name']], nl(r['task_dep']), nl(r['setup']),
                                                  'None' if r['sub'] is None else '(Some %d%%N)' % r['sub'], ck, tg))
    tb = '[' + ';\n  '.join(trs) + ']'
    b = lambda x: 'true' if x else 'false'
    fl = spec['flags']
    opts = 'Build_opts N %s %s %s %s %s (%s)' % (b(fl['dryrun']), b(fl['cleandep']), b(fl['cleanall']), b(fl['forget']), pos, selt)
    fs = '[' + '; '.join('(%s, %s)' % (nl(p), 'KDir' if k == 'd' else 'KFile') for p, k in spec['fs']) + ']'
    dbids = rec_ids_sorted(ids, db_at_start(spec))
    w = '{| w_fs := %s; w_db := %s; w_ev := [] |}' % (fs, nl(dbids))
    rd = []
    for n, acts in sorted((spec.get('lookups') or {}).items()):
        for i, reads in enumerate(acts):
            if reads and n in ids:
                rd.append('(%d%%N, %d%%nat, %s)' % (ids[n], i, nl([rec_id(ids, op[1]) for op in reads])))
    return 'enc_res (clean_execute_rd N (fm %s) (rdf [%s]) %s (%s) %s)' % (tab, '; '.join(rd), tb, opts, w)


# ------------------------------------------------------------------ independent oracle for the property
def reference_selection(spec, rows, ids):
    """what the documentation promises: (set of ids, deps_included) or an error code"""
    names = [r['name'] for r in rows]
    byid = {ids[r['name']]: r for r in rows}
    fl = spec['flags']

    def expand(items):
        res = []
        for it in items:
            if '*' in it:
                res += [ids[n] for n in names if _fnmatch.fnmatch(n, it)]
            elif it in ids:
                res.append(ids[it])
            else:
                res.append(None)
        return res
    if any(('*' not in it) and it not in ids for it in spec['pos']):
        return 96, None, None
    withdeps = True
    if fl['cleanall']:
        base = list(byid)
    elif spec['pos']:
        base = expand(spec['pos']); withdeps = fl['cleandep']
    elif spec['default'] is not None:
        base = expand(spec['default'])
    else:
        base = list(byid)
    if None in base:
        return 97, None, None
    want = set(base)
    if withdeps:
        todo = list(base)
        while todo:
            x = todo.pop()
            for d in byid[x]['task_dep'] + byid[x]['setup']:
                if d not in want:
                    want.add(d); todo.append(d)
    else:
        for x in base:
            for d in byid[x]['task_dep']:
                if byid[d]['sub'] == x:
                    want.add(d)
    return 0, want, withdeps


def acyclic(rows, ids):
    byid = {ids[r['name']]: r for r in rows}
    state = {}

    def visit(x):
        if state.get(x) == 1:
            return False
        if state.get(x) == 2:
            return True
        state[x] = 1
        for d in byid[x]['task_dep'] + byid[x]['setup']:
            if not visit(d):
                return False
        state[x] = 2
        return True
    return all(visit(x) for x in byid)


def lookup_oracle(spec, log):
    """every look-up (load-time and by clean actions) returned what is saved at that moment: replay of the
    declared operations on a plain dict, forgetting (--forget, no --dry-run) the record of a task when
    the next Task.clean is entered / at the end"""
    bad = []
    fl = spec['flags']
    forget = fl['forget'] and not fl['dryrun']
    m = dict(db_initial(spec))
    current = None
    for e in log:
        if e[0] == 'clean':
            if forget and current is not None:
                m.pop(current, None)
            current = e[1]
        elif e[0] == 'op':
            op, obs = e[4], e[5]
            if op[0] == 'set':
                m[op[1]] = op[2]
                if obs[0] != 'ok':
                    bad.append(('lookup-value', 'saving a record for %s through Globals.dep_manager failed: %s' % (op[1], obs[1])))
                continue
            k = m.get(op[1])
            if op[0] == 'value':
                ok = (obs == ['ok', k]) if k is not None else (obs[0] == 'exc' and 'has no computed value' in obs[1])
                exp = k if k is not None else 'Exception(... has no computed value!)'
            else:
                exp = {'result': None if k is None else {'r': k}, 'values': {} if k is None else {'v': k},
                       'in': k is not None}[op[0]]
                ok = obs == ['ok', exp]
            if not ok:
                who = 'load-time code' if e[1] is None else 'clean action %d of %s' % (e[2], e[1])
                bad.append(('lookup-value', '%s asked dep_manager for %s of %s and got %s, saved at that moment: %s' % (
                    who, op[0], op[1], obs, exp)))
    return bad


def forget_note(spec, log, names):
    """how the session had touched the records that are wrong (for the report)"""
    how = []
    for n in sorted(names):
        ops = sorted(set(e[4][0] for e in log if e[0] == 'op' and e[4][1] == n))
        how.append('%s: %s' % (n, '+'.join(ops) if ops else 'untouched'))
    return ' (%s; backend %s)' % (', '.join(how), spec['backend'])


def oracle(spec, ids, rows, code, log, fs_after, db_after, root):
    """-> list of (shape, sentence)"""
    bad = []
    fl = spec['flags']
    byid = {ids[r['name']]: r for r in rows}
    idname = {v: k for k, v in ids.items()}
    fs_before = sorted((tuple(p), k) for p, k in spec['fs'])
    saved = set(op[1] for op in spec.get('pre') or [] if op[0] == 'set')      # records the session itself saved
    recs_before = {n: [{'v': k}, {'r': k}] for n, k in db_initial(spec).items()}
    recs_start = {n: [{'v': k}, {'r': k}] for n, k in db_at_start(spec).items()}
    want_code, want, withdeps = reference_selection(spec, rows, ids)
    cleaned = [ids[e[1]] for e in log if e[0] == 'clean']
    bad += lookup_oracle(spec, log)
    if code in (96, 97):
        if code != want_code:
            bad.append(('error-kind', 'command failed with %d, reference says %d' % (code, want_code)))
        # whether what `pre` saved reaches the file when the command fails is not C14's business
        drop = lambda d: {n: r for n, r in d.items() if n not in saved}
        if cleaned or fs_after != fs_before or drop(db_after) != drop(recs_before):
            bad.append(('error-not-clean', 'a failing clean command cleaned tasks or changed files/DB'))
        return bad
    if code != 0:
        bad.append(('crash', 'clean raised an unexpected exception: %s' % [e for e in log if e[0] == 'crash'][:1]))
        return bad
    if want_code != 0:
        bad.append(('error-kind', 'command succeeded, reference says error %d' % want_code))
        return bad
    if set(cleaned) != want:
        bad.append(('set', 'cleaned %s but selection says %s' % (sorted(idname[i] for i in cleaned), sorted(idname[i] for i in want))))
    if len(set(cleaned)) != len(cleaned):
        bad.append(('once', 'a task was cleaned twice: %s' % [idname[i] for i in cleaned]))
    if withdeps and acyclic(rows, ids):
        pos = {t: i for i, t in enumerate(cleaned)}
        for t in cleaned:
            for d in byid[t]['task_dep'] + byid[t]['setup']:
                if d in pos and pos[d] < pos[t]:
                    bad.append(('order', '%s cleaned before %s which depends on it' % (idname[d], idname[t])))
    # dry-run / forget
    if fl['dryrun']:
        if fs_after != fs_before or db_after != recs_before:
            bad.append(('dryrun-frame', '--dry-run changed files or the DB'))
        if any(e[0] == 'exec' and e[3] is not True for e in log):
            bad.append(('dryrun-exec', '--dry-run executed a clean action that has no dryrun parameter'))
    else:
        # from the declared inputs only: the records at the start, minus (--forget) those of the tasks the
        # selection rules say are cleaned; whatever was looked up, by whom, and however the record got there
        gone = set(idname[i] for i in want) if fl['forget'] else set()
        want_db = {n: r for n, r in recs_start.items() if n not in gone}
        if sorted(db_after) != sorted(want_db):
            bad.append(('forget-exact', 'DB records after clean %s, expected %s%s' % (
                sorted(db_after), sorted(want_db), forget_note(spec, log, set(db_after) ^ set(want_db)))))
        elif db_after != want_db:
            diff = sorted(n for n in want_db if db_after[n] != want_db[n])
            bad.append(('db-content', 'saved state of %s changed by clean: %s, expected %s' % (
                diff, [db_after[n] for n in diff], [want_db[n] for n in diff])))
    # actions of the cleaned tasks: announced in order, executed
    for t in set(cleaned):
        sp = spec['tasks'].get(idname[t])
        if sp is None:
            continue
        ex = [e[2] for e in log if e[0] == 'exec' and e[1] == idname[t]]
        ex += [int(m.group(2)) for m in (RX_CMD.match(e[1]) for e in log if e[0] == 'line') if m and m.group(1) == idname[t]]
        wantex = list(range(N_ANNOUNCE[sp['clean']]))
        if fl['dryrun']:
            wantex = {'act_dry': [0], 'two': [1], 'dry_plain': [0], 'dry_plain_dry': [0, 2]}.get(sp['clean'], [])
        if ex != wantex:
            bad.append(('actions', 'clean actions of %s executed %s, expected %s' % (idname[t], ex, wantex)))
    if any(e[0] == 'exec' and ids[e[1]] not in set(cleaned) for e in log):
        bad.append(('actions', 'clean action of a task that was not cleaned'))
    # targets
    removed = [e for e in fs_before if e not in fs_after]
    added = [e for e in fs_after if e not in fs_before]
    if added:
        bad.append(('fs-added', 'clean created %s' % added))
    may = {}
    for t in set(cleaned):
        sp = spec['tasks'].get(idname[t])
        if sp and sp['clean'] == 'true':
            for p in sp['targets']:
                may[tuple(p)] = t
    before = dict(fs_before)
    after = dict(fs_after)
    for p, k in removed:
        if p not in may:
            bad.append(('fs-frame', 'removed %s which is not a target of a cleaned `clean: True` task' % (p,)))
        if k == 'd' and any(q[:-1] == p and q in after for q in before):
            bad.append(('fs-dir', 'removed directory %s that still has content' % (p,)))
    if not fl['dryrun']:
        for p, t in may.items():
            if before.get(p) == 'f' and p in after:
                bad.append(('fs-complete', 'existing target file %s of cleaned task %s was not removed' % (p, idname[t])))
            if before.get(p) == 'd' and p in after and not any(q[:-1] == p for q in before):
                bad.append(('fs-complete', 'empty target directory %s of %s was not removed' % (p, idname[t])))
    # per task: removal messages in reverse lexical order of the target strings
    msgs = {}
    for e in log:
        if e[0] == 'line':
            for k, rx in RX:
                m = rx.match(e[1])
                if m:
                    msgs.setdefault(m.group(1), []).append(m.group(2))
    for n, l in msgs.items():
        if l != sorted(l, reverse=True):
            bad.append(('target-order', 'targets of %s handled in order %s' % (n, l)))
    return bad


# ------------------------------------------------------------------ fixed cases (always run)
def fixed_specs():
    def t(name, **kw):
        d = dict(name=name, kind='plain', group=None, task_dep=[], setup=[], clean='act', targets=[], file_dep=[])
        d.update(kw)
        return d
    base = dict(
        t1=t('t1', setup=['t2'], targets=[[7]]), t2=t('t2'),
        t3=t('t3', kind='group', task_dep=['t3:a']), **{'t3:a': t('t3:a', kind='sub', group='t3')},
        t4=t('t4', file_dep=[[7]]))
    order = ['t1', 't2', 't3', 't3:a', 't4']
    specs = []
    # the configurations of tests/test_cmd_clean.py
    for pos, default, fl in [
            ([], None, dict(cleanall=True)), ([], None, {}), ([], ['t1'], {}), ([], ['t1'], dict(cleanall=True)),
            (['t2'], None, {}), (['t3*'], None, {}), (['t1'], None, dict(cleandep=True)), (['t4'], None, dict(cleandep=True)),
            (['t3'], None, {}), (['t1', 't2'], None, dict(cleandep=True)), (['xxxx'], None, {}),
            (['t2'], None, dict(forget=True)), (['t1'], None, dict(cleandep=True, forget=True)),
            ([], ['nope'], {}), ([], [], {}), (['t3:a', 't3'], None, {}), (['t4'], None, dict(dryrun=True, forget=True, cleandep=True))]:
        flags = dict(dryrun=False, cleandep=False, cleanall=False, forget=False)
        flags.update(fl)
        specs.append(dict(mode='A', order=order, tasks=base, fs=[], pos=pos, default=default, flags=flags,
                          db=['t1', 't2', 't4'], stale=True, backend='json'))
    # nested targets: directory and its content are targets of one `clean: True` task
    nest = dict(a=t('a', clean='true', targets=[[1], [1, 2], [1, 3], [1, 3, 4], [5]]), b=t('b', clean='true', targets=[[6], [6, 0]], task_dep=['a']))
    fs = [[[1], 'd'], [[1, 2], 'f'], [[1, 3], 'd'], [[1, 3, 4], 'f'], [[5], 'd'], [[5, 0], 'f'], [[6], 'd'], [[6, 0], 'f'], [[6, 1], 'f']]
    for fl in [{}, dict(dryrun=True), dict(forget=True)]:
        flags = dict(dryrun=False, cleandep=False, cleanall=False, forget=False)
        flags.update(fl)
        for mode in 'AB':
            specs.append(dict(mode=mode, order=['a', 'b'], tasks=nest, fs=fs, pos=[], default=None, flags=flags,
                              db=['a', 'b'], stale=False, backend='sqlite3'))
    # the DB session: doc/globals.rst (a clean action looks up what its task saved) + `clean --forget`;
    # a dependency looks up the record of its (already cleaned) dependent; load-time look-ups and saves
    look = dict(create=t('create'), plain=t('plain', setup=['create']), other=t('other', clean='act_dry'))
    for backend in ('dbm', 'json', 'sqlite3'):
        for mode in 'AB':
            for pos, fl, lookups, pre in [
                    (['create', 'plain'], dict(forget=True), dict(create=[[['result', 'create']]]), []),
                    (['plain'], dict(forget=True, cleandep=True),
                     dict(create=[[['value', 'plain'], ['values', 'create'], ['in', 'other']]], plain=[[['result', 'other']]]), []),
                    (['other'], dict(forget=True), {}, [['values', 'other'], ['result', 'plain']]),
                    (['create', 'other'], dict(forget=True), dict(other=[[['in', 'create']]]),
                     [['set', 'create', 1001], ['set', 'no-such-record', 1002], ['set', 'plain', 1003]]),
                    ([], dict(forget=True, dryrun=True), dict(other=[[['result', 'other'], ['value', 'plain']]]), [['in', 'plain']])]:
                flags = dict(dryrun=False, cleandep=False, cleanall=False, forget=False)
                flags.update(fl)
                specs.append(dict(mode=mode, order=['create', 'plain', 'other'], tasks=look, fs=[], pos=pos, default=None,
                                  flags=flags, db=['create', 'plain', 'other'], stale=True, backend=backend,
                                  lookups=lookups, pre=pre))
    return specs


# ------------------------------------------------------------------ driver
def shape_of(spec, code, cleaned):
    fl = spec['flags']
    return '%s|n%d|pos%d|def%s|%s|code%d|cleaned%d' % (
        spec['mode'], len(spec['order']), len(spec['pos']), 'N' if spec['default'] is None else len(spec['default']),
        ''.join(k[0] if k != 'cleanall' else 'a' for k in ('dryrun', 'cleandep', 'cleanall', 'forget') if fl[k]) or '-', code, len(cleaned))


def session_counts(out, spec, log, cleaned, ids):
    """input distribution of the DB-session dimension; non-trivial = a record that --forget has to erase had
    been touched by the session (looked up / saved) before, or a look-up came after the record was forgotten"""
    fl = spec['flags']
    forget = fl['forget'] and not fl['dryrun']
    ops = [e for e in log if e[0] == 'op']
    if not ops:
        out.count('session:untouched')
        return
    out.count('session:load-time-ops' if any(e[1] is None for e in ops) else 'session:no-load-time-ops')
    if any(e[1] is not None for e in ops):
        out.count('session:look-ups-by-clean-actions')
    if any(e[4][0] == 'set' for e in ops):
        out.count('session:saves')
    idname = {v: k for k, v in ids.items()}
    cl = [idname[c] for c in cleaned]
    start = db_at_start(spec)
    state, entered, late = {}, [], False
    for e in log:
        if e[0] == 'clean':
            entered.append(e[1])
        elif e[0] == 'op':
            u = e[4][1]
            if u in entered[:-1] and u != e[1] and u in start:
                late = True
            elif e[4][0] == 'set':
                state[u] = 'saved-over' if u in db_initial(spec) else 'saved-new'
            elif u in start and u not in state:
                state[u] = 'looked-up'
    kinds = set(state[u] for u in cl if u in state and u in start) if forget else set()
    for k in sorted(kinds):
        out.count('forgotten-record:' + k)
    if forget and any(u in start and u not in state for u in cl):
        out.count('forgotten-record:untouched')
    if forget and late:
        out.count('session:look-up-after-forget')
    if kinds or (forget and late):
        out.nontrivial.add(('session', spec['mode'], spec['backend'], tuple(spec['order']), tuple(spec['pos']),
                            tuple(sorted(fl.items())), json.dumps([spec.get('pre'), spec.get('lookups')], sort_keys=True)))


def run_case(ctx, out, spec, idx, cases):
    casedir = os.path.join(ctx.subdir('cases'), 'c%d' % idx)
    os.makedirs(casedir)
    root = os.path.join(casedir, 'fs')
    try:
        code, log, fs_after, db_after, ids, rows = run_real(spec, casedir)
    finally:
        pass
    cleaned, ev = encode_events(log, ids, root)
    if code == 0:
        dbz = rec_ids_sorted(ids, db_after)
        fsz = []
        for p, k in fs_after:
            fsz += [1 if k == 'd' else 0] + list(p) + [-2]
        expected = [0] + cleaned + [-1] + ev + [-1] + fsz + [-1] + dbz
    else:
        expected = [code]
    cases.append(dict(model=model_expr(spec, ids, rows), expected=expected, desc=spec))
    fl = spec['flags']
    out.count('mode:' + spec['mode'])
    out.count('select:' + ('all-flag' if fl['cleanall'] else 'positional' if spec['pos'] else 'default_tasks' if spec['default'] is not None else 'no-args'))
    out.count('deps:' + ('included' if (fl['cleanall'] or fl['cleandep'] or not spec['pos']) else 'sub-tasks-only'))
    for k in ('dryrun', 'forget'):
        if fl[k]:
            out.count('flag:' + k)
    out.count('outcome:%s' % {0: 'ok', 96: 'InvalidCommand', 97: 'KeyError'}.get(code, 'crash'))
    out.count('backend:' + spec['backend'])
    session_counts(out, spec, log, cleaned, ids)
    if not acyclic(rows, ids):
        out.count('graph:cyclic')
    if any('*' in x for x in spec['pos'] + (spec['default'] or [])):
        out.count('select:wildcard')
    if len(spec['order']) >= 3 and (len(cleaned) >= 2 or code != 0):
        out.nontrivial.add((spec['mode'], tuple((r['name'], tuple(r['task_dep']), tuple(r['setup']), r['sub']) for r in rows),
                            tuple(spec['pos']), None if spec['default'] is None else tuple(spec['default']),
                            tuple(sorted(fl.items())), tuple((tuple(p), k) for p, k in spec['fs'])))
    for shape, what in oracle(spec, ids, rows, code, log, fs_after, db_after, root):
        out.violations.append(dict(what=what, shape='clean-' + shape, case=spec))
    if code == 97 and spec['default'] is not None and not spec['pos']:
        out.count('note:default_tasks-with-unknown-name-gives-KeyError')
    shutil.rmtree(casedir, ignore_errors=True)
    return code, cleaned, ids


def run(ctx):
    out = Outcome()
    out.rule = ('fixed: 17 configurations on the table of tests/test_cmd_clean.py (its 13 cases + unknown/empty default_tasks, sub-task named before its group, dry-run+forget) + 6 nested-target cases; random: task tables of 2..11 tasks '
                '(plain, groups with sub-tasks, task_dep/setup/wild-card/implicit deps, duplicates, 7% with a cycle) x positional names/'
                'patterns x default_tasks x --clean-dep/--clean-all/--dry-run/--forget x fs pre-state x DB backend, through Clean._execute (A) '
                'and DoitMain.run (B).  DB session: in half of those cases python clean actions look up (get_result / get_values / get_value / _in '
                'through doit.Globals.dep_manager) the saved state of their own task, of other tasks and of names without a task, and in a third '
                'load-time code looks up / saves records first; + 30 fixed session cases (3 backends x A/B x 5) + a dense part (mostly --forget, '
                'most tasks with looking-up clean actions) run on each of the three backends.  non-trivial = distinct case with >= 3 tasks where '
                '>= 2 tasks were cleaned or the command failed; or distinct session case where a record --forget has to erase had been looked up '
                'or saved in the same session, or a look-up came after its record was forgotten')
    cases = []
    specs = fixed_specs()
    n = ctx.n(320, 3000)
    for i in range(n):
        specs.append(gen_case(ctx.rng, 'A' if i % 3 else 'B'))
    # the DB session in depth: the same table / selection / session on each of the three backends
    for i in range(ctx.n(40, 1200)):
        spec = gen_case(ctx.rng, 'B' if i % 3 else 'A', dense=True)
        for backend in ('dbm', 'json', 'sqlite3'):
            specs.append(dict(spec, backend=backend))
    for idx, spec in enumerate(specs):
        code, cleaned, ids = run_case(ctx, out, spec, idx, cases)
        if idx in (1, 20, len(specs) - 1):
            inv = {v: k for k, v in ids.items()}
            out.samples.append(dict(order=spec['order'], task_dep={k: v['task_dep'] for k, v in spec['tasks'].items()},
                                    setup={k: v['setup'] for k, v in spec['tasks'].items() if v['setup']}, pos=spec['pos'],
                                    default_tasks=spec['default'], flags=spec['flags'], outcome=code, cleaned=[inv[c] for c in cleaned]))
    out.evaluations = len(cases)
    bad = common.compare_with_model(ctx, PRE, cases, tag='c14')
    out.traces_validated = len(cases)
    for i, m in bad:
        out.mismatches.append(dict(case=cases[i]['desc'], impl=cases[i]['expected'], model=m))
    out.assumptions = [
        'model input is the task table after TaskControl.__init__ (read from the real objects): wild-card and implicit task_dep already expanded',
        'fnmatch.fnmatch is an oracle (tabulated per pattern from the real function)',
        'file system = regular files and directories; symlinks, permissions, concurrent changes and failing os.remove/os.rmdir are outside the model',
        'target strings are compared by Python as component lists are by the model (fixed-width alphanumeric components); '
        'C14_clean_targets_children_first only needs: a path sorts before everything inside it, true for any strings where the directory is a string prefix',
        'what a user clean-action does to files is not modelled (only that/when it is invoked, and with which dryrun flag); '
        'its look-ups in the DB are modelled (found / not found); the values they return and saves by load-time code are judged by the oracle only',
        'Python recursion limit (a dependency chain > ~1000 tasks) not modelled: fuel is proved adequate instead',
    ]
    out.extra['trusted_base'] = ['harness/c14.py: reading the table from the real Task objects, parsing of the clean messages, fs/DB snapshots']
    return out


def replay(ctx, payload):
    spec = payload.get('case')
    out = Outcome()
    cases = []
    code, cleaned, ids = run_case(ctx, out, spec, 0, cases)
    inv = {v: k for k, v in ids.items()}
    print('outcome', code, 'cleaned', [inv[c] for c in cleaned])
    for v in out.violations:
        print('VIOLATION-REPLAY', v['shape'], v['what'])
    bad = common.compare_with_model(ctx, PRE, cases, tag='c14r')
    print('model agrees' if not bad else 'model says %s, implementation %s' % (bad[0][1], cases[0]['expected']))
    return 1 if (out.violations or bad) else 0
