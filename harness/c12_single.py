"""C12, Part D -- --single (and the plain closure) when dependencies cross group borders.

Dimension (round G, seeded C12g): task sets with SEVERAL groups whose dependencies cross the borders of the groups --
the definition of a group (`yield {'name': None, 'task_dep': [...]}`) names
    a plain task / ANOTHER group / a sub-task of another group by name (`h:x`) / a wild-card over the sub-tasks of another
    group (`h:*`) / a wild-card matching own AND foreign sub-tasks (`*:x`) / one of its own sub-tasks again / `g:*`,
sub-tasks depend on plain tasks, other groups, foreign sub-tasks (by name, by wild-card, through file_dep on a foreign
target), later siblings, and have setup-tasks -- selected by group name, sub-task name, pattern over groups and sub-tasks,
target of a sub-task, several of them, through default_tasks or nothing at all (= all tasks), with -s / --single and without.

What the property text demands (oracle, from the declarations alone, no doit code):
    `with --single the named tasks without their task dependencies`; a group name stands for `all its sub-tasks`.
    So under --single a selected group depends on exactly the sub-tasks DECLARED in it (never on a sub-task of another
    group, whatever the spelling that brought it into the group's task_dep), these and every other selected task have no
    task dependency left, and every task that is neither selected nor a sub-task of a selected group keeps its own.
    Without --single nothing changes.

D1  TaskControl level, runner replaced by a stub (as A2 / C1): `DoitMain(loader).run(argv)` on real Task lists built the
    way the loader builds groups (has_subtask, subtask_of, the sub-task names appended to the group's task_dep)
      == enc_cmd (doit_main ..)  (Model/Select.v: single_one / is_sub_of; C12_single, C12_single_group_exact) and the oracle
    above on what the runner is started with (selected list in order, task_dep of EVERY task as a set).
D2  complete real runs in-process of the same task sets rendered as dodo modules (c12.check_b: exit code, processed ==
    closure computed by oracle_b, executed actions, start order).
D3  the same through `python -m doit` in a sub-process.
Shapes (from the input alone): c12:single-group-cross-border-dep (--single and a selected group, or a sub-task of one, has a
dependency leaving the group), c12:single-group (--single, a group selected), c12:single-no-group, c12:group-closure.
"""
import fnmatch, os
import c12_cli

SUBS = ['x', 'y', '1']


# ---------------------------------------------------------------------------------------------
# generation: one generator for all three drivers (the spec format of c12.gen_b)
def mk_spec(d, blocks, defs, default=None):
    order = []
    for kind, nm, subs in blocks:
        order.append(nm)
        if kind == 'group':
            order += ['%s:%s' % (nm, s) for s in subs]
            defs[nm]['subs'] = ['%s:%s' % (nm, s) for s in subs]
    return dict(dir=d, blocks=blocks, order=order, defs=defs, dsubs={}, default=default)


def gen_d(rng, d, c12, out=None):
    """dependencies leave a block only towards LATER blocks (no cycles: C09 is about those); siblings: later ones"""
    T = c12.T
    groups = rng.sample(['g', 'h', 'k'], rng.choice([2, 2, 2, 3]))
    plains = rng.sample(['prep', 'a', 'b'], rng.randrange(1, 4))
    blocks = [['plain', p, []] for p in plains] + [['group', g, sorted(rng.sample(SUBS, rng.randrange(1, 4)))] for g in groups]
    rng.shuffle(blocks)
    bidx = {b[1]: i for i, b in enumerate(blocks)}
    subs_of = {b[1]: ['%s:%s' % (b[1], s) for s in b[2]] for b in blocks if b[0] == 'group'}
    defs, kinds = {}, []
    file_no = [0]
    producers = {}

    def later_blocks(base):
        return [b for b in blocks if bidx[b[1]] > bidx[base]]

    def foreign_dep(base, weights=(3, 2, 4, 3)):
        """one dependency leaving the block of `base`: (kind, string) or None"""
        lb = later_blocks(base)
        lp = [b[1] for b in lb if b[0] == 'plain']
        lg = [b[1] for b in lb if b[0] == 'group']
        pool = []
        if lp:
            pool.append(('plain', lambda: rng.choice(lp), weights[0]))
        if lg:
            pool.append(('group', lambda: rng.choice(lg), weights[1]))
            pool.append(('foreign-sub', lambda: rng.choice(subs_of[rng.choice(lg)]), weights[2]))
            pool.append(('foreign-wild', lambda: rng.choice(lg) + ':*', weights[3]))
        if not pool:
            return None
        k, f, _ = rng.choices(pool, weights=[p[2] for p in pool])[0]
        return k, f()

    def member(nm, base, kind):
        t = T(kind)
        for _ in range(rng.choice([0, 0, 1, 1, 2])):
            fd = foreign_dep(base)
            if fd:
                t['task_dep'].append(fd[1])
                kinds.append(('sub-dep:' if kind == 'sub' else 'plain-dep:') + fd[0])
        if kind == 'sub':
            sib = [s for s in subs_of[base] if s > nm]
            if sib and rng.random() < 0.2:
                t['task_dep'].append(rng.choice(sib))
                kinds.append('sub-dep:later-sibling')
        if rng.random() < 0.12:
            fd = foreign_dep(base, weights=(3, 0, 3, 0))
            if fd:
                t['setup'] = [fd[1]]
                kinds.append('setup:' + fd[0])
        if rng.random() < 0.35:
            f = 'out/o%d.txt' % file_no[0]; file_no[0] += 1
            t['targets'] = [f]
            producers[f] = nm
        return t
    # later blocks first: file_dep on the target of a task of a later block = one more dependency leaving the block
    for kind, nm, subs in reversed(blocks):
        if kind == 'plain':
            defs[nm] = member(nm, nm, 'plain')
            continue
        for s in subs_of[nm]:
            defs[s] = member(s, nm, 'sub')
        g = T('group')
        if rng.random() < 0.8:
            for _ in range(rng.choice([1, 1, 2, 3])):
                r = rng.random()
                if r < 0.12:
                    g['task_dep'].append(rng.choice(subs_of[nm])); kinds.append('group-dep:own-sub-again')
                elif r < 0.2:
                    g['task_dep'].append(nm + ':*'); kinds.append('group-dep:own-wild')
                elif r < 0.38:
                    # `*:x`: own and foreign sub-tasks; every foreign match must live in a later block
                    ok = [s for s in SUBS if all(bidx[h] > bidx[nm] for h in subs_of if h != nm and '%s:%s' % (h, s) in subs_of[h])
                          and any('%s:%s' % (h, s) in subs_of[h] for h in subs_of if h != nm)]
                    if ok:
                        g['task_dep'].append('*:' + rng.choice(ok)); kinds.append('group-dep:mixed-wild')
                else:
                    fd = foreign_dep(nm)
                    if fd:
                        g['task_dep'].append(fd[1]); kinds.append('group-dep:' + fd[0])
        defs[nm] = g
    for nm, t in defs.items():
        if t['kind'] in ('plain', 'sub'):
            base = nm.split(':')[0]
            for f, p in producers.items():
                if bidx[p.split(':')[0]] > bidx[base] and rng.random() < 0.12:
                    t['file_dep'].append(f)
                    kinds.append('file_dep-on-foreign-target')
    spec = mk_spec(d, blocks, defs)
    order = spec['order']
    gnames = sorted(subs_of)

    def element():
        r = rng.random()
        if r < 0.45:
            return rng.choice(gnames)
        if r < 0.6:
            return rng.choice([s for g_ in gnames for s in subs_of[g_]])
        if r < 0.75:
            return rng.choice(['g*', 'h*', 'k*', '*:x', '*:*', 'g:*', 'h:*', '[gh]*', 'zz*', '*'])
        if r < 0.85 and producers:
            return rng.choice(sorted(producers))
        if r < 0.96:
            return rng.choice(order)
        return rng.choice(['zz', 'g:zz', 'out/none.txt', 'G'])
    names = [element() for _ in range(rng.choice([1, 1, 1, 2, 2, 3]))]
    how = rng.choices(['positional', 'default_tasks', 'nothing'], weights=[80, 14, 6])[0]
    if how == 'default_tasks':
        spec['default'], names = names, []
    elif how == 'nothing':
        names = []
    single = rng.random() < 0.75
    flags = [rng.choice(['-s', '--single'])] if single else []
    argv = (['run'] if (rng.random() < 0.7) else []) + flags + names
    if out is not None:
        for k in set(kinds):
            out.count('D:' + k)
        out.count('D:selection:' + how + (':single' if single else ''))
    return spec, argv, names, single


def directed_d(d, c12):
    """(label, spec, argv): the minimal inputs, every seed and tier"""
    T = c12.T

    def two(gdep, adep=('prep',), default=None, hx_target=None):
        blocks = [['plain', 'prep', []], ['group', 'h', ['x', 'y']], ['group', 'h2', ['p', 'q']], ['group', 'k', ['only']],
                  ['group', 'g', ['a', 'b', 'x']]]
        defs = {'prep': T(), 'h': T('group'), 'h:x': T('sub', task_dep=['prep'], targets=[hx_target] if hx_target else []),
                'h:y': T('sub', task_dep=['prep']), 'h2': T('group'), 'h2:p': T('sub'), 'h2:q': T('sub'), 'k': T('group'), 'k:only': T('sub'),
                'g': T('group', task_dep=list(gdep)), 'g:a': T('sub', task_dep=list(adep)), 'g:b': T('sub'), 'g:x': T('sub')}
        return mk_spec(d, blocks, defs, default)
    return [
        ('closure-group-dep-on-foreign-sub', two(['h:x']), ['g']),
        ('single-group-dep-on-task-and-group', two(['prep', 'k']), ['run', '--single', 'g']),
        ('single-group-dep-on-foreign-sub', two(['h:x']), ['run', '--single', 'g']),
        ('single-group-dep-on-foreign-wild', two(['h2:*']), ['-s', 'g']),
        ('single-group-dep-on-mixed-wild', two(['*:x']), ['run', '-s', 'g']),
        ('single-group-dep-on-own-sub-and-foreign', two(['g:b', 'h:y', 'g:*']), ['run', '-s', 'g']),
        ('single-two-groups-one-needs-sub-of-other', two(['h:x']), ['run', '-s', 'g', 'h']),
        ('single-two-groups-other-order', two(['h:x']), ['run', '-s', 'h', 'g']),
        ('single-by-pattern', two(['h:x', 'k']), ['run', '-s', 'g*']),
        ('single-sub-with-foreign-sub-dep', two([], adep=['h:x', 'h2:*']), ['run', '-s', 'g:a']),
        ('single-group-sub-with-foreign-sub-dep', two(['h:y'], adep=['h:x', 'k']), ['run', '-s', 'g']),
        ('single-default_tasks', two(['h:x'], default=['g']), ['run', '-s']),
        ('single-all-tasks', two(['h:x', 'h2:*']), ['-s']),
        ('single-foreign-sub-by-target-then-group', two(['h:x'], hx_target='out/hx.txt'), ['run', '-s', 'out/hx.txt', 'g']),
        ('single-other-group-untouched', two(['h:x']), ['run', '-s', 'k']),
    ]


# ---------------------------------------------------------------------------------------------
# D1: what the runner is started with
def spec_tasks(spec):
    """the task list as the loader builds it (dicts in the format of c12.gen_a / c12.build_tasks)"""
    out = []
    for nm in spec['order']:
        t = spec['defs'][nm]
        out.append(dict(name=nm, task_dep=list(t['task_dep']), post_dep=list(t.get('subs', [])), setup=list(t['setup']), calc_dep=[],
                        file_dep=list(t['file_dep']), targets=list(t['targets']), has_subtask=(t['kind'] == 'group'),
                        subtask_of=(nm.split(':', 1)[0] if t['kind'] == 'sub' else None), loader=None, pos_arg=None, params=[]))
    return out


def expected_d1(tasks, argv, default):
    """from the declared task list and the command line alone"""
    rd = c12_cli.cli_reading(argv)
    byn = {t['name']: t for t in tasks}
    order = [t['name'] for t in tasks]
    producers = {f: t['name'] for t in tasks for f in t['targets']}
    subs = {t['name']: [s['name'] for s in tasks if s['subtask_of'] == t['name']] for t in tasks if t['has_subtask']}
    names = rd['names'] or default
    resolved = []
    if names is None:
        resolved = list(order)
    for a in names or []:
        if '*' in a:
            resolved += fnmatch.filter(order, a)
        elif a in byn:
            resolved.append(a)
        elif a in producers:
            resolved.append(producers[a])
        else:
            return dict(rd=rd, unknown=a)

    def declared(t):
        out = set(t['post_dep'])
        for x in t['task_dep']:
            out |= set(fnmatch.filter(order, x)) if '*' in x else {x}
        return out | {producers[f] for f in t['file_dep'] if f in producers}
    cleared = set()
    if rd['single']:
        for s in resolved:
            cleared |= {s} | set(subs.get(s, []))
    want = {}
    for t in tasks:
        if rd['single'] and t['name'] in resolved and t['has_subtask']:
            want[t['name']] = set(subs[t['name']])
        elif t['name'] in cleared:
            want[t['name']] = set()
        else:
            want[t['name']] = declared(t)
    return dict(rd=rd, resolved=resolved, want=want, subs=subs, declared={t['name']: declared(t) for t in tasks})


def shape_d(tasks, argv, default):
    exp = expected_d1(tasks, argv, default)
    if 'unknown' in exp or not exp['rd']['single']:
        return 'c12:group-closure'
    sel_groups = [s for s in exp['resolved'] if s in exp['subs']]
    if not sel_groups:
        return 'c12:single-no-group'
    for g in sel_groups:
        for n in [g] + exp['subs'][g]:
            if exp['declared'][n] - set(exp['subs'][g]) - {g}:
                return 'c12:single-group-cross-border-dep'
    return 'c12:single-group'


def oracle_d1(tasks, argv, default, raw):
    """-> sentence or None"""
    exp = expected_d1(tasks, argv, default)
    cmdline = '`doit %s`%s' % (' '.join(argv), '' if exp['rd']['names'] or default is None else ' with default_tasks %r' % (default,))
    if 'unknown' in exp:
        if raw['rc'] != 3 or raw['started']:
            return '%s: %r is no task, no declared target and no pattern: expected exit code 3 before anything runs; got exit code %s, ' \
                   'runner started %s time(s)' % (cmdline, exp['unknown'], raw['rc'], raw['started'])
        return None
    if raw['rc'] != 0 or raw['started'] != 1:
        return '%s: a valid selection (%r); got exit code %s, runs started %s, %s' % (cmdline, exp['resolved'], raw['rc'], raw['started'],
                                                                                      raw.get('exc') or raw['stderr'][-160:])
    if raw['selected'] != exp['resolved']:
        return '%s: the selection stands for %r (in this order), the runner was started with %r' % (cmdline, exp['resolved'], raw['selected'])
    sel_groups = [n for n in exp['resolved'] if n in exp['subs']] if exp['rd']['single'] else []
    first = sel_groups + [s for g in sel_groups for s in exp['subs'][g]] + list(exp['resolved'])      # the named tasks first
    for n in sorted(exp['want'], key=lambda n: first.index(n) if n in first else len(first)):
        want = exp['want'][n]
        got = raw['task_dep'].get(n)
        if got is None or set(got) != want:
            if exp['rd']['single'] and n in exp['subs'] and n in exp['resolved']:
                why = 'the selected group %r must depend on exactly the sub-tasks declared in it %s' % (n, sorted(want))
            elif exp['rd']['single'] and not want:
                why = 'the task %r is selected (or a sub-task of a selected group): no task dependency may be left' % n
            else:
                why = 'the task %r is neither selected nor a sub-task of a selected group: it keeps its declared task dependencies %s' % (n, sorted(want))
            return '%s: %s; the runner is started with task_dep[%r] = %r (unexpected %s, missing %s)' % (
                cmdline, why, n, got, sorted(set(got or []) - want), sorted(want - set(got or [])))
    return None


def part_d1(ctx, out, c12):
    rng = ctx.rng
    cases = []
    d = ctx.subdir('d1')

    def inputs():
        for i, (label, spec, argv) in enumerate(directed_d(d, c12)):
            yield 8000000 + i, spec, argv, label
        for ci in range(ctx.n(150, 2500)):
            spec, argv, names, single = gen_d(rng, d, c12, out)
            yield 7000000 + ci, spec, argv, None
    for ci, spec, argv, label in inputs():
        tasks = spec_tasks(spec)
        case = dict(tasks=tasks, argv=list(argv), sel=list(argv), sel_none=False, default=spec['default'], single=False, auto=False, defect='none')
        I = c12.Intern()
        try:
            task_list = c12.build_tasks(case)
        except Exception:
            out.count('D1:unbuildable')
            continue
        sfx = 'd%d' % ci
        defs = c12.model_defs(case, task_list, I, sfx)
        n_before = len(I.strs)
        defs += '\n' + c12_cli.cli_defs(I, sfx, c12)
        assert len(I.strs) == n_before
        obs, raw = c12_cli.run_c1(ctx, case, I, ci, c12)
        shape = shape_d(tasks, argv, spec['default'])
        out.count('D1:' + shape[4:])
        out.count('D1:' + {0: 'run-started', 3: 'exit3'}.get(obs[0], 'other'))
        if label:
            out.count('D1:directed')
        bad = oracle_d1(tasks, argv, spec['default'], raw)
        if bad:
            out.violations.append(dict(what=bad, shape=shape, case=dict(part='D1', tasks=tasks, argv=list(argv), default=spec['default'],
                                                                        observed=dict(rc=raw['rc'], runs_started=raw['started'], selected=raw['selected'],
                                                                                      task_dep=raw['task_dep'], stderr=raw['stderr'][-200:]))))
        orac = 'hs%s mt%s bn%s rm%s rn%s ir%s io%s iv%s irn%s rf%s' % ((sfx,) * 10)
        dflt = 'None' if spec['default'] is None else '(Some %s)' % c12.nl(I(s) for s in spec['default'])
        model = 'enc_cmd (doit_main %s %s %s tb%s)' % (orac, c12.nl(I(s) for s in argv), dflt, sfx)
        cases.append(dict(defs=defs, model=model, expected=obs, desc=('D1', ci), case=dict(tasks=tasks, argv=list(argv), default=spec['default'])))
        if shape in ('c12:single-group-cross-border-dep', 'c12:single-group') or label:
            out.nontrivial.add(('D1', ci, tuple(obs)))
        if ci == 8000002:
            out.samples.append(dict(part='D1', tasks=[(t['name'], t['task_dep'] + t['post_dep']) for t in tasks], argv=argv,
                                    selected=raw['selected'], task_dep_the_runner_gets=raw['task_dep']))
    return cases


# ---------------------------------------------------------------------------------------------
# D2 / D3: complete real runs
def check_d(ctx, out, c12, spec, argv, ci, kind, runner=None, label=None):
    rd = c12_cli.cli_reading(argv)
    shape = shape_d(spec_tasks(spec), argv, spec['default'])
    out.count('%s:%s' % (kind, shape[4:]))
    c12.check_b(ctx, out, spec, list(rd['names']), rd['single'], ci, label=label, auto=False,
                cli=dict(argv=list(argv), shape=shape, runner=runner, kind=kind))


def part_d23(ctx, out, c12):
    rng = ctx.rng
    d = ctx.subdir('d2')
    for i, (label, spec, argv) in enumerate(directed_d(d, c12)):
        check_d(ctx, out, c12, spec, argv, 9000000 + i, 'D2', label=label)
    for ci in range(ctx.n(110, 1500)):
        spec, argv, names, single = gen_d(rng, d, c12, out)
        check_d(ctx, out, c12, spec, argv, 9100000 + ci, 'D2')
    d3 = ctx.subdir('d3')
    pick = [x for x in directed_d(d3, c12) if x[0] in ('single-group-dep-on-foreign-sub', 'single-group-dep-on-foreign-wild',
                                                       'single-group-dep-on-task-and-group', 'closure-group-dep-on-foreign-sub')]
    for i, (label, spec, argv) in enumerate(pick):
        check_d(ctx, out, c12, spec, argv, 9200000 + i, 'D3', runner=c12_cli.make_subprocess_runner(c12, 'dodo.py' if i % 2 else 'tasks_file.py'), label=label)
    for ci in range(ctx.n(4, 80)):
        spec, argv, names, single = gen_d(rng, d3, c12, out)
        check_d(ctx, out, c12, spec, argv, 9300000 + ci, 'D3', runner=c12_cli.make_subprocess_runner(c12, rng.choice(['dodo.py', 'tasks_file.py'])))


RULE = ('D: task sets with several groups whose dependencies cross the group borders (group definition / sub-task -> plain task, other '
        'group, foreign sub-task by name, `h:*`, `*:x` over own and foreign sub-tasks, own sub-task again, file_dep on a foreign target, '
        'setup) x selections of groups / sub-tasks / patterns / targets / default_tasks / nothing x --single / -s / none; D1 runner '
        'stubbed: model doit_main + oracle on selected list and the task_dep of every task; D2 complete runs in-process, D3 through '
        '`python -m doit`; non-trivial = --single with a group selected (D1), closure of >= 3 tasks or a rejected command line (D2, D3)')


def replay_d1(ctx, payload, c12):
    case = payload['case']
    full = dict(tasks=case['tasks'], argv=case['argv'], default=case.get('default'), defect='none')
    obs, raw = c12_cli.run_c1(ctx, full, c12.Intern(), 0, c12)
    print('tasks    :', [(t['name'], t['task_dep'] + t.get('post_dep', []), t['file_dep'], t['targets']) for t in case['tasks']])
    print('argv     :', case['argv'], ' default_tasks =', case.get('default'))
    print('recorded :', payload.get('what'))
    print('now      : exit code %s, runner started %s time(s), selected %r, task_dep %r' % (raw['rc'], raw['started'], raw['selected'], raw['task_dep']))
    print('oracle   :', oracle_d1(case['tasks'], case['argv'], case.get('default'), raw) or 'ok')
    return 0
