"""C18 -- loading maps task-creators to a well-formed, validated task set.

Correspondence: namespaces of task-creator functions are built from a small input language
(values by type tag, task dicts, Task objects, nested generators, non-dicts, delayed creators),
loaded through the real `doit.loader.load_tasks` + `doit.control.TaskControl` (and, for a sample,
through `DoitMain(ModuleTaskLoader(ns)).run([...])` in-process) and the observable outcome is
compared with Model/Loader.v evaluated inside Coq.

Input language (mirrors Model/Loader.v):
  value   ('str', s) ('path', s) ('list', [v..]) ('tuple', [v..]) ('dict', [(k, v)..]) ('true',) ('false',)
          ('none',) ('int', n) ('float', n) ('fun', id) ('class', id) ('builtin', id) ('other', id)
  item    ('dict', [(key, value)..]) | ('task', name_value, [(attr, value)..]) | ('gen', [item..]) | ('none',) | ('other',)
  key     'name' | 'basename' | <attribute name> | ('unknown', n)
  creator dict(name=str, result=item, delayed=None | (executed|None, [creates..]))

Definition order (harness/c18_order.py): dodo modules written as source text (plain / decorated / wrapped with and without
functools.wraps / @create_after / @task_params / create_doit_tasks attributes / lambdas / partial objects / aliases / imported
creators), imported and loaded for real; the model gets, per object of the namespace, the facts _get_task_creators asks for and
the definition line the harness computed from the text it wrote (never from inspect).

Result values (harness/c18_values.py): the VALUE a creator gives -- every top-level Python type in its falsy and truthy form,
dicts without actions, None, empty generators -- returned or yielded (alone, after / before valid sub-tasks, from nested
generators), by static and by create_after creators, through generate_tasks, load_tasks, the commands in-process and the real
command line; oracle from the property text (`oracle_invalid` / `oracle_names` there), model Loader.v [pyres] / [classify].

Entry points (harness/c18_entry.py): the same namespace loaded through DoitMain(ModuleTaskLoader(dict | module)).run, doit.run,
doit.api.run_tasks, the DodoTaskLoader, LOADER plugins and the real command line x the command (a COMMAND plugin included) x how
the configuration is given; the oracle is the fault the case declares (a creator named like a core or plugin command, a result
that is no task definition, an inconsistent task set); model LoaderEntry.v [entry_load] / [entry_report].

Encoding compared (list of ints), see Loader.v `enc`:
  accepted   0, #tasks, then per task: name, has_subtask, subtask_of or -1, #task_dep, the task_deps
             (a string = its length followed by its character codes)
  rejected   1, 1 (InvalidTask) | 2 (InvalidDodoFile) | 3 (InvalidCommand)
  crashed    2, 1 TypeError | 2 IndexError | 3 KeyError | 4 AttributeError | 99 anything else
  CLI        [exit code, 1 if stderr contains 'Traceback' else 0]
"""
import io, itertools, os, sys, traceback
import common
from common import Outcome

ATTRS = ['actions', 'file_dep', 'task_dep', 'uptodate', 'calc_dep', 'targets', 'setup', 'clean', 'teardown', 'doc',
         'params', 'pos_arg', 'verbosity', 'io', 'getargs', 'title', 'watch', 'meta']
ACOQ = {'actions': 'AActions', 'file_dep': 'AFileDep', 'task_dep': 'ATaskDep', 'uptodate': 'AUptodate',
        'calc_dep': 'ACalcDep', 'targets': 'ATargets', 'setup': 'ASetup', 'clean': 'AClean', 'teardown': 'ATeardown',
        'doc': 'ADoc', 'params': 'AParams', 'pos_arg': 'APosArg', 'verbosity': 'AVerbosity', 'io': 'AIo',
        'getargs': 'AGetargs', 'title': 'ATitle', 'watch': 'AWatch', 'meta': 'AMeta'}
LISTLIKE = ['file_dep', 'task_dep', 'uptodate', 'calc_dep', 'targets', 'setup', 'clean', 'teardown']

PRE = r'''From Coq Require Import DecimalString.
From DoitV Require Import Base Loader.
Open Scope Z_scope.
Open Scope string_scope.
Definition dec (n : Z) : string := NilZero.string_of_uint (N.to_uint (Z.to_N n)).
(* str.format of the non-str values the generator uses as sub-task names *)
Definition fmt0 (v : val) : string :=
  match v with
  | VStr s => s | VNone => "None" | VTrue => "True" | VFalse => "False"
  | VInt n => dec n | VFloat n => dec n ++ ".0"
  | VTuple [] => "()" | VList [] => "[]" | VDict [] => "{}" | VPath s => s
  | VList [VStr "t"] => "['t']" | VTuple [VStr "t"] => "('t',)"
  | VDict [(VStr "k", VTuple [VStr "t"; VStr "v"])] => "{'k': ('t', 'v')}"
  | _ => "?"            (* objects whose format contains an address: the check rewrites it to ? *)
  end.
Definition L (cmds : list string) (allow : bool) (cs : list creator) : list Z := enc (load fmt0 fnmatch_star L2 cmds allow cs).
Definition LT (cmds : list string) (allow : bool) (cs : list creator) : list Z := enc (load_tasks fmt0 L2 cmds allow cs).
Definition cli (r : list Z) : list Z := match r with 0 :: _ => [0; 0] | 1 :: _ => [3; 0] | _ => [3; 1] end.
Definition C (name : string) (r : item) : creator := {| c_name := name; c_result := r; c_delayed := None |}.
Definition CD (name : string) (r : item) (e : option string) (cr : list string) : creator :=
  {| c_name := name; c_result := r; c_delayed := Some (e, cr) |}.
(* namespaces: _get_task_creators + the sort by definition line *)
Definition CI (l : Z) (r : item) (d : option (option string * list string)) : cinfo := {| ci_line := l; ci_result := r; ci_delayed := d |}.
Definition EN (n : string) (tp f : bool) (self : cinfo) (cr : option (option string * cinfo)) : entry :=
  {| e_name := n; e_is_task_params := tp; e_isfunc := f; e_self := self; e_create := cr |}.
Definition LN (cmds : list string) (allow : bool) (ns : list entry) : list Z := enc (load_namespace fmt0 fnmatch_star L2 cmds allow ns).
Definition LTN (cmds : list string) (allow : bool) (ns : list entry) : list Z := enc (load_tasks_namespace fmt0 L2 cmds allow ns).
'''


# ------------------------------------------------------------------ values
def S(s): return ('str', s)
def Ls(*xs): return ('list', list(xs))
def Tp(*xs): return ('tuple', list(xs))
def Dc(*kv): return ('dict', list(kv))
TRUE, FALSE, NONE = ('true',), ('false',), ('none',)
def I(n): return ('int', n)
def F(n): return ('float', n)
FUN, FUN2, CLASS, BUILTIN, OTHER = ('fun', 1), ('fun', 2), ('class', 1), ('builtin', 1), ('other', 1)

BUILTINS = [len, abs, ord, repr, hash, id, sorted, print]


class Objects:
    """identity-carrying objects of one realisation of a case"""
    def __init__(self):
        self.d = {}

    def get(self, kind, i):
        k = (kind, i)
        if k not in self.d:
            if kind == 'fun':
                self.d[k] = (lambda: None)
            elif kind == 'class':
                self.d[k] = type('K%d' % i, (), {})
            elif kind == 'builtin':
                self.d[k] = BUILTINS[i % len(BUILTINS)]
            else:
                self.d[k] = object()
        return self.d[k]


def to_py(v, objs):
    from pathlib import PurePath
    t = v[0]
    if t == 'str': return v[1]
    if t == 'path': return PurePath(v[1])
    if t == 'list': return [to_py(x, objs) for x in v[1]]
    if t == 'tuple': return tuple(to_py(x, objs) for x in v[1])
    if t == 'dict': return {to_py(k, objs): to_py(x, objs) for k, x in v[1]}
    if t == 'true': return True
    if t == 'false': return False
    if t == 'none': return None
    if t == 'int': return v[1]
    if t == 'float': return float(v[1])
    return objs.get(t, v[1])


def cstr(s):
    assert '"' not in s and all(32 <= ord(c) < 127 for c in s), s
    return '"%s"' % s


def to_coq(v):
    t = v[0]
    if t == 'str': return '(VStr %s)' % cstr(v[1])
    if t == 'path': return '(VPath %s)' % cstr(v[1])
    if t == 'list': return '(VList [%s])' % '; '.join(to_coq(x) for x in v[1])
    if t == 'tuple': return '(VTuple [%s])' % '; '.join(to_coq(x) for x in v[1])
    if t == 'dict': return '(VDict [%s])' % '; '.join('(%s, %s)' % (to_coq(k), to_coq(x)) for k, x in v[1])
    if t == 'true': return 'VTrue'
    if t == 'false': return 'VFalse'
    if t == 'none': return 'VNone'
    if t == 'int': return '(VInt %s)' % ('(%d)' % v[1] if v[1] < 0 else v[1])
    if t == 'float': return '(VFloat %s)' % ('(%d)' % v[1] if v[1] < 0 else v[1])
    return '(%s %d)' % ({'fun': 'VFun', 'class': 'VClass', 'builtin': 'VBuiltin', 'other': 'VOther'}[t], v[1])


def key_py(k):
    return ('zz%d' % k[1]) if isinstance(k, tuple) else k


def key_coq(k):
    if isinstance(k, tuple): return '(KUnknown %d)' % k[1]
    if k == 'name': return 'KName'
    if k == 'basename': return 'KBasename'
    return '(KAttr %s)' % ACOQ[k]


def item_coq(it):
    t = it[0]
    if t == 'dict': return '(IDict [%s])' % '; '.join('(%s, %s)' % (key_coq(k), to_coq(v)) for k, v in it[1])
    if t == 'task': return '(ITaskObj %s [%s])' % (to_coq(it[1]), '; '.join('(%s, %s)' % (ACOQ[a], to_coq(v)) for a, v in it[2]))
    if t == 'gen': return '(IGen [%s])' % '; '.join(item_coq(x) for x in it[1])
    if t == 'none': return 'INone'
    return 'IOther'


def realize(it, objs):
    """what the creator returns / the generator yields for this item (evaluated at that moment)"""
    from doit.task import Task
    t = it[0]
    if t == 'dict':
        return {key_py(k): to_py(v, objs) for k, v in it[1]}
    if t == 'task':
        kw = {a: to_py(v, objs) for a, v in it[2]}
        kw.setdefault('actions', None)
        return Task(to_py(it[1], objs), **kw)
    if t == 'gen':
        def gen():
            for sub in it[1]:
                yield realize(sub, objs)
        return gen()
    if t == 'none':
        return None
    return 42


def creators_coq(cs):
    out = []
    for c in cs:
        if c.get('delayed') is None:
            out.append('C %s %s' % (cstr(c['name']), item_coq(c['result'])))
        else:
            e, cr = c['delayed']
            out.append('CD %s %s %s [%s]' % (cstr(c['name']), item_coq(c['result']),
                                            'None' if e is None else '(Some %s)' % cstr(e), '; '.join(cstr(x) for x in cr)))
    return '[' + '; '.join(out) + ']'


def namespace(cs):
    from doit.loader import create_after
    objs = Objects()
    ns = {}
    for c in cs:
        def creator(c=c):
            return realize(c['result'], objs)
        if c.get('delayed') is not None:
            e, cr = c['delayed']
            creator = create_after(executed=e, creates=list(cr))(creator)
        assert 'task_' + c['name'] not in ns
        ns['task_' + c['name']] = creator
    ns['__objs'] = objs
    return ns


# ------------------------------------------------------------------ observing the implementation
def enc_str(s):
    return [len(s)] + [ord(c) for c in s]


def enc_tasks(tasks, objs):
    def canon(s):
        # never compare addresses: the format of an identity object inside a task name becomes "?"
        for o in objs.d.values():
            s = s.replace(format(o), '?')
        return s
    out = [0, len(tasks)]
    for t in tasks:
        out += enc_str(canon(t.name)) + [1 if t.has_subtask else 0]
        out += enc_str(canon(t.subtask_of)) if isinstance(t.subtask_of, str) else [-1 if t.subtask_of is None else -8]
        out.append(len(t.task_dep))
        for d in t.task_dep:
            out += enc_str(canon(d)) if isinstance(d, str) else [-9]
    return out


def crash_site(tb):
    """innermost doit frame of a traceback: the stable id of where an unexpected exception came from"""
    site = '?'
    for fr in traceback.extract_tb(tb):
        if os.sep + 'doit' + os.sep in fr.filename:
            site = '%s:%s' % (os.path.basename(fr.filename)[:-3], fr.name)
    return site


def observe(case, control=True, ns=None):
    """-> (encoding, tasks or None, crash-site or None); ns: an already built namespace (cases of source text)"""
    from doit.loader import load_tasks
    from doit.control import TaskControl
    from doit.exceptions import InvalidTask, InvalidDodoFile, InvalidCommand
    try:
        if ns is None:
            ns = namespace(case['creators'])
        tasks = load_tasks(ns, case['cmds'], allow_delayed=case['allow'])
        if control:
            TaskControl(tasks)
        return enc_tasks(tasks, ns.get('__objs') or Objects()), list(tasks), None
    except InvalidTask:
        return [1, 1], None, None
    except InvalidDodoFile:
        return [1, 2], None, None
    except InvalidCommand:
        return [1, 3], None, None
    except Exception as e:  # noqa
        code = {TypeError: 1, IndexError: 2, KeyError: 3, AttributeError: 4}.get(type(e), 99)
        return [2, code], None, '%s:%s' % (type(e).__name__, crash_site(e.__traceback__))


def observe_cli(ctx, case, argv):
    from doit.doit_cmd import DoitMain
    from doit.cmd_base import ModuleTaskLoader
    d = ctx.subdir('cli')
    real = (sys.stdout, sys.stderr)
    cwd = os.getcwd()
    out, err = io.StringIO(), io.StringIO()
    try:
        os.chdir(d)
        sys.stdout, sys.stderr = out, err
        try:
            rc = DoitMain(ModuleTaskLoader(namespace(case['creators']))).run(argv + ['--db-file', os.path.join(d, 'db')])
        except BaseException as e:  # noqa
            rc = 98
    finally:
        sys.stdout, sys.stderr = real
        os.chdir(cwd)
    return rc, err.getvalue()


_CMDS = None
def cmd_names():
    global _CMDS
    if _CMDS is None:
        from doit.doit_cmd import DoitMain
        _CMDS = sorted(DoitMain().get_cmds().keys())
    return _CMDS


# ------------------------------------------------------------------ independent oracles
# documented types (doc/tasks.rst, Task.valid_attr): what a value of this attribute may be
def documented_ok(attr, v):
    t = v[0]
    lt = t in ('list', 'tuple')
    if attr == 'name': return t == 'str'
    if attr == 'basename': return t in ('str', 'none')       # None = not given (dict.pop default)
    if attr in ('file_dep', 'task_dep', 'uptodate', 'calc_dep', 'targets', 'setup', 'teardown', 'params', 'watch'): return lt
    if attr == 'actions': return lt or t == 'none'
    if attr == 'clean': return lt or t == 'true'
    if attr in ('doc', 'pos_arg'): return t in ('str', 'none')
    if attr == 'verbosity': return t == 'none' or (t == 'int' and v[1] in (0, 1, 2))
    if attr in ('io', 'meta'): return t in ('dict', 'none')
    if attr == 'getargs': return t in ('dict', 'none')     # None is the documented default
    if attr == 'title': return t in ('fun', 'class', 'builtin', 'none')
    raise KeyError(attr)


def wellformed_violation(tasks):
    """property oracle on an accepted task list; returns a sentence or None"""
    names = [t.name for t in tasks]
    if len(set(names)) != len(names):
        return 'names-not-unique', 'task names not unique: %s' % names
    by = {t.name: t for t in tasks}
    for t in tasks:
        if t.subtask_of is not None:
            g = by.get(t.subtask_of)
            if g is None:
                return 'group-missing', 'sub-task %s: group %r is not a task' % (t.name, t.subtask_of)
            if not t.name.startswith(g.name + ':'):
                return 'subtask-name', 'sub-task %s is not named %s:<name>' % (t.name, g.name)
            if not g.has_subtask:
                return 'group-replaced', 'sub-task %s: task %s is not a group task (has_subtask false)' % (t.name, g.name)
            if t.name not in g.task_dep:
                return 'group-lost-subtask', 'group task %s does not depend on its sub-task %s' % (g.name, t.name)
    for g in tasks:
        subs = [t.name for t in tasks if t.subtask_of == g.name]
        got = [d for d in g.task_dep if d in subs]
        seen = []
        for d in got:
            if d not in seen:
                seen.append(d)
        if seen != subs:
            return 'group-order', 'group task %s lists its sub-tasks as %s, yield order is %s' % (g.name, seen, subs)
    for t in tasks:
        for d in list(t.task_dep) + list(t.setup_tasks) + list(t.calc_dep):
            if d not in by:
                return 'dangling', 'task %s refers to %r which is not a task' % (t.name, d)
    return None


# ------------------------------------------------------------------ generators of cases
TOP_TAGS = [
    ('str', S('t')), ('str-empty', S('')), ('path', ('path', 't')),
    ('list-empty', Ls()), ('list', Ls(S('t'))), ('tuple-empty', Tp()), ('tuple', Tp(S('t'))),
    ('dict-empty', Dc()), ('dict', Dc((S('k'), Tp(S('t'), S('v'))))),
    ('true', TRUE), ('false', FALSE), ('none', NONE), ('int0', I(0)), ('int1', I(1)), ('int2', I(2)), ('int5', I(5)),
    ('float0', F(0)), ('float1', F(1)), ('fun', FUN), ('class', CLASS), ('builtin', BUILTIN), ('other', OTHER),
]
PAIR_TAGS = ['str', 'list-empty', 'list', 'tuple', 'dict', 'true', 'none', 'int1', 'fun']
ELEM_TAGS = [
    ('str', S('t')), ('str-dangling', S('nope')), ('str-wild', S('t*')), ('str-star', S('*')), ('str-empty', S('')),
    ('path', ('path', 't')), ('list-empty', Ls()), ('list', Ls(S('t'))), ('list-star', Ls(S('*'))),
    ('tuple-empty', Tp()), ('tuple', Tp(S('t'))), ('tuple-star', Tp(S('*'))), ('tuple-fun', Tp(FUN)),
    ('tuple-fun-list', Tp(FUN, Ls())), ('tuple-fun-str', Tp(FUN, S('ab'))), ('tuple-fun-int', Tp(FUN, I(5))),
    ('tuple-fun-none-dict', Tp(FUN, NONE, Dc())), ('tuple-fun-list-int', Tp(FUN, Ls(), I(5))),
    ('tuple-fun-none-none', Tp(FUN, NONE, NONE)), ('tuple-int', Tp(I(5))), ('tuple-class', Tp(CLASS)),
    ('tuple-builtin', Tp(BUILTIN)), ('tuple4', Tp(FUN, Ls(), Dc(), I(1))), ('tuple-unhashable', Tp(Ls())),
    ('dict-empty', Dc()), ('dict-star', Dc((S('*'), I(1)))), ('true', TRUE), ('false', FALSE), ('none', NONE),
    ('int', I(5)), ('float', F(1)), ('fun', FUN), ('class', CLASS), ('builtin', BUILTIN), ('other', OTHER),
]
GETARGS_VALUES = [
    ('str', S('ab')), ('list2', Ls(S('t'), S('v'))), ('tuple2', Tp(S('t'), S('v'))), ('tuple1', Tp(S('t'))),
    ('tuple3', Tp(S('t'), S('v'), S('w'))), ('tuple2-dangling', Tp(S('nope'), S('v'))), ('tuple2-int', Tp(I(5), S('v'))),
    ('tuple2-list', Tp(Ls(I(1)), S('v'))), ('tuple2-none', Tp(NONE, S('v'))), ('tuple-empty', Tp()),
    ('dict2-01', Dc((I(0), S('t')), (I(1), S('v')))), ('dict2-str', Dc((S('x'), S('t')), (S('y'), S('v')))),
    ('dict2-false', Dc((FALSE, S('t')), (S('y'), S('v')))), ('dict1', Dc((I(0), S('t')))),
    ('int', I(5)), ('none', NONE), ('true', TRUE), ('path', ('path', 'ab')), ('fun', FUN), ('other', OTHER), ('float', F(2)),
]
VALID = {'actions': NONE, 'file_dep': Ls(S('f')), 'task_dep': Ls(S('t')), 'uptodate': Ls(TRUE), 'calc_dep': Ls(S('t')),
         'targets': Ls(S('o')), 'setup': Ls(S('t')), 'clean': TRUE, 'teardown': Ls(S('echo')), 'doc': S('text'),
         'params': Ls(), 'pos_arg': S('p'), 'verbosity': I(2), 'io': Dc((S('capture'), FALSE)),
         'getargs': Dc((S('k'), Tp(S('t'), S('v')))), 'title': FUN, 'watch': Ls(S('.')), 'meta': Dc((S('m'), I(1)))}

HELPER = dict(name='t', result=('dict', [('actions', NONE)]), delayed=None)     # so that references to 't' exist
CONTEXTS = ['return', 'yield', 'subtask', 'taskobj']


def in_context(ctxname, pairs):
    """creators for one task dict given as [(key, value)] in one of the four contexts"""
    pairs = list(pairs)
    keys = [k for k, _ in pairs]
    if ctxname == 'taskobj':
        nm = dict(pairs).get('name', S('a'))
        attrs = [(k, v) for k, v in pairs if k in ATTRS]
        return [HELPER, dict(name='a', result=('task', nm, attrs), delayed=None)]
    if 'actions' not in keys:
        pairs.append(('actions', NONE))
    if ctxname == 'return':
        return [HELPER, dict(name='a', result=('dict', [p for p in pairs if p[0] != 'name']), delayed=None)]
    if ctxname == 'yield':
        if 'basename' not in keys:
            pairs.append(('basename', S('b')))
        return [HELPER, dict(name='a', result=('gen', [('dict', [p for p in pairs if p[0] != 'name'])]), delayed=None)]
    if 'name' not in keys:
        pairs.append(('name', S('x')))
    return [HELPER, dict(name='a', result=('gen', [('dict', pairs)]), delayed=None)]


def mk(kind, label, creators, rule=None, allow=False, cmds=None):
    return dict(kind=kind, label=label, creators=creators, allow=allow, cmds=cmd_names() if cmds is None else cmds, rule=rule)


def gen_single_fault():
    cases = []
    for cx in CONTEXTS:
        for attr in ['name', 'basename'] + ATTRS:
            if attr == 'basename' and cx == 'taskobj':
                continue
            if attr == 'name' and cx in ('return', 'yield'):
                continue
            for tag, v in TOP_TAGS:
                rule = None
                if not documented_ok(attr, v) and not (attr == 'name' and cx == 'subtask' and v == NONE):
                    rule = 'wrong-type:%s' % attr
                cases.append(mk('single', (cx, attr, tag), in_context(cx, [(attr, v)]), rule))
    return cases


def gen_elements():
    cases = []
    for cx in ('return', 'subtask'):
        for attr in LISTLIKE:
            for tag, e in ELEM_TAGS:
                for cont in ('list', 'tuple'):
                    v = (cont, [S('t'), e] if attr not in ('targets', 'file_dep') else [S('q'), e])
                    rule = None
                    if attr in ('task_dep', 'setup', 'calc_dep') and tag == 'str-dangling':
                        rule = 'dangling:%s' % attr
                    cases.append(mk('element', (cx, attr, cont, tag), in_context(cx, [(attr, v)]), rule))
        for tag, gv in GETARGS_VALUES:
            for si, setup in enumerate((None, Ls(S('t')), Ls(Ls(I(1))))):
                for ei, extra in enumerate((None, ('uptodate', Tp(TRUE)), ('uptodate', Ls(TRUE)), ('targets', Ls(I(5))))):
                    pairs = [('getargs', Dc((S('k'), gv)))]
                    if setup:
                        pairs.append(('setup', setup))
                    if extra:
                        pairs.append(extra)
                    rule = 'dangling:getargs' if tag == 'tuple2-dangling' and extra is None else None
                    cases.append(mk('getargs', (cx, tag, ['no-setup', 'setup-t', 'setup-unhashable'][si],
                                                ['', 'uptodate-tuple', 'uptodate-list', 'targets-int'][ei]), in_context(cx, pairs), rule))
    return cases


def gen_rules():
    """the listed bad inputs, each in several positions"""
    A = ('actions', NONE)
    cases = []
    def add(label, creators, rule, **kw):
        cases.append(mk('rule', label, creators, rule, **kw))
    for cx in CONTEXTS[:3]:
        add(('unknown-field', cx), in_context(cx, [(('unknown', 1), I(1))]), 'unknown-field')
        add(('unknown-field-nonstr', cx), in_context(cx, [(('unknown', 2), NONE), ('doc', S('d'))]), 'unknown-field')
    add(('missing-actions', 'return'), [dict(name='a', result=('dict', [('doc', S('d'))]), delayed=None)], 'missing-actions')
    add(('missing-actions', 'yield'), [dict(name='a', result=('gen', [('dict', [('basename', S('b'))])]), delayed=None)], 'missing-actions')
    add(('missing-actions', 'subtask'), [dict(name='a', result=('gen', [('dict', [('name', S('x'))])]), delayed=None)], 'missing-actions')
    add(('missing-name', 'yield'), [dict(name='a', result=('gen', [('dict', [A])]), delayed=None)], 'missing-name')
    add(('missing-name', 'nested'), [dict(name='a', result=('gen', [('gen', [('gen', [('dict', [A])])])]), delayed=None)], 'missing-name')
    add(('name-in-return',), [dict(name='a', result=('dict', [A, ('name', S('x'))]), delayed=None)], 'name-in-return')
    for bad in (('none',), ('other',)):
        add(('yield-nondict', bad[0]), [dict(name='a', result=('gen', [('dict', [A, ('name', S('x'))]), bad]), delayed=None)], 'yield-nondict')
    add(('return-nondict',), [dict(name='a', result=('other',), delayed=None)], 'return-nondict')
    # duplicate names
    P = lambda b, *more: ('dict', [A, ('basename', S(b))] + list(more))
    Sub = lambda n, *more: ('dict', [A, ('name', S(n))] + list(more))
    add(('dup', 'two-creators'), [dict(name='a', result=('dict', [A]), delayed=None),
                                  dict(name='b', result=('dict', [A, ('basename', S('a'))]), delayed=None)], 'dup-name')
    add(('dup', 'same-generator'), [dict(name='a', result=('gen', [P('x'), P('y'), P('x')]), delayed=None)], 'dup-name')
    add(('dup', 'nested-generators'), [dict(name='a', result=('gen', [P('x'), ('gen', [P('y'), ('gen', [P('x')])])]), delayed=None)], 'dup-name')
    add(('dup', 'subtask'), [dict(name='a', result=('gen', [Sub('x'), Sub('y'), Sub('x')]), delayed=None)], 'dup-name')
    add(('dup', 'subtask-vs-basename'), [dict(name='a', result=('gen', [P('a:x'), Sub('x')]), delayed=None)], 'dup-name')
    add(('dup', 'basename-vs-subtask'), [dict(name='a', result=('gen', [Sub('x'), P('a:x')]), delayed=None)], 'dup-name')
    add(('dup', 'plain-then-group'), [dict(name='a', result=('gen', [P('a'), Sub('x')]), delayed=None)], 'dup-name')
    add(('dup', 'group-then-plain'), [dict(name='a', result=('gen', [Sub('x'), P('a')]), delayed=None)], 'dup-name')
    add(('dup', 'group-two-creators'), [dict(name='a', result=('gen', [Sub('x')]), delayed=None),
                                        dict(name='b', result=('gen', [('dict', [A, ('basename', S('a')), ('name', S('y'))])]), delayed=None)], 'dup-name')
    add(('dup', 'task-objects'), [dict(name='a', result=('gen', [('task', S('x'), [('targets', Ls(S('1')))]),
                                                               ('task', S('x'), [('targets', Ls(S('2')))])]), delayed=None)], 'dup-name')
    add(('dup', 'dict-then-task-object'), [dict(name='a', result=('gen', [P('x'), ('task', S('x'), [])]), delayed=None)], 'dup-name')
    add(('dup', 'task-object-then-dict'), [dict(name='a', result=('gen', [('task', S('x'), []), P('x')]), delayed=None)], 'dup-name')
    add(('dup', 'plain-then-group-definition'), [dict(name='a', result=('gen', [P('x'), ('dict', [('basename', S('x')), ('name', NONE)])]), delayed=None)], 'dup-name')
    add(('dup', 'empty-generator-vs-task'), [dict(name='a', result=('gen', []), delayed=None),
                                             dict(name='b', result=('dict', [A, ('basename', S('a'))]), delayed=None)], 'dup-name')
    add(('dup', 'delayed-creates'), [dict(name='a', result=('dict', [A]), delayed=None),
                                     dict(name='b', result=('dict', [A]), delayed=('a', ['a']))], 'dup-name')
    add(('dup', 'two-group-definitions'), [dict(name='a', result=('gen', [('dict', [('name', NONE), ('setup', Ls(S('t')))]), Sub('x'),
                                                                             ('dict', [('name', NONE), ('doc', S('again'))])]), delayed=None), HELPER], 'dup-name')
    add(('dup', 'group-definition-of-a-subtask'), [dict(name='a', result=('gen', [Sub('x'), ('dict', [('basename', S('a:x')), ('name', NONE)])]), delayed=None)], 'dup-name')
    add(('group', 'subgroup'), [dict(name='a', result=('gen', [Sub('x'), ('dict', [A, ('basename', S('a:x')), ('name', S('y'))])]), delayed=None)], 'dup-name')
    # groups whose definition comes late / is replaced: accepted, but must stay well-formed
    add(('group', 'definition-first'), [dict(name='a', result=('gen', [('dict', [('name', NONE), ('doc', S('d'))]), Sub('x'), Sub('y')]), delayed=None)], None)
    add(('group', 'definition-after-subtasks'), [dict(name='a', result=('gen', [Sub('x'), ('dict', [('name', NONE), ('doc', S('d'))]), Sub('y')]), delayed=None)], None)
    add(('group', 'replaced-by-task-object'), [dict(name='a', result=('gen', [Sub('x'), ('task', S('a'), [])]), delayed=None)], None)
    # command names
    for c in ('list', 'run', 'help'):
        add(('cmd-clash', c), [HELPER, dict(name=c, result=('dict', [A]), delayed=None)], 'cmd-clash')
    add(('cmd-clash', 'basename'), [dict(name='a', result=('dict', [A, ('basename', S('list'))]), delayed=None)], None)
    add(('cmd-clash', 'own-list'), [dict(name='a', result=('dict', [A]), delayed=None)], 'cmd-clash', cmds=['a'])
    # duplicate targets
    add(('dup-target', 'two-tasks'), [dict(name='a', result=('dict', [A, ('targets', Ls(S('o')))]), delayed=None),
                                      dict(name='b', result=('dict', [A, ('targets', Ls(S('p'), S('o')))]), delayed=None)], 'dup-target')
    add(('dup-target', 'str-and-path'), [dict(name='a', result=('dict', [A, ('targets', Ls(S('o')))]), delayed=None),
                                         dict(name='b', result=('dict', [A, ('targets', Tp(('path', 'o')))]), delayed=None)], 'dup-target')
    add(('dup-target', 'subtasks'), [dict(name='a', result=('gen', [Sub('x', ('targets', Ls(S('o')))), Sub('y', ('targets', Ls(S('o'))))]), delayed=None)], 'dup-target')
    add(('dup-target', 'same-task'), [dict(name='a', result=('dict', [A, ('targets', Ls(S('o'), S('o')))]), delayed=None)], 'dup-target')
    # dangling references
    for kind, v in (('task_dep', Ls(S('nope'))), ('setup', Ls(S('nope'))), ('calc_dep', Ls(S('nope'))),
                    ('getargs', Dc((S('k'), Tp(S('nope'), S('v')))))):
        for cx in CONTEXTS:
            add(('dangling', kind, cx), in_context(cx, [(kind, v)]), 'dangling:' + kind)
        add(('dangling', kind, 'subtask-name-without-group'), in_context('return', [(kind, v if kind != 'getargs' else v)]), 'dangling:' + kind)
    add(('dangling', 'task_dep', 'to-subtask-of-other'), [dict(name='a', result=('gen', [Sub('x')]), delayed=None),
                                                          dict(name='b', result=('dict', [A, ('task_dep', Ls(S('a:y')))]), delayed=None)], 'dangling:task_dep')
    add(('dangling', 'delayed-executed'), [dict(name='a', result=('dict', [A]), delayed=('nope', []))], 'dangling:task_dep', allow=True)
    add(('ok', 'delayed-executed'), [HELPER, dict(name='a', result=('dict', [A]), delayed=('t', []))], None, allow=True)
    add(('ok', 'delayed-not-allowed'), [HELPER, dict(name='a', result=('dict', [A]), delayed=('nope', []))], None, allow=False)
    add(('ok', 'delayed-creates'), [HELPER, dict(name='a', result=('dict', [A]), delayed=('t', ['p', 'q']))], None)
    add(('ok', 'wild'), [HELPER, dict(name='ta', result=('gen', [Sub('x'), Sub('y')]), delayed=None),
                         dict(name='b', result=('dict', [A, ('task_dep', Ls(S('ta:*'), S('t'), S('zz*')))]), delayed=None)], None)
    add(('ok', 'implicit'), [dict(name='a', result=('dict', [A, ('targets', Ls(S('o')))]), delayed=None),
                             dict(name='b', result=('dict', [A, ('file_dep', Ls(S('o'), S('o'), S('z')))]), delayed=None),
                             dict(name='c', result=('dict', [A, ('file_dep', Ls(S('o'))), ('task_dep', Ls(S('a')))]), delayed=None)], None)
    add(('ok', 'eq-in-name'), [dict(name='a', result=('dict', [A, ('basename', S('x=y'))]), delayed=None)], 'eq-in-name')
    add(('ok', 'eq-in-subname'), [dict(name='a', result=('gen', [Sub('x=y')]), delayed=None)], 'eq-in-name')
    add(('ok', 'eq-in-creator'), [dict(name='a=b', result=('gen', []), delayed=None)], 'eq-in-name')
    add(('ok', 'empty-generators'), [dict(name='a', result=('gen', [('gen', []), ('gen', [('gen', [])])]), delayed=None),
                                     dict(name='b', result=('none',), delayed=None)], None)
    return cases


def gen_pairs(ctx):
    tags = [tv for tv in TOP_TAGS if tv[0] in PAIR_TAGS]
    cases = []
    keys = ['name', 'basename'] + ATTRS
    for i, a1 in enumerate(keys):
        for a2 in keys[i + 1:]:
            for t1, v1 in tags:
                for t2, v2 in tags:
                    cx = 'subtask' if 'name' in (a1, a2) else ctx.rng.choice(['return', 'yield', 'subtask'])
                    cases.append(mk('pair', (cx, a1, t1, a2, t2), in_context(cx, [(a1, v1), (a2, v2)])))
    return cases


NAMES = ['a', 'b', 'c', 't']
SUBN = ['x', 'y', 'z']


def rand_value(rng, attr, names):
    """a value for `attr`: mostly valid, sometimes a fault"""
    r = rng.random()
    if r < 0.08:
        return rng.choice(TOP_TAGS)[1]
    if attr in ('task_dep', 'setup', 'calc_dep'):
        pool = names + ['nope'] if rng.random() < 0.15 else names
        xs = [S(rng.choice(pool)) for _ in range(rng.randrange(0, 3))]
        if attr == 'task_dep' and rng.random() < 0.2:
            xs.append(S(rng.choice(['*', 'a*', 'a:*', 'zz*', '*:x'])))
        if rng.random() < 0.05:
            xs.append(rng.choice(ELEM_TAGS)[1])
        return (rng.choice(['list', 'tuple']), xs)
    if attr == 'targets':
        return ('list', [S(rng.choice(['o1', 'o2', 'o3', 'o4', 'o5', 'o6'])) for _ in range(rng.randrange(0, 3))])
    if attr == 'file_dep':
        # at most one file that may be another task's target: the order in which implicit task_deps
        # are appended follows the iteration order of a set of str, which the model does not have
        xs = [S(rng.choice(['o1', 'o2', 'o3']))] if rng.random() < 0.6 else []
        xs += [S(rng.choice(['s1', 's2'])) for _ in range(rng.randrange(0, 2))]
        rng.shuffle(xs)
        return ('list', xs)
    if attr == 'getargs':
        pool = names + ['nope'] if rng.random() < 0.15 else names
        kv = [(S('k%d' % i), Tp(S(rng.choice(pool)), S('v'))) for i in range(rng.randrange(0, 3))]
        if rng.random() < 0.06:
            kv.append((S('kk'), rng.choice(GETARGS_VALUES)[1]))
        return ('dict', kv)
    if attr == 'uptodate':
        xs = [rng.choice([TRUE, FALSE, NONE, FUN, S('cmd'), Tp(FUN, Ls(I(1))), Tp(FUN)]) for _ in range(rng.randrange(0, 3))]
        if rng.random() < 0.06:
            xs.append(rng.choice(ELEM_TAGS)[1])
        return (rng.choice(['list', 'list', 'tuple']), xs)
    if attr in ('clean', 'teardown'):
        if attr == 'clean' and rng.random() < 0.4:
            return TRUE
        xs = [rng.choice([S('cmd'), Ls(S('cmd')), FUN, Tp(FUN, Ls(I(1))), Tp(FUN, NONE, Dc())]) for _ in range(rng.randrange(0, 3))]
        if rng.random() < 0.08:
            xs.append(rng.choice(ELEM_TAGS)[1])
        return (rng.choice(['list', 'tuple']), xs)
    return VALID[attr]


def rand_dict(rng, names, mode):
    """mode: 'return' | 'yield'"""
    pairs = []
    if rng.random() < 0.93:
        pairs.append(('actions', NONE if rng.random() < 0.7 else Ls(S('cmd'))))
    for attr in rng.sample(ATTRS[1:], rng.choice([0, 0, 1, 1, 2, 3, 5])):
        pairs.append((attr, rand_value(rng, attr, names)))
    if rng.random() < 0.03:
        pairs.append((('unknown', rng.randrange(3)), I(1)))
    r = rng.random()
    if mode == 'return':
        if r < 0.25:
            pairs.append(('basename', S(rng.choice(NAMES + ['a:x']))))
        elif r < 0.28:
            pairs.append(('name', S('x')))
        elif r < 0.31:
            pairs.append(('basename', rng.choice(TOP_TAGS)[1]))
    else:
        if r < 0.45:                       # sub-task of the creator
            pairs.append(('name', S(rng.choice(SUBN))))
        elif r < 0.60:                     # sub-task of another basename
            pairs.append(('basename', S(rng.choice(NAMES))))
            pairs.append(('name', S(rng.choice(SUBN))))
        elif r < 0.78:                     # plain task
            pairs.append(('basename', S(rng.choice(NAMES + ['a:x', 'b:y']))))
        elif r < 0.84:                     # group definition
            pairs = [p for p in pairs if p[0] != 'actions' or rng.random() < 0.5]
            pairs.append(('name', NONE))
            if rng.random() < 0.5:
                pairs.append(('basename', S(rng.choice(NAMES + ['a:x']))))
        elif r < 0.88:                     # non-str name (formatted into the task name)
            pairs.append(('name', rng.choice([I(5), I(0), TRUE, FALSE, F(1), Tp(), Ls(), Dc()])))
        elif r < 0.93:                     # any basename
            pairs.append(('basename', rng.choice(TOP_TAGS)[1]))
            if rng.random() < 0.6:
                pairs.append(('name', S(rng.choice(SUBN))))
        elif r < 0.96:
            pass                           # neither name nor basename
        else:
            pairs.append(('name', rng.choice(TOP_TAGS)[1]))
    rng.shuffle(pairs)
    return ('dict', pairs)


def rand_items(rng, names, depth):
    items = []
    for _ in range(rng.choice([0, 1, 2, 2, 3, 4]) if depth else rng.choice([0, 1, 2, 3, 4, 5])):
        r = rng.random()
        if r < 0.18 and depth < 3:
            items.append(('gen', rand_items(rng, names, depth + 1)))
        elif r < 0.26:
            attrs = [(a, rand_value(rng, a, names)) for a in rng.sample(ATTRS[1:], rng.choice([0, 0, 1, 2]))]
            items.append(('task', S(rng.choice(NAMES + ['a:x', 'c:z'])) if rng.random() < 0.9 else rng.choice(TOP_TAGS)[1], attrs))
        elif r < 0.29:
            items.append(rng.choice([('none',), ('other',)]))
        else:
            items.append(rand_dict(rng, names, 'yield'))
    return items


def gen_random(ctx, n):
    rng = ctx.rng
    cases = []
    for ci in range(n):
        k = rng.choice([1, 1, 2, 2, 3])
        cnames = rng.sample(NAMES + (['list'] if rng.random() < 0.03 else []), k)
        refs = list(cnames) + [c + ':' + s for c in cnames[:1] for s in SUBN[:2]]
        cs = []
        for nm in cnames:
            r = rng.random()
            if r < 0.55:
                res = ('gen', rand_items(rng, refs, 0))
            elif r < 0.85:
                res = rand_dict(rng, refs, 'return')
            elif r < 0.90:
                res = ('task', S(rng.choice(NAMES)), [])
            elif r < 0.95:
                res = ('none',)
            else:
                res = ('other',)
            delayed = None
            if rng.random() < 0.08:
                delayed = (rng.choice([None, rng.choice(refs), 'nope']), rng.choice([[], [], ['p'], ['p', rng.choice(NAMES)]]))
            cs.append(dict(name=nm, result=res, delayed=delayed))
        cases.append(mk('random', ci, cs, None, allow=rng.random() < 0.3))
    return cases


# ------------------------------------------------------------------ run
def judge(out, case, obs, tasks, site):
    """independent oracles on the implementation's observed behaviour"""
    desc = dict(label=str(case['label']), creators=case['creators'], allow=case['allow'],
                cmds=case['cmds'] if case['cmds'] != cmd_names() else 'doit command names')
    if obs[0] == 2:
        out.violations.append(dict(what='loading raised %s instead of an invalid-task/invalid-dodo error (internal traceback)' % site,
                                   shape='crash:%s' % site, case=desc))
    if case.get('rule') and obs[0] == 0:
        rule = case['rule']
        shape = 'accepted:%s' % rule
        if rule.startswith('wrong-type:name'):
            shape = 'accepted:wrong-type:name-of-subtask-formatted'
        lab = case['label']
        if rule == 'wrong-type:getargs':
            shape = 'accepted:wrong-type:getargs-falsy'
        if rule == 'wrong-type:basename':
            shape = 'accepted:wrong-type:basename-falsy'
        if rule == 'dup-name':
            shape = 'accepted:dup-name:%s' % lab[1]
        out.violations.append(dict(what='bad input (%s) was accepted silently: %s' % (rule, lab), shape=shape, case=desc))
    if obs[0] == 0 and tasks is not None:
        w = wellformed_violation(tasks)
        if w:
            out.violations.append(dict(what='accepted task set is not well-formed: ' + w[1], shape='not-wellformed:' + w[0], case=desc))


# ------------------------------------------------------------------ definition order (dodo modules as source text)
def order_cases(ctx):
    import c18_order as O
    cases = [O.build(sp, 'd%d' % i) for i, sp in enumerate(O.directed_specs())]
    for i in range(ctx.n(500, 5000)):
        cases.append(O.build(O.rand_spec(ctx.rng, ('random', i)), 's%d_%d' % (ctx.seed, i)))
    return cases


def cli_list_definition(ctx, ns):
    """`doit list --all --sort definition -q` in-process -> (exit code, stderr, listed names)"""
    from doit.doit_cmd import DoitMain
    from doit.cmd_base import ModuleTaskLoader
    d = ctx.subdir('cli')
    real = (sys.stdout, sys.stderr)
    cwd = os.getcwd()
    out, err = io.StringIO(), io.StringIO()
    try:
        os.chdir(d)
        sys.stdout, sys.stderr = out, err
        try:
            rc = DoitMain(ModuleTaskLoader(ns)).run(['list', '--all', '--sort', 'definition', '-q', '--db-file', os.path.join(d, 'db')])
        except BaseException as e:  # noqa
            rc = 98
    finally:
        sys.stdout, sys.stderr = real
        os.chdir(cwd)
    return rc, err.getvalue(), out.getvalue().split()


def observe_order(ctx, case, d, cli=False):
    """import the generated module and load it -> dict(obs, obs_lt, names, tasks, site, cli)"""
    import c18_order as O
    arg = dict(cmds=cmd_names(), allow=case['allow'])
    r = dict(obs=[2, 98], obs_lt=[2, 98], names=None, tasks=None, site=None, cli=None)
    try:
        try:
            mod, ns = O.load_namespace(d, case)
        except BaseException as e:  # noqa
            r['site'] = 'import:%s:%s' % (type(e).__name__, e)
            return r
        r['obs'], r['tasks'], r['site'] = observe(arg, control=True, ns=ns)
        r['obs_lt'], tasks_lt, site_lt = observe(arg, control=False, ns=ns)
        r['site'] = r['site'] or site_lt
        if tasks_lt is not None:
            r['names'] = [t.name for t in tasks_lt]
        if cli:
            r['cli'] = cli_list_definition(ctx, ns)
        return r
    finally:
        O.forget(d, case)


def judge_order(out, case, r):
    import c18_order as O
    desc = O.public(case)
    if r['obs'][0] == 2 or r['obs_lt'][0] == 2:
        out.violations.append(dict(what='loading a generated dodo module raised %s instead of an invalid-task/invalid-dodo error' % r['site'],
                                   shape='crash:%s' % str(r['site']).split(' ')[0][:60], case=desc))
    if r['names'] is not None:
        w = O.order_violation(case, r['names'])
        if w:
            out.violations.append(dict(what='tasks are not loaded in definition order: ' + w, shape='definition-order', case=desc))
    if r['obs'][0] == 0 and r['tasks'] is not None:
        w = wellformed_violation(r['tasks'])
        if w:
            out.violations.append(dict(what='accepted task set is not well-formed: ' + w[1], shape='not-wellformed:' + w[0], case=desc))
    if r['cli'] is not None:
        rc, err, listed = r['cli']
        if r['names'] is not None and (rc != 0 or listed != r['names']):
            out.violations.append(dict(what='`doit list --all --sort definition -q` printed %s (exit %s), load_tasks gave %s' % (listed, rc, r['names']),
                                       shape='definition-order', case=desc))
        if r['obs_lt'][0] == 1 and not (rc == 3 and err.startswith('ERROR:') and 'Traceback' not in err):
            out.violations.append(dict(what='`doit list` on an invalid task set: exit %s, stderr %r' % (rc, err[:200]), shape='cli-list-invalid', case=desc))


def run_order(ctx, out, model_cases):
    """-> number of command line runs"""
    import c18_order as O
    d = ctx.subdir('order')
    cases = order_cases(ctx)
    cli_every = ctx.n(6, 12)
    n_cli = 0
    stats = dict(cases=len(cases), oracle_checked=0, creator_hidden_by_wrapper=0, creator_seen_through_wraps=0, equal_lines=0)
    for i, c in enumerate(cases):
        cli = (c['label'][0] == 'directed' or i % cli_every == 0) and not c['allow']
        r = observe_order(ctx, c, d, cli=cli)
        judge_order(out, c, r)
        # one evaluation per case: load_tasks + TaskControl, load_tasks alone and (when run) the exit code of `doit list`
        a = 'true' if c['allow'] else 'false'
        model = 'let ns := %s in\n LN cmds0 %s ns ++ (-7) :: LTN cmds0 %s ns' % (O.entries_coq(c), a, a)
        expected = r['obs'] + [-7] + r['obs_lt']
        if r['cli'] is not None:
            n_cli += 1
            rc, err, _ = r['cli']
            model += ' ++ (-7) :: cli (LTN cmds0 %s ns)' % a
            expected += [-7, rc, 1 if 'Traceback' in err else 0]
            out.count('cli-list:exit%d' % rc)
        model_cases.append(dict(model='(%s)%%list' % model, expected=expected, desc=('order', c['label'])))
        out.count('order:%s' % ['accepted', 'rejected', 'crashed'][r['obs'][0]])
        for f in c['forms']:
            out.count('order-form:%s' % f)
        out.nontrivial.add(('order', str(c['label'])))
        stats['oracle_checked'] += 1 if (r['names'] is not None and len(c['expected']) >= 2) else 0
        stats['creator_hidden_by_wrapper'] += 1 if c['hidden'] else 0
        stats['creator_seen_through_wraps'] += 1 if c['through_wraps'] else 0
        stats['equal_lines'] += 1 if c['n_keys'] < c['n_creators'] else 0
        c['_obs'] = r['obs']
    out.extra['definition_order'] = stats
    for c in cases[:1] + [c for c in cases if c['label'][0] == 'random'][:1]:
        out.samples.append(dict(label=str(c['label']), files=c['files'], expected_order=c['expected'], observed=c['_obs']))
    return n_cli



DELAYED_BAD = """
from doit import create_after
def task_pre():
    return {'actions': ['echo pre']}
def task_real():
    return {'actions': ['echo real']}
@create_after(executed='pre')
def task_late():
    BODY
"""


def part_delayed_invalid(ctx, out):
    """tasks created at RUN time by a create_after creator that reference a task name that does not exist (task_dep, setup,
    calc_dep, getargs): rejected with a diagnostic naming the reference, never an internal traceback (fix 8f57713)"""
    import subprocess, tempfile
    bodies = {
        'task_dep': "return {'actions': ['echo late'], 'task_dep': ['ghost']}",
        'setup': "return {'actions': ['echo late'], 'setup': ['ghost']}",
        'calc_dep': "return {'actions': ['echo late'], 'calc_dep': ['ghost']}",
        'getargs': "return {'actions': ['echo late'], 'getargs': {'v': ('ghost', 'x')}}",
        'sub-task_dep': "yield {'name': 'a', 'actions': ['echo a'], 'task_dep': ['real']}\n    yield {'name': 'b', 'actions': ['echo b'], 'task_dep': ['ghost']}",
        'ok': "return {'actions': ['echo late'], 'task_dep': ['real']}",
    }
    n = 0
    for kind, body in bodies.items():
        for par in ([], ['-n', '2', '-P', 'thread']):
            d = tempfile.mkdtemp(prefix='c18dl_', dir=ctx.tmp); n += 1
            src = DELAYED_BAD.replace('BODY', body)
            open(os.path.join(d, 'dodo.py'), 'w').write(src)
            try:
                p = subprocess.run([sys.executable, '-m', 'doit', 'run'] + par, cwd=d, env=common.impl_env(), capture_output=True, text=True, timeout=60)
                rc, txt = p.returncode, p.stdout + p.stderr
            except subprocess.TimeoutExpired:
                rc, txt = 98, 'timeout'
            out.count('delayed-invalid:%s:rc%s' % (kind, rc)); out.evaluations += 1
            out.nontrivial.add(('delayed-invalid', kind, tuple(par)))
            case = dict(part='delayed-invalid', dodo=src, args=par, exit=rc, output=txt[-800:])
            if kind == 'ok':
                if rc != 0:
                    out.violations.append(dict(what='a valid task created by a delayed creator was not run (exit %s)' % rc, shape='delayed-created-valid-rejected', case=case))
                continue
            if 'Traceback' in txt or rc in (0, 98) or 'ghost' not in txt:
                out.violations.append(dict(
                    what='a task created at run time by a create_after creator names a task that does not exist (%s): expected a diagnostic naming it and a non-zero exit code, got exit %s%s'
                         % (kind, rc, ' and an internal traceback' if 'Traceback' in txt else ''),
                    shape='delayed-created-dangling-dep', case=case))
    out.extra['delayed_invalid_runs'] = n

def run(ctx):
    out = Outcome()
    out.rule = ('single fault: every attribute (name, basename and the 18 of Task.valid_attr) x every type tag x {returned dict, yielded dict, '
                'sub-task, Task object}; element faults: every list attribute x every element tag x {list, tuple}, getargs values x setup x uptodate; '
                'the listed bad inputs (unknown field, missing actions/name, duplicate names in 15 positions, command names, duplicate targets, '
                'dangling task_dep/setup/calc_dep/getargs) ; all pairs (attribute, tag) over 9 tags in the thorough tier (a sample in quick); '
                'random namespaces of 1-3 creators with nested generators, Task objects, group definitions, delayed creators; '
                'definition order: dodo modules written as source text (every kind of decorator x where it is defined x both namespace orders, '
                'each creator form one by one, random mixes of 3-8 definitions) imported and loaded for real; '
                'result values: every top-level Python type in its falsy and truthy form, dicts without actions, None, empty generators x '
                '{returned, yielded alone / after / before valid sub-tasks, nested 1-3 deep} x {static, create_after(executed), create_after(), '
                'create_after(creates)} creators, through generate_tasks, load_tasks, the commands in-process and the real command line; '
                'entry points: {DoitMain(ModuleTaskLoader(dict | module)).run, doit.run, doit.api.run_tasks, DodoTaskLoader (-f), a NamespaceTaskLoader '
                'plugin, a TaskLoader2 plugin, python -m doit, python script.py with doit.run(globals()), python -m doit with a LOADER plugin} x '
                '{list, list --all, run, clean -n, info, forget, ignore, a COMMAND plugin} x configuration by {doit.cfg, extra_config} x namespaces '
                '{valid, names that look like commands, a creator named like each core command / like a plugin command (static, create_after), '
                'results that are no task definition, dangling task_dep / setup, duplicate targets}.  '
                'non-trivial = distinct case (kind, label); every case is a distinct input')
    groups = [gen_single_fault(), gen_elements(), gen_rules()]
    pairs = gen_pairs(ctx)
    if ctx.quick:
        pairs = ctx.rng.sample(pairs, 1500)
    groups.append(pairs)
    groups.append(gen_random(ctx, ctx.n(1200, 12000)))
    cases = [c for g in groups for c in g]

    model_cases = []
    for c in cases:
        obs, tasks, site = observe(c, control=True)
        judge(out, c, obs, tasks, site)
        out.count('%s:%s' % (c['kind'], ['accepted', 'rejected', 'crashed'][obs[0]]))
        out.nontrivial.add((c['kind'], str(c['label'])))
        cmds = '[' + '; '.join(cstr(x) for x in c['cmds']) + ']'
        args = '%s %s %s' % (cmds if c['cmds'] != cmd_names() else 'cmds0', 'true' if c['allow'] else 'false', creators_coq(c['creators']))
        model_cases.append(dict(model='L ' + args, expected=obs, desc=(c['kind'], c['label'])))
        c['_args'] = args
        c['_obs'] = obs
    # load_tasks alone + the command line (`list` never builds a TaskControl; `clean -n` does)
    sample = [c for c in cases if c['kind'] in ('rule',)] + ctx.rng.sample(cases, ctx.n(250, 1500))
    n_cli = 0
    for c in sample:
        obs_lt, _, _ = observe(c, control=False)
        model_cases.append(dict(model='LT ' + c['_args'], expected=obs_lt, desc=('load_tasks', c['kind'], c['label'])))
        if c['cmds'] != cmd_names() or c['allow']:
            continue
        rc, err = observe_cli(ctx, c, ['list'])
        n_cli += 1
        got = [rc, 1 if 'Traceback' in err else 0]
        model_cases.append(dict(model='cli (LT %s)' % c['_args'], expected=got, desc=('cli-list', c['kind'], c['label'])))
        out.count('cli-list:exit%d' % rc)
        if obs_lt[0] == 1 and not (rc == 3 and err.startswith('ERROR:') and 'Traceback' not in err):
            out.violations.append(dict(what='`doit list` on an invalid task set: exit %s, stderr %r' % (rc, err[:200]), shape='cli-list-invalid',
                                       case=dict(label=str(c['label']), creators=c['creators'])))
        if c['_obs'][0] != 0 and obs_lt[0] == 0:
            # rejected only by TaskControl: `clean --dry-run` builds one
            rc, err = observe_cli(ctx, c, ['clean', '--dry-run'])
            n_cli += 1
            got = [rc, 1 if 'Traceback' in err else 0]
            model_cases.append(dict(model='cli (L %s)' % c['_args'], expected=got, desc=('cli-clean', c['kind'], c['label'])))
            out.count('cli-clean:exit%d' % rc)
            if c['_obs'][0] == 1 and not (rc == 3 and err.startswith('ERROR:') and 'Traceback' not in err):
                out.violations.append(dict(what='`doit clean -n` on an invalid task set: exit %s, stderr %r' % (rc, err[:200]), shape='cli-clean-invalid',
                                           case=dict(label=str(c['label']), creators=c['creators'])))
    n_cli += run_order(ctx, out, model_cases)
    out.extra['cli_runs'] = n_cli
    # most severe first (the check prints the first few distinct shapes): crashes on documented types, groups that
    # lose sub-tasks, duplicates accepted, other crashes, wrong types accepted
    def severity(v):
        sh = v['shape']
        if sh == 'crash:AttributeError:task:__init__': return 0
        if sh.startswith('not-wellformed'): return 1
        if sh.startswith('accepted:dup-name'): return 2
        if sh.startswith('crash'): return 3
        return 4
    out.violations.sort(key=severity)
    part_delayed_invalid(ctx, out)
    # the VALUE a creator gives (falsy / truthy non-tasks, dicts without actions, None, empty generators) in every position,
    # for static and create_after creators, through generate_tasks / load_tasks / the commands (harness/c18_values.py)
    import c18_values as V
    V.run_part(ctx, out, model_cases)
    # the ENTRY POINT through which the namespace is loaded (DoitMain.run / doit.run / api.run_tasks / DodoTaskLoader / LOADER
    # plugins / the real command line) x the command x core and plugin command names (harness/c18_entry.py)
    import c18_entry as E
    E.run_part(ctx, out, model_cases)
    shapes = {}
    for v in out.violations:
        e = shapes.setdefault(v['shape'], dict(count=0, what=v['what'], example=v['case']))
        e['count'] += 1
    out.extra['violation_shapes'] = shapes
    out.evaluations = len(model_cases) + out.extra.get('delayed_invalid_runs', 0) + out.extra.get('result_values', {}).get('command_line_runs', 0)
    pre = PRE + V.PRE_EXTRA + E.PRE_ENTRY + 'Definition cmds0 : list string := [%s].\n' % '; '.join(cstr(x) for x in cmd_names())
    bad = compare(ctx, pre, model_cases)
    out.traces_validated = len(model_cases)
    for i, m in bad:
        out.mismatches.append(dict(case=str(model_cases[i]['desc']), impl=model_cases[i]['expected'], model=m, expr=model_cases[i]['model'][:1500]))
    for c in cases[:2] + [c for c in cases if c['kind'] == 'random'][:2]:
        out.samples.append(dict(label=str(c['label']), creators=c['creators'], observed=c['_obs']))
    out.assumptions = [
        'format of a non-str value inside the f-string building `basename:name` and fnmatch are oracles (Section variables); the check instantiates them for ints/bools/None/empty containers and for patterns of literals and *',
        'file_dep is a set in the code: the model iterates it in list order; generated cases have at most one file_dep that is a target of another task',
        'the definition line of every task-creator (inspect.getsourcelines) is an input of the model: the check computes it from the source text it generated (symbolic evaluation of the decorators), never by asking inspect; for the namespaces built in-process all creators share one line and the order is the one of the dict',
        'creators whose source inspect cannot read (exec / eval, functools.partial as create_doit_tasks) are not generated',
        'the parameters given by @task_params, result_dep objects in uptodate and BaseAction instances in clean/teardown are not modelled',
        'result values (harness/c18_values.py): values the model has no constructor for (bytes, set, frozenset, range, complex, Decimal, Fraction, deque, OrderedDict, defaultdict, mappingproxy, iterators, objects with __bool__ / __len__) are judged by the oracle only; all others are also compared with Loader.classify / generate_tasks_py / load_py',
        'a create_after creator whose result is rejected when the RUN calls it (TaskDispatcher._add_task): the oracle asks for a non-zero exit code, a diagnostic naming the creator, no traceback and none of its tasks executed -- the code gives exit 2 (run aborted), not 3, because tasks have already been executed (same reading as for the dangling dependencies of run-time tasks, fix 8f57713)',
        'importlib.metadata.entry_points (plugin discovery, unrelated to loading) is memoised while the in-process commands of the result-value part and of the entry-point part run',
        'entry points (harness/c18_entry.py): the set of command names of the oracle is the documented list of core commands (doc/cmd-run.rst, doc/cmd-other.rst) plus the COMMAND plugins the case declares; a difference with DoitMain.get_cmds() is itself reported.  Faults of the whole task set (dangling references, duplicate targets) are demanded of the commands that build the task graph (run, clean).  api.run_tasks re-raises the user errors instead of returning 3 (its documented behaviour): InvalidDodoFile / InvalidTask raised = rejected.  Not exercised: `doit auto` (separate package), tabcompletion / help <task>, entry_points-installed plugins',
    ]
    out.extra['trusted_base'] = ['mapping of concrete Python values to the tags of Model/Loader.v (harness/c18.py to_py / to_coq)']
    return out


def compare(ctx, pre, model_cases, batch=16):
    """common.compare_with_model, several cases per evaluation (the nat index coq_eval prints is unary: keep it small).
    Each evaluation yields None when all its cases agree, else Some (position :: model output) of the first that does not."""
    pre = pre + ('Fixpoint firstbad (i : Z) (l : list (option (list Z))) : option (list Z) :=\n'
                 '  match l with [] => None | None :: r => firstbad (i + 1) r | Some m :: _ => Some (i :: m) end.\n')
    items = []
    for s in range(0, len(model_cases), batch):
        items.append(('', 'firstbad 0 [%s]' % ';\n '.join('cmpZ (%s) %s' % (c['model'], common.zlist(c['expected']))
                                                         for c in model_cases[s:s + batch])))
    shard = max(4, -(-len(items) // common.NCPU))
    # the kinds of cases differ a lot in size: spread them evenly over the shards
    import random
    perm = list(range(len(items)))
    random.Random(0).shuffle(perm)
    res = common.coq_eval(ctx, pre, [items[j] for j in perm], shard=shard, tag='corr')
    outs = [None] * len(items)
    for k, j in enumerate(perm):
        outs[j] = res[k]
    bad = []
    for b, o in enumerate(outs):
        if o != 'None':
            z = common.parse_zlist(o)
            bad.append((b * batch + z[0], z[1:]))
    return bad


def replay_order(ctx, case):
    import c18_order as O
    for fn, text in sorted(case['files'].items()):
        print('----- %s' % fn)
        for i, l in enumerate(text.split('\n')[:-1]):
            print('%3d  %s' % (i + 1, l))
    print('----- namespace: %s' % ('dict(inspect.getmembers(module))' if case['ns_mode'] == 'members' else 'module.__dict__'))
    case = dict(case, label=tuple(case['label']) if isinstance(case['label'], list) else case['label'])
    r = observe_order(ctx, case, ctx.subdir('replay'), cli=True)
    import gc
    for o in gc.get_objects():      # the dbm object `doit list` leaves open: close it while its directory still exists
        if type(o).__module__ == 'dbm.dumb' and type(o).__name__ == '_Database':
            o.close()
    print('observed:', {0: 'accepted', 1: 'rejected', 2: 'crashed'}[r['obs_lt'][0]], r['names'] if r['names'] is not None else r['obs_lt'], r['site'] or '')
    print('written in this order (creators whose definition inspect can reach):', case['expected'])
    bad = r['obs_lt'][0] == 2
    if r['names'] is not None:
        w = O.order_violation(case, r['names'])
        print('definition order:', w or 'kept')
        bad = bad or bool(w)
        if r['cli'] is not None:
            print('doit list --all --sort definition -q:', r['cli'][2], 'exit', r['cli'][0])
            bad = bad or r['cli'][2] != r['names']
    return 1 if bad else 0


def replay(ctx, payload):
    case = payload.get('case', payload)
    if 'files' in case:
        return replay_order(ctx, case)
    if case.get('part') == 'result-value':
        import c18_values as V
        return V.replay(ctx, case)
    if str(case.get('part', '')).startswith('entry-point'):
        import c18_entry as E
        return E.replay(ctx, case)
    c = dict(creators=[dict(name=x['name'], result=_tup(x['result']), delayed=_tup(x.get('delayed'))) for x in case['creators']],
             allow=case.get('allow', False), cmds=cmd_names() if not isinstance(case.get('cmds'), list) else case['cmds'])
    obs, tasks, site = observe(c, control=True)
    print('creators:', c['creators'])
    print('observed:', {0: 'accepted', 1: 'rejected', 2: 'crashed'}[obs[0]], obs[:2] if obs[0] else [t.name for t in tasks], site or '')
    if tasks:
        print('well-formed:', wellformed_violation(tasks) or 'yes')
    return 0 if obs[0] != 2 else 1


def _tup(x):
    """json lists back to the tuples of the input language"""
    if isinstance(x, list):
        if x and isinstance(x[0], str) and x[0] in ('str', 'path', 'list', 'tuple', 'dict', 'true', 'false', 'none', 'int', 'float', 'fun',
                                                   'class', 'builtin', 'other', 'task', 'gen', 'unknown'):
            return tuple(_tup(e) for e in x)
        return [_tup(e) for e in x]
    return x
